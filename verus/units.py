"""Verus units: which real items are extracted from /repo's working tree and which contract clauses are
spliced onto them. Keys: file (src/<file>.rs), kind, name, impl_of, ret (name of the return value),
requires / ensures (clause text), loops {ordinal: clause text}, hints [(anchor, proof text)], rules."""
UNITS = {}

# ------------------------------------------------------------------------------------------------
# layer::compute_parents + LayersData::from_vec  (C09 unbounded, C04 no-panic)
# ------------------------------------------------------------------------------------------------
UNITS["parents"] = {
    "prelude_sections": ["errors", "forest"],
    "items": [
        {"kind": "struct", "file": "layer", "name": "LayerData", "keep": ["child_level"]},
        {"kind": "struct", "file": "layer", "name": "LayersData", "keep": ["layers", "parents"]},
        {"kind": "fn", "file": "layer", "name": "compute_parents", "ret": "result",
         "requires": "        first_is_root(layers@),\n        layers.len() <= u32::MAX,",
         "ensures": "        parents_ok(layers@, result@),",
         "loops": {
             1: ("        invariant\n"
                 "            first_is_root(layers@), layers.len() <= u32::MAX,\n"
                 "            result.len() == id,\n"
                 "            forall|i: int| 0 <= i < id ==> is_parent_of(layers@, i, #[trigger] result[i]),"),
             2: ("                    invariant\n"
                 "                        first_is_root(layers@), layers.len() <= u32::MAX,\n"
                 "                        0 < id < layers.len(), my_child_level == layers[id as int].child_level, my_child_level > 0,\n"
                 "                        0 <= parent_candidate < id,\n"
                 "                        forall|k: int| parent_candidate < k < id ==> #[trigger] layers[k].child_level >= my_child_level,\n"
                 "                    decreases parent_candidate,"),
         }},
        {"kind": "fn", "file": "layer", "name": "from_vec", "impl_of": "LayersData", "ret": "res",
         "requires": "        layers.len() <= u32::MAX,",
         "ensures": ("        res is Ok ==> parents_ok(res->Ok_0.layers@, res->Ok_0.parents@) && first_is_root(res->Ok_0.layers@)"
                     " && res->Ok_0.layers@ == layers@,"),
         },
    ],
}

# ------------------------------------------------------------------------------------------------
# file::write_raw_cel_to_image  (C02 / C06: placement, clipping, row-major index, opacity product –
# FUNCTIONAL correctness for unbounded sizes and all i16 offsets; C05: safety under pixels.len()==w*h)
# ------------------------------------------------------------------------------------------------
RAW_INV_COMMON = (
    "            image.w() == old(image).w(), image.h() == old(image).h(), image.w() <= 65535, image.h() <= 65535,\n"
    "            img_width == image.w(), img_height == image.h(),\n"
    "            x0 == cel_data.x as i32, y0 == cel_data.y as i32,\n"
    "            x_end == x0 + (image_size.width as i32), y_end == y0 + (image_size.height as i32),\n"
    "            *width == image_size.width, *height == image_size.height,\n"
    "            pixels.len() == (image_size.width as int) * (image_size.height as int),\n"
    "            blend_fn.mode == *blend_mode,\n"
    "            opacity as int == spec_round8(outer_opacity as int, cel_data.opacity as int),\n")
UNITS["raster_raw"] = {
    "prelude_sections": ["image", "raster_spec"],
    "items": [
        {"kind": "struct", "file": "cel", "name": "CelCommon", "keep": None},
        {"kind": "struct", "file": "cel", "name": "ImageSize", "keep": None},
        {"kind": "fn", "file": "file", "name": "write_raw_cel_to_image",
         "rules": ["R1", "R2", "R3", "R6"],
         # R-pre: what validation establishes (decoded pixel count == declared size) and what the callers
         # establish (the canvas is created from the sprite's u16 width/height)
         "requires": ("        pixels.len() == (image_size.width as int) * (image_size.height as int),\n"
                      "        old(image).w() <= 65535, old(image).h() <= 65535,"),
         "ensures": ("        final(image).w() == old(image).w(), final(image).h() == old(image).h(),\n"
                     "        forall|cx: int, cy: int| 0 <= cx < old(image).w() && 0 <= cy < old(image).h() ==>\n"
                     "            #[trigger] final(image).at(cx, cy) == raw_cel_pixel(old(image), cel_data, image_size, pixels@, *blend_mode, outer_opacity, cx, cy),"),
         "loops": {
             1: ("        invariant\n" + RAW_INV_COMMON +
                 "            forall|cx: int, cy: int| 0 <= cx < image.w() && 0 <= cy < image.h() ==>\n"
                 "                #[trigger] image.at(cx, cy) == (if cy < y { raw_cel_pixel(old(image), cel_data, image_size, pixels@, *blend_mode, outer_opacity, cx, cy) } else { old(image).at(cx, cy) }),"),
             2: ("            invariant\n" + RAW_INV_COMMON.replace("            ", "                ") +
                 "                y0 <= y < y_end, 0 <= y < img_height,\n"
                 "                forall|cx: int, cy: int| 0 <= cx < image.w() && 0 <= cy < image.h() ==>\n"
                 "                    #[trigger] image.at(cx, cy) == (if cy < y || (cy == y && cx < x) { raw_cel_pixel(old(image), cel_data, image_size, pixels@, *blend_mode, outer_opacity, cx, cy) } else { old(image).at(cx, cy) }),"),
         },
         "hints": [
             ("let idx =",
              "            assert(0 <= (y - y0) < *height && 0 <= (x - x0) < *width);\n"
              "            assert(((y - y0) as int) * (*width as int) + ((x - x0) as int) < (*width as int) * (*height as int)) by (nonlinear_arith)\n"
              "                requires 0 <= (y - y0) < *height, 0 <= (x - x0) < *width;\n"
              "            assert(((y - y0) as int) * (*width as int) <= 65535 * 65535) by (nonlinear_arith)\n"
              "                requires 0 <= (y - y0) <= 65535, 0 <= (*width as int) <= 65535;", "before"),
         ]},
    ],
}

# ------------------------------------------------------------------------------------------------
# tile lookups and the tilemap rasteriser  (C05 safety under R-pre, C08 lookup contract, C16 no wrap)
# ------------------------------------------------------------------------------------------------
TM_COMMON = (
    "            image.w() == old(image).w(), image.h() == old(image).h(), image.w() <= 65535, image.h() <= 65535,\n"
    "            tilemap_wf(tilemap_data), tiles_in_tileset(tilemap_data, tileset, pixels.len() as int),\n"
    "            tilemap_width == tilemap_data.width as i32, tilemap_height == tilemap_data.height as i32,\n"
    "            tile_size == tileset.tile_size, tile_width == tile_size.width as i32, tile_height == tile_size.height as i32,\n"
    "            cel_x == cel_data.x as i32, cel_y == cel_data.y as i32,\n")
UNITS["tilemap"] = {
    "prelude_sections": ["arch", "image", "tilemap_spec"],
    "items": [
        {"kind": "struct", "file": "cel", "name": "CelCommon", "keep": None},
        {"kind": "struct", "file": "tile", "name": "TileId", "keep": None, "attrs": "#[derive(Clone, Copy)]\n"},
        {"kind": "struct", "file": "tile", "name": "Tile", "keep": None},
        {"kind": "struct", "file": "tile", "name": "Tiles", "keep": None},
        {"kind": "index_impl_check", "file": "tile", "type": "Tiles"},
        {"kind": "struct", "file": "tilemap", "name": "TilemapData", "keep": ["width", "height", "tiles"],
         "rewrites": [("tile::Tiles", "Tiles")]},
        {"kind": "struct", "file": "tileset", "name": "TileSize", "keep": None, "attrs": "#[derive(Clone, Copy)]\n"},
        {"kind": "struct", "file": "tileset", "name": "Tileset", "keep": ["tile_size"], "header": "struct Tileset "},
        {"kind": "fn", "file": "tileset", "name": "width", "impl_of": "TileSize", "impl_filter": r"impl\s+TileSize", "ret": "r", "ensures": "        r == self.width,"},
        {"kind": "fn", "file": "tileset", "name": "height", "impl_of": "TileSize", "impl_filter": r"impl\s+TileSize", "ret": "r", "ensures": "        r == self.height,"},
        {"kind": "fn", "file": "tileset", "name": "pixels_per_tile", "impl_of": "TileSize", "impl_filter": r"impl\s+TileSize", "ret": "r",
         "ensures": "        r == (self.width as int) * (self.height as int),",
         "hints": [("self.width as u32 *",
                    "        assert((self.width as int) * (self.height as int) <= 65535 * 65535) by (nonlinear_arith)\n"
                    "            requires 0 <= (self.width as int) <= 65535, 0 <= (self.height as int) <= 65535;", "before")]},
        {"kind": "fn", "file": "tileset", "name": "tile_size", "impl_of": "Tileset", "impl_filter": r"impl<P>\s+Tileset<P>", "impl_header": "Tileset",
         "ret": "r", "ensures": "        r == self.tile_size,"},
        {"kind": "fn", "file": "tilemap", "name": "width", "impl_of": "TilemapData", "ret": "r", "ensures": "        r == self.width,"},
        {"kind": "fn", "file": "tilemap", "name": "height", "impl_of": "TilemapData", "ret": "r", "ensures": "        r == self.height,"},
        {"kind": "fn", "file": "tilemap", "name": "tile", "impl_of": "TilemapData", "ret": "r",
         "requires": "        tilemap_wf(self),",
         "ensures": ("        (r is Some) == (x < self.width && y < self.height),\n"
                     "        r is Some ==> *(r->0) == self.tiles.0[(y as int) * (self.width as int) + (x as int)],"),
         "body_rewrites": [("&self.tiles[index]", "&self.tiles.0[index]")],
         "hints": [("let index =",
                    "        assert((y as int) * (self.width as int) + (x as int) < (self.width as int) * (self.height as int)) by (nonlinear_arith)\n"
                    "            requires 0 <= (x as int) < (self.width as int), 0 <= (y as int) < (self.height as int);\n"
                    "        assert((y as int) * (self.width as int) <= 65535 * 65535) by (nonlinear_arith)\n"
                    "            requires 0 <= (y as int) <= 65535, 0 <= (self.width as int) <= 65535;", "before")]},
        {"kind": "fn", "file": "file", "name": "tile_slice", "ret": "r", "rules": ["R1", "R6", "R10"],
         "requires": "        (tile_id.0 as int + 1) * ((tile_size.width as int) * (tile_size.height as int)) <= pixels.len(),",
         "ensures": ("        r.len() == (tile_size.width as int) * (tile_size.height as int),\n"
                     "        r@ == pixels@.subrange((tile_id.0 as int) * ((tile_size.width as int) * (tile_size.height as int)),\n"
                     "                              (tile_id.0 as int + 1) * ((tile_size.width as int) * (tile_size.height as int))),"),
         "hints": [("let start =",
                    "    let ghost ppt = (tile_size.width as int) * (tile_size.height as int);\n"
                    "    assert(ppt * (tile_id.0 as int) + ppt == (tile_id.0 as int + 1) * ppt) by (nonlinear_arith);\n"
                    "    assert(ppt * (tile_id.0 as int) == (tile_id.0 as int) * ppt) by (nonlinear_arith);\n"
                    "    assert(0 <= ppt * (tile_id.0 as int)) by (nonlinear_arith) requires 0 <= ppt, 0 <= (tile_id.0 as int);", "before")]},
        {"kind": "fn", "file": "file", "name": "write_tilemap_cel_to_image",
         "rules": ["R1", "R3", "R6", "R7"],
         "requires": ("        tilemap_wf(tilemap_data), tiles_in_tileset(tilemap_data, tileset, pixels.len() as int),\n"
                      "        old(image).w() <= 65535, old(image).h() <= 65535,"),
         "ensures": "        final(image).w() == old(image).w(), final(image).h() == old(image).h(),",
         "loops": {
             1: "        invariant\n" + TM_COMMON,
             2: "            invariant\n" + TM_COMMON + "            0 <= tile_y < tilemap_height,\n",
             3: ("                invariant\n" + TM_COMMON + "            0 <= tile_y < tilemap_height, 0 <= tile_x < tilemap_width,\n"
                 "            tile_pixels.len() == (tile_size.width as int) * (tile_size.height as int),\n"),
             4: ("                    invariant\n" + TM_COMMON + "            0 <= tile_y < tilemap_height, 0 <= tile_x < tilemap_width, 0 <= pixel_y < tile_height,\n"
                 "            tile_pixels.len() == (tile_size.width as int) * (tile_size.height as int),\n"),
         },
         "hints": [
             ("let tile_pixels =",
              "            assert(tilemap_data.tiles.0[(tile_y as int) * (tilemap_data.width as int) + (tile_x as int)] == *tile);\n"
              "            assert(0 <= (tile_y as int) * (tilemap_data.width as int) + (tile_x as int) < tilemap_data.tiles.0.len()) by (nonlinear_arith)\n"
              "                requires 0 <= (tile_x as int) < (tilemap_data.width as int), 0 <= (tile_y as int) < (tilemap_data.height as int),\n"
              "                    tilemap_data.tiles.0.len() == (tilemap_data.width as int) * (tilemap_data.height as int);", "before"),
             ("let pixel_idx =",
              "                    assert((pixel_y as int) * (tile_width as int) + (pixel_x as int) < (tile_size.width as int) * (tile_size.height as int)) by (nonlinear_arith)\n"
              "                        requires 0 <= (pixel_x as int) < (tile_width as int), 0 <= (pixel_y as int) < (tile_height as int),\n"
              "                            tile_width as int == tile_size.width as int, tile_height as int == tile_size.height as int;\n"
              "                    assert((pixel_y as int) * (tile_width as int) <= 65535 * 65535) by (nonlinear_arith)\n"
              "                        requires 0 <= (pixel_y as int) <= 65535, 0 <= (tile_width as int) <= 65535;\n"
              "                    assert((tile_x as int) * (tile_width as int) <= 65535 * 65535 && (tile_y as int) * (tile_height as int) <= 65535 * 65535) by (nonlinear_arith)\n"
              "                        requires 0 <= (tile_x as int) <= 65535, 0 <= (tile_width as int) <= 65535, 0 <= (tile_y as int) <= 65535, 0 <= (tile_height as int) <= 65535;", "before"),
         ]},
    ],
}
