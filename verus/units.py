"""Verus units: which real items are extracted from /repo's working tree and which contract clauses are
spliced onto them. Keys: file (src/<file>.rs), kind, name, impl_of, ret (name of the return value),
requires / ensures (clause text), loops {ordinal: clause text}, hints [(anchor, proof text)], rules."""
UNITS = {}

# ------------------------------------------------------------------------------------------------
# layer::compute_parents + LayersData::from_vec  (C09 unbounded, C04 no-panic)
# ------------------------------------------------------------------------------------------------
UNITS["parents"] = {
    "prelude_sections": ["errors", "forest"],
    "items": [
        {"kind": "struct", "file": "layer", "name": "LayerData", "keep": ["child_level"]},
        {"kind": "struct", "file": "layer", "name": "LayersData", "keep": ["layers", "parents"]},
        {"kind": "fn", "file": "layer", "name": "compute_parents", "ret": "result",
         "requires": "        first_is_root(layers@),\n        layers.len() <= u32::MAX,",
         "ensures": "        parents_ok(layers@, result@),",
         "loops": {
             1: ("        invariant\n"
                 "            first_is_root(layers@), layers.len() <= u32::MAX,\n"
                 "            result.len() == id,\n"
                 "            forall|i: int| 0 <= i < id ==> is_parent_of(layers@, i, #[trigger] result[i]),"),
             2: ("                    invariant\n"
                 "                        first_is_root(layers@), layers.len() <= u32::MAX,\n"
                 "                        0 < id < layers.len(), my_child_level == layers[id as int].child_level, my_child_level > 0,\n"
                 "                        0 <= parent_candidate < id,\n"
                 "                        forall|k: int| parent_candidate < k < id ==> #[trigger] layers[k].child_level >= my_child_level,\n"
                 "                    decreases parent_candidate,"),
         }},
        {"kind": "fn", "file": "layer", "name": "from_vec", "impl_of": "LayersData", "ret": "res",
         "requires": "        layers.len() <= u32::MAX,",
         "ensures": ("        res is Ok ==> parents_ok(res->Ok_0.layers@, res->Ok_0.parents@) && first_is_root(res->Ok_0.layers@)"
                     " && res->Ok_0.layers@ == layers@,"),
         },
    ],
}

# ------------------------------------------------------------------------------------------------
# file::write_raw_cel_to_image  (C02 / C06: placement, clipping, row-major index, opacity product –
# FUNCTIONAL correctness for unbounded sizes and all i16 offsets; C05: safety under pixels.len()==w*h)
# ------------------------------------------------------------------------------------------------
RAW_INV_COMMON = (
    "            image.w() == old(image).w(), image.h() == old(image).h(), image.w() <= 65535, image.h() <= 65535,\n"
    "            img_width == image.w(), img_height == image.h(),\n"
    "            x0 == cel_data.x as i32, y0 == cel_data.y as i32,\n"
    "            x_end == x0 + (image_size.width as i32), y_end == y0 + (image_size.height as i32),\n"
    "            *width == image_size.width, *height == image_size.height,\n"
    "            pixels.len() == (image_size.width as int) * (image_size.height as int),\n"
    "            blend_fn.mode == *blend_mode,\n"
    "            opacity as int == spec_round8(outer_opacity as int, cel_data.opacity as int),\n")
UNITS["raster_raw"] = {
    "prelude_sections": ["image", "raster_spec"],
    "items": [
        {"kind": "struct", "file": "cel", "name": "CelCommon", "keep": None},
        {"kind": "struct", "file": "cel", "name": "ImageSize", "keep": None},
        {"kind": "fn", "file": "file", "name": "write_raw_cel_to_image",
         "rules": ["R1", "R2", "R3", "R6"],
         # R-pre: what validation establishes (decoded pixel count == declared size) and what the callers
         # establish (the canvas is created from the sprite's u16 width/height)
         "requires": ("        pixels.len() == (image_size.width as int) * (image_size.height as int),\n"
                      "        old(image).w() <= 65535, old(image).h() <= 65535,"),
         "ensures": ("        final(image).w() == old(image).w(), final(image).h() == old(image).h(),\n"
                     "        forall|cx: int, cy: int| 0 <= cx < old(image).w() && 0 <= cy < old(image).h() ==>\n"
                     "            #[trigger] final(image).at(cx, cy) == raw_cel_pixel(old(image), cel_data, image_size, pixels@, *blend_mode, outer_opacity, cx, cy),"),
         "loops": {
             1: ("        invariant\n" + RAW_INV_COMMON +
                 "            forall|cx: int, cy: int| 0 <= cx < image.w() && 0 <= cy < image.h() ==>\n"
                 "                #[trigger] image.at(cx, cy) == (if cy < y { raw_cel_pixel(old(image), cel_data, image_size, pixels@, *blend_mode, outer_opacity, cx, cy) } else { old(image).at(cx, cy) }),"),
             2: ("            invariant\n" + RAW_INV_COMMON.replace("            ", "                ") +
                 "                y0 <= y < y_end, 0 <= y < img_height,\n"
                 "                forall|cx: int, cy: int| 0 <= cx < image.w() && 0 <= cy < image.h() ==>\n"
                 "                    #[trigger] image.at(cx, cy) == (if cy < y || (cy == y && cx < x) { raw_cel_pixel(old(image), cel_data, image_size, pixels@, *blend_mode, outer_opacity, cx, cy) } else { old(image).at(cx, cy) }),"),
         },
         "hints": [
             ("let idx =",
              "            assert(0 <= (y - y0) < *height && 0 <= (x - x0) < *width);\n"
              "            assert(((y - y0) as int) * (*width as int) + ((x - x0) as int) < (*width as int) * (*height as int)) by (nonlinear_arith)\n"
              "                requires 0 <= (y - y0) < *height, 0 <= (x - x0) < *width;\n"
              "            assert(((y - y0) as int) * (*width as int) <= 65535 * 65535) by (nonlinear_arith)\n"
              "                requires 0 <= (y - y0) <= 65535, 0 <= (*width as int) <= 65535;", "before"),
         ]},
    ],
}

# ------------------------------------------------------------------------------------------------
# tile lookups and the tilemap rasteriser  (C05 safety under R-pre, C08 lookup contract, C16 no wrap)
# ------------------------------------------------------------------------------------------------
TM_COMMON = (
    "            image.w() == old(image).w(), image.h() == old(image).h(), image.w() <= 65535, image.h() <= 65535,\n"
    "            tilemap_wf(tilemap_data), tiles_in_tileset(tilemap_data, tileset, pixels.len() as int),\n"
    "            tilemap_width == tilemap_data.width as i32, tilemap_height == tilemap_data.height as i32,\n"
    "            tile_size == tileset.tile_size, tile_width == tile_size.width as i32, tile_height == tile_size.height as i32,\n"
    "            cel_x == cel_data.x as i32, cel_y == cel_data.y as i32,\n")
UNITS["tilemap"] = {
    "prelude_sections": ["arch", "image", "tilemap_spec"],
    "items": [
        {"kind": "struct", "file": "cel", "name": "CelCommon", "keep": None},
        {"kind": "struct", "file": "tile", "name": "TileId", "keep": None, "attrs": "#[derive(Clone, Copy)]\n"},
        {"kind": "struct", "file": "tile", "name": "Tile", "keep": None},
        {"kind": "struct", "file": "tile", "name": "Tiles", "keep": None},
        {"kind": "index_impl_check", "file": "tile", "type": "Tiles"},
        {"kind": "struct", "file": "tilemap", "name": "TilemapData", "keep": ["width", "height", "tiles"],
         "rewrites": [("tile::Tiles", "Tiles")]},
        {"kind": "struct", "file": "tileset", "name": "TileSize", "keep": None, "attrs": "#[derive(Clone, Copy)]\n"},
        {"kind": "struct", "file": "tileset", "name": "Tileset", "keep": ["tile_size"], "header": "struct Tileset "},
        {"kind": "fn", "file": "tileset", "name": "width", "impl_of": "TileSize", "impl_filter": r"impl\s+TileSize", "ret": "r", "ensures": "        r == self.width,"},
        {"kind": "fn", "file": "tileset", "name": "height", "impl_of": "TileSize", "impl_filter": r"impl\s+TileSize", "ret": "r", "ensures": "        r == self.height,"},
        {"kind": "fn", "file": "tileset", "name": "pixels_per_tile", "impl_of": "TileSize", "impl_filter": r"impl\s+TileSize", "ret": "r",
         "ensures": "        r == (self.width as int) * (self.height as int),",
         "hints": [("self.width as u32 *",
                    "        assert((self.width as int) * (self.height as int) <= 65535 * 65535) by (nonlinear_arith)\n"
                    "            requires 0 <= (self.width as int) <= 65535, 0 <= (self.height as int) <= 65535;", "before")]},
        {"kind": "fn", "file": "tileset", "name": "tile_size", "impl_of": "Tileset", "impl_filter": r"impl<P>\s+Tileset<P>", "impl_header": "Tileset",
         "ret": "r", "ensures": "        r == self.tile_size,"},
        {"kind": "fn", "file": "tilemap", "name": "width", "impl_of": "TilemapData", "ret": "r", "ensures": "        r == self.width,"},
        {"kind": "fn", "file": "tilemap", "name": "height", "impl_of": "TilemapData", "ret": "r", "ensures": "        r == self.height,"},
        {"kind": "fn", "file": "tilemap", "name": "tile", "impl_of": "TilemapData", "ret": "r",
         "requires": "        tilemap_wf(self),",
         "ensures": ("        (r is Some) == (x < self.width && y < self.height),\n"
                     "        r is Some ==> *(r->0) == self.tiles.0[(y as int) * (self.width as int) + (x as int)],"),
         "body_rewrites": [("&self.tiles[index]", "&self.tiles.0[index]")],
         "hints": [("let index =",
                    "        assert((y as int) * (self.width as int) + (x as int) < (self.width as int) * (self.height as int)) by (nonlinear_arith)\n"
                    "            requires 0 <= (x as int) < (self.width as int), 0 <= (y as int) < (self.height as int);\n"
                    "        assert((y as int) * (self.width as int) <= 65535 * 65535) by (nonlinear_arith)\n"
                    "            requires 0 <= (y as int) <= 65535, 0 <= (self.width as int) <= 65535;", "before")]},
        {"kind": "fn", "file": "file", "name": "tile_slice", "ret": "r", "rules": ["R1", "R6", "R10"],
         "requires": "        (tile_id.0 as int + 1) * ((tile_size.width as int) * (tile_size.height as int)) <= pixels.len(),",
         "ensures": ("        r.len() == (tile_size.width as int) * (tile_size.height as int),\n"
                     "        r@ == pixels@.subrange((tile_id.0 as int) * ((tile_size.width as int) * (tile_size.height as int)),\n"
                     "                              (tile_id.0 as int + 1) * ((tile_size.width as int) * (tile_size.height as int))),"),
         "hints": [("let start =",
                    "    let ghost ppt = (tile_size.width as int) * (tile_size.height as int);\n"
                    "    assert(ppt * (tile_id.0 as int) + ppt == (tile_id.0 as int + 1) * ppt) by (nonlinear_arith);\n"
                    "    assert(ppt * (tile_id.0 as int) == (tile_id.0 as int) * ppt) by (nonlinear_arith);\n"
                    "    assert(0 <= ppt * (tile_id.0 as int)) by (nonlinear_arith) requires 0 <= ppt, 0 <= (tile_id.0 as int);", "before")]},
        {"kind": "fn", "file": "file", "name": "write_tilemap_cel_to_image",
         "rules": ["R1", "R3", "R6", "R7"],
         "requires": ("        tilemap_wf(tilemap_data), tiles_in_tileset(tilemap_data, tileset, pixels.len() as int),\n"
                      "        old(image).w() <= 65535, old(image).h() <= 65535,"),
         "ensures": "        final(image).w() == old(image).w(), final(image).h() == old(image).h(),",
         "loops": {
             1: "        invariant\n" + TM_COMMON,
             2: "            invariant\n" + TM_COMMON + "            0 <= tile_y < tilemap_height,\n",
             3: ("                invariant\n" + TM_COMMON + "            0 <= tile_y < tilemap_height, 0 <= tile_x < tilemap_width,\n"
                 "            tile_pixels.len() == (tile_size.width as int) * (tile_size.height as int),\n"),
             4: ("                    invariant\n" + TM_COMMON + "            0 <= tile_y < tilemap_height, 0 <= tile_x < tilemap_width, 0 <= pixel_y < tile_height,\n"
                 "            tile_pixels.len() == (tile_size.width as int) * (tile_size.height as int),\n"),
         },
         "hints": [
             ("let tile_pixels =",
              "            assert(tilemap_data.tiles.0[(tile_y as int) * (tilemap_data.width as int) + (tile_x as int)] == *tile);\n"
              "            assert(0 <= (tile_y as int) * (tilemap_data.width as int) + (tile_x as int) < tilemap_data.tiles.0.len()) by (nonlinear_arith)\n"
              "                requires 0 <= (tile_x as int) < (tilemap_data.width as int), 0 <= (tile_y as int) < (tilemap_data.height as int),\n"
              "                    tilemap_data.tiles.0.len() == (tilemap_data.width as int) * (tilemap_data.height as int);", "before"),
             ("let pixel_idx =",
              "                    assert((pixel_y as int) * (tile_width as int) + (pixel_x as int) < (tile_size.width as int) * (tile_size.height as int)) by (nonlinear_arith)\n"
              "                        requires 0 <= (pixel_x as int) < (tile_width as int), 0 <= (pixel_y as int) < (tile_height as int),\n"
              "                            tile_width as int == tile_size.width as int, tile_height as int == tile_size.height as int;\n"
              "                    assert((pixel_y as int) * (tile_width as int) <= 65535 * 65535) by (nonlinear_arith)\n"
              "                        requires 0 <= (pixel_y as int) <= 65535, 0 <= (tile_width as int) <= 65535;\n"
              "                    assert((tile_x as int) * (tile_width as int) <= 65535 * 65535 && (tile_y as int) * (tile_height as int) <= 65535 * 65535) by (nonlinear_arith)\n"
              "                        requires 0 <= (tile_x as int) <= 65535, 0 <= (tile_width as int) <= 65535, 0 <= (tile_y as int) <= 65535, 0 <= (tile_height as int) <= 65535;", "before"),
         ]},
    ],
}

# ------------------------------------------------------------------------------------------------
# Layer::is_visible (C09): == own flag && all ancestors' flags; terminates (parent id < child id)
# ------------------------------------------------------------------------------------------------
UNITS["visible"] = {
    "prelude_sections": ["layer_flags", "forest"],
    "items": [
        {"kind": "struct", "file": "layer", "name": "LayerData", "keep": ["flags", "child_level"]},
        {"kind": "struct", "file": "layer", "name": "LayersData", "keep": ["layers", "parents"]},
        {"kind": "index_impl_check", "file": "layer", "type": "LayersData", "body": "{&self.layers[index as usize]}"},
        {"kind": "struct", "file": "file", "name": "AsepriteFile", "keep": ["layers"]},
        {"kind": "struct", "file": "layer", "name": "Layer", "keep": ["file", "layer_id"]},
        {"kind": "fn", "file": "layer", "name": "is_visible", "impl_of": "Layer", "impl_header": "<'a> Layer<'a>", "ret": "r",
         "requires": ("        parents_ok(self.file.layers.layers@, self.file.layers.parents@),\n"
                      "        (self.layer_id as int) < self.file.layers.layers.len(),"),
         "ensures": "        r == spec_visible(self.file.layers.layers@, self.file.layers.parents@, self.layer_id as int),",
         "body_rewrites": [("self.file.layers[layer_id]", "self.file.layers.layers[layer_id as usize]")],
         "loops": {1: ("            invariant\n"
                       "                parents_ok(self.file.layers.layers@, self.file.layers.parents@),\n"
                       "                (layer_id as int) < self.file.layers.layers.len(),\n"
                       "                spec_visible(self.file.layers.layers@, self.file.layers.parents@, self.layer_id as int)\n"
                       "                    == spec_visible(self.file.layers.layers@, self.file.layers.parents@, layer_id as int),\n"
                       "            decreases layer_id,")},
         },
    ],
}

# ------------------------------------------------------------------------------------------------
# Tilemap::tile / tile_offsets (C08 lookup incl. the empty-tile fallback, C05: no overflow for any u32 coordinate)
# ------------------------------------------------------------------------------------------------
UNITS["tilemap_lookup"] = {
    "prelude_sections": ["arch", "tilemap_spec"],
    "items": [
        {"kind": "struct", "file": "tile", "name": "TileId", "keep": None, "attrs": "#[derive(Clone, Copy, PartialEq, Eq)]\n"},
        {"kind": "struct", "file": "tile", "name": "Tile", "keep": None},
        {"kind": "struct", "file": "tile", "name": "Tiles", "keep": None},
        {"kind": "index_impl_check", "file": "tile", "type": "Tiles"},
        {"kind": "struct", "file": "tilemap", "name": "TilemapData", "keep": ["width", "height", "tiles"], "rewrites": [("tile::Tiles", "Tiles")]},
        {"kind": "struct", "file": "tileset", "name": "TileSize", "keep": None, "attrs": "#[derive(Clone, Copy)]\n"},
        {"kind": "struct", "file": "tileset", "name": "Tileset", "keep": ["tile_size"], "header": "struct Tileset "},
        {"kind": "struct", "file": "tilemap", "name": "Tilemap", "keep": ["tileset", "logical_size"]},
        {"kind": "fn", "file": "tileset", "name": "width", "impl_of": "TileSize", "impl_filter": r"impl\s+TileSize", "ret": "r", "ensures": "        r == self.width,"},
        {"kind": "fn", "file": "tileset", "name": "height", "impl_of": "TileSize", "impl_filter": r"impl\s+TileSize", "ret": "r", "ensures": "        r == self.height,"},
        {"kind": "fn", "file": "tileset", "name": "tile_size", "impl_of": "Tileset", "impl_filter": r"impl<P>\s+Tileset<P>", "impl_header": "Tileset",
         "ret": "r", "ensures": "        r == self.tile_size,"},
        {"kind": "fn", "file": "tilemap", "name": "width", "impl_of": "TilemapData", "ret": "r", "ensures": "        r == self.width,"},
        {"kind": "fn", "file": "tilemap", "name": "height", "impl_of": "TilemapData", "ret": "r", "ensures": "        r == self.height,"},
        {"kind": "verbatim", "text": """
/// the empty tile (src/tile.rs: `static EMPTY_TILE` with id 0; TRUSTED transcription of the static's value)
pub exec static EMPTY_TILE: Tile
    ensures EMPTY_TILE.id == TileId(0)
{
    Tile { id: TileId(0), flip_x: false, flip_y: false, rotate_90cw: false }
}
impl<'a> Tilemap<'a> {
    /// the tilemap data of the cel this view was created for (reached through the cel table; abstract here)
    pub uninterp spec fn spec_data(&self) -> &TilemapData;
    /// the cel's top-left corner: i16 fields widened to i32 (Cel::top_left)
    pub uninterp spec fn spec_px(&self) -> (i32, i32);
    #[verifier::external_body]
    fn tilemap(&self) -> (r: &TilemapData)
        ensures r == self.spec_data(),
    { unimplemented!() }
    #[verifier::external_body]
    pub fn pixel_offsets(&self) -> (r: (i32, i32))
        ensures r == self.spec_px(), -32768 <= r.0 <= 32767, -32768 <= r.1 <= 32767,
    { unimplemented!() }
}
/// C08: tile offsets = cel offset / tile size (Rust division: truncation toward zero)
pub open spec fn trunc_div(a: int, b: int) -> int {
    if a >= 0 { a / b } else { -((-a) / b) }
}
pub open spec fn spec_tile_offsets(tm: &Tilemap) -> (int, int) {
    (trunc_div(tm.spec_px().0 as int, tm.tileset.tile_size.width as int), trunc_div(tm.spec_px().1 as int, tm.tileset.tile_size.height as int))
}
"""},
        {"kind": "fn", "file": "tilemap", "name": "tileset", "impl_of": "Tilemap", "impl_header": "<'a> Tilemap<'a>", "ret": "r", "ensures": "        r == self.tileset,"},
        {"kind": "fn", "file": "tilemap", "name": "tile_offsets", "impl_of": "Tilemap", "impl_header": "<'a> Tilemap<'a>", "ret": "r",
         "requires": "        self.tileset.tile_size.width >= 1, self.tileset.tile_size.height >= 1,",
         "ensures": "        r.0 as int == spec_tile_offsets(self).0, r.1 as int == spec_tile_offsets(self).1, -32768 <= r.0 <= 32767, -32768 <= r.1 <= 32767,"},
        {"kind": "fn", "file": "tilemap", "name": "tile", "impl_of": "Tilemap", "impl_header": "<'a> Tilemap<'a>", "ret": "r",
         "requires": ("        self.tileset.tile_size.width >= 1, self.tileset.tile_size.height >= 1,\n"
                      "        tilemap_wf(self.spec_data()),"),
         "ensures": ("        ({ let sx = x as int - spec_tile_offsets(self).0; let sy = y as int - spec_tile_offsets(self).1;\n"
                     "           let d = self.spec_data();\n"
                     "           if 0 <= sx < d.width as int && 0 <= sy < d.height as int { *r == d.tiles.0[sy * (d.width as int) + sx] } else { r.id == TileId(0) } }),"),
         "body_rewrites": [("&self.tilemap().tiles[index]", "&self.tilemap().tiles.0[index]")],
         "hints": [("let index =",
                    "        assert((y as int) * (w as int) + (x as int) < (w as int) * (h as int)) by (nonlinear_arith)\n"
                    "            requires 0 <= (x as int) < (w as int), 0 <= (y as int) < (h as int);\n"
                    "        assert((y as int) * (w as int) <= 65535 * 65535) by (nonlinear_arith)\n"
                    "            requires 0 <= (y as int) <= 65535, 0 <= (w as int) <= 65535;", "before")]},
    ],
}

# ------------------------------------------------------------------------------------------------
# The user-data attachment state machine of ParseInfo (C10) – every method under contract
# ------------------------------------------------------------------------------------------------
UD_FRAME = ("        final(self).layers@.len() == old(self).layers@.len(),\n")
UNITS["userdata"] = {
    "prelude_sections": ["errors", "rgba_only"],
    "items": [
        {"kind": "struct", "file": "user_data", "name": "UserData", "keep": None, "rewrites": [("image::Rgba<u8>", "Rgba<u8>")]},
        {"kind": "struct", "file": "layer", "name": "LayerData", "keep": ["user_data"]},
        {"kind": "struct", "file": "tags", "name": "Tag", "keep": ["user_data"]},
        {"kind": "fn", "file": "tags", "name": "set_user_data", "impl_of": "Tag",
         "ensures": "        final(self).user_data == Some(user_data),"},
        {"kind": "struct", "file": "slice", "name": "Slice", "keep": ["user_data"]},
        {"kind": "struct", "file": "cel", "name": "CelId", "keep": None, "attrs": "#[derive(Clone, Copy)]\n"},
        {"kind": "struct", "file": "cel", "name": "CelCommon", "keep": None},
        {"kind": "struct", "file": "cel", "name": "RawCel", "keep": ["data", "user_data"], "header": "struct RawCel "},
        {"kind": "struct", "file": "cel", "name": "CelsData", "keep": ["data", "num_frames"], "header": "struct CelsData ",
         "rewrites": [("RawCel<P>", "RawCel")]},
        {"kind": "verbatim", "text": """
impl CelsData {
    /// the cel stored at (frame, layer), None if there is none (or the indices are outside the table)
    pub open spec fn at(&self, f: int, l: int) -> Option<RawCel> {
        if 0 <= f < self.data.len() && 0 <= l < self.data[f].len() { self.data[f][l] } else { None }
    }
    /// `add_cel` under its contract (the real function uses Vec::resize_with + closures; its contract is the
    /// Kani obligation k_cels_table and is exercised by x_cel_order_irrelevant) - ASSUMED in this unit
    #[verifier::external_body]
    pub fn add_cel(&mut self, frame_id: u16, cel: RawCel) -> (r: Result<()>)
        ensures
            final(self).data.len() == old(self).data.len(),
            r is Ok ==> (frame_id as int) < old(self).data.len()
                && final(self).at(frame_id as int, cel.data.layer_index as int) == Some(cel)
                && forall|f: int, l: int| !(f == frame_id && l == cel.data.layer_index) ==> #[trigger] final(self).at(f, l) == old(self).at(f, l),
            r is Err ==> forall|f: int, l: int| #[trigger] final(self).at(f, l) == old(self).at(f, l),
    { unimplemented!() }
}
"""},
        {"kind": "fn", "file": "cel", "name": "cel_mut", "impl_of": "CelsData", "impl_filter": r"impl<P>\s+CelsData<P>", "impl_header": "CelsData", "ret": "r",
         "sig_rewrites": [("RawCel<P>", "RawCel")],
         "requires": "        (cel_id.frame as int) < old(self).data.len(),",
         "ensures": ("        final(self).data.len() == old(self).data.len(),\n"
                     "        match r {\n"
                     "            Some(c) => old(self).at(cel_id.frame as int, cel_id.layer as int) == Some(*c)\n"
                     "                && final(self).at(cel_id.frame as int, cel_id.layer as int) == Some(*final(c))\n"
                     "                && forall|f: int, l: int| !(f == cel_id.frame && l == cel_id.layer) ==> #[trigger] final(self).at(f, l) == old(self).at(f, l),\n"
                     "            None => old(self).at(cel_id.frame as int, cel_id.layer as int) is None && forall|f: int, l: int| #[trigger] final(self).at(f, l) == old(self).at(f, l),\n"
                     "        },")},
        {"kind": "enum", "file": "parse", "name": "UserDataContext", "attrs": "#[derive(Clone, Copy)]\n"},
        {"kind": "struct", "file": "parse", "name": "ParseInfo", "keep": ["layers", "framedata", "tags", "sprite_user_data", "user_data_context", "slices"],
         "rewrites": [("cel::CelsData<RawPixels>", "CelsData")]},
        {"kind": "verbatim", "text": """
/// ParseInfo invariant: a cel context always names an existing frame (established by add_cel)
pub open spec fn ctx_wf(p: &ParseInfo) -> bool {
    match p.user_data_context {
        Some(UserDataContext::CelId(c)) => (c.frame as int) < p.framedata.data.len(),
        _ => true,
    }
}
pub open spec fn tags_same(a: Option<Vec<Tag>>, b: Option<Vec<Tag>>) -> bool {
    (a is Some) == (b is Some) && (a is Some ==> a->0@ == b->0@)
}
pub open spec fn cels_same(a: &CelsData, b: &CelsData) -> bool {
    forall|f: int, l: int| #[trigger] a.at(f, l) == b.at(f, l)
}
/// C10, the attachment rule: a user-data record goes to the entity named by the current context - and to
/// nothing else (everything that is not that entity is unchanged); a tag context advances to the next tag.
pub open spec fn attach_post(o: &ParseInfo, n: &ParseInfo, ctx: UserDataContext, ud: UserData, ok: bool) -> bool {
    match ctx {
        UserDataContext::LayerIndex(i) => {
            &&& ok == ((i as int) < o.layers@.len())
            &&& ok ==> n.layers@[i as int].user_data == Some(ud)
            &&& forall|k: int| 0 <= k < o.layers@.len() && !(ok && k == i) ==> #[trigger] n.layers@[k] == o.layers@[k]
            &&& n.slices@ == o.slices@ && tags_same(n.tags, o.tags) && n.sprite_user_data == o.sprite_user_data && cels_same(&n.framedata, &o.framedata)
            &&& ok ==> n.user_data_context == o.user_data_context
        },
        UserDataContext::SliceIndex(i) => {
            &&& ok == ((i as int) < o.slices@.len())
            &&& ok ==> n.slices@[i as int].user_data == Some(ud)
            &&& forall|k: int| 0 <= k < o.slices@.len() && !(ok && k == i) ==> #[trigger] n.slices@[k] == o.slices@[k]
            &&& n.layers@ == o.layers@ && tags_same(n.tags, o.tags) && n.sprite_user_data == o.sprite_user_data && cels_same(&n.framedata, &o.framedata)
            &&& ok ==> n.user_data_context == o.user_data_context
        },
        UserDataContext::OldPalette => {
            &&& ok
            &&& n.sprite_user_data == Some(ud)
            &&& n.layers@ == o.layers@ && n.slices@ == o.slices@ && tags_same(n.tags, o.tags) && cels_same(&n.framedata, &o.framedata)
            &&& n.user_data_context == o.user_data_context
        },
        UserDataContext::TagIndex(t) => {
            &&& ok == (o.tags is Some && (t as int) < o.tags->0@.len())
            &&& ok ==> n.tags is Some && n.tags->0@.len() == o.tags->0@.len() && n.tags->0@[t as int].user_data == Some(ud)
                && (forall|k: int| 0 <= k < o.tags->0@.len() && k != t ==> #[trigger] n.tags->0@[k] == o.tags->0@[k])
                && n.user_data_context == Some(UserDataContext::TagIndex((t + 1) as u16))
            &&& !ok ==> tags_same(n.tags, o.tags)
            &&& n.layers@ == o.layers@ && n.slices@ == o.slices@ && n.sprite_user_data == o.sprite_user_data && cels_same(&n.framedata, &o.framedata)
        },
        UserDataContext::CelId(c) => {
            &&& ok == (o.framedata.at(c.frame as int, c.layer as int) is Some)
            &&& ok ==> n.framedata.at(c.frame as int, c.layer as int) is Some
                && n.framedata.at(c.frame as int, c.layer as int)->0.user_data == Some(ud)
                && n.framedata.at(c.frame as int, c.layer as int)->0.data == o.framedata.at(c.frame as int, c.layer as int)->0.data
            &&& forall|f: int, l: int| !(ok && f == c.frame && l == c.layer) ==> #[trigger] n.framedata.at(f, l) == o.framedata.at(f, l)
            &&& n.layers@ == o.layers@ && n.slices@ == o.slices@ && tags_same(n.tags, o.tags) && n.sprite_user_data == o.sprite_user_data
            &&& ok ==> n.user_data_context == o.user_data_context
        },
    }
}
"""},
        {"kind": "fn", "file": "parse", "name": "add_layer", "impl_of": "ParseInfo",
         "requires": "        old(self).layers@.len() < u32::MAX,",
         "ensures": ("        final(self).layers@ == old(self).layers@.push(layer_data),\n"
                     "        final(self).user_data_context == Some(UserDataContext::LayerIndex(old(self).layers@.len() as u32)),\n"
                     "        final(self).tags == old(self).tags, final(self).slices@ == old(self).slices@, final(self).sprite_user_data == old(self).sprite_user_data,\n"
                     "        final(self).framedata == old(self).framedata,")},
        {"kind": "fn", "file": "parse", "name": "add_slice", "impl_of": "ParseInfo",
         "requires": "        old(self).slices@.len() < u32::MAX,",
         "ensures": ("        final(self).slices@ == old(self).slices@.push(slice),\n"
                     "        final(self).user_data_context == Some(UserDataContext::SliceIndex(old(self).slices@.len() as u32)),\n"
                     "        final(self).tags == old(self).tags, final(self).layers@ == old(self).layers@, final(self).sprite_user_data == old(self).sprite_user_data,\n"
                     "        final(self).framedata == old(self).framedata,")},
        {"kind": "fn", "file": "parse", "name": "add_tags", "impl_of": "ParseInfo",
         "ensures": ("        final(self).tags == Some(tags),\n"
                     "        final(self).user_data_context == Some(UserDataContext::TagIndex(0)),\n"
                     "        final(self).slices@ == old(self).slices@, final(self).layers@ == old(self).layers@, final(self).sprite_user_data == old(self).sprite_user_data,\n"
                     "        final(self).framedata == old(self).framedata,")},
        {"kind": "fn", "file": "parse", "name": "add_cel", "impl_of": "ParseInfo", "ret": "r",
         "sig_rewrites": [("cel::RawCel<RawPixels>", "RawCel")], "rules": ["R1", "R6", "R11"],
         "ensures": ("        final(self).layers@ == old(self).layers@, final(self).tags == old(self).tags, final(self).slices@ == old(self).slices@,\n"
                     "        final(self).sprite_user_data == old(self).sprite_user_data,\n"
                     "        ctx_wf(old(self)) ==> ctx_wf(final(self)),\n"
                     "        r is Ok ==> final(self).user_data_context == Some(UserDataContext::CelId(CelId { frame: frame_id, layer: cel.data.layer_index }))\n"
                     "            && final(self).framedata.at(frame_id as int, cel.data.layer_index as int) == Some(cel),\n"
                     "        r is Err ==> final(self).user_data_context == old(self).user_data_context,")},
        {"kind": "fn", "file": "parse", "name": "set_tag_user_data", "impl_of": "ParseInfo", "ret": "r", "rules": ["R1", "R6", "R11"],
         "requires": "        old(self).tags is Some ==> old(self).tags->0@.len() <= 65535,",
         "ensures": ("        final(self).layers@ == old(self).layers@, final(self).slices@ == old(self).slices@, final(self).sprite_user_data == old(self).sprite_user_data,\n"
                     "        final(self).framedata == old(self).framedata,\n"
                     "        r is Ok <==> (old(self).tags is Some && (tag_index as int) < old(self).tags->0@.len()),\n"
                     "        r is Ok ==> final(self).tags is Some && final(self).tags->0@.len() == old(self).tags->0@.len()\n"
                     "            && final(self).tags->0@[tag_index as int].user_data == Some(user_data)\n"
                     "            && (forall|k: int| 0 <= k < old(self).tags->0@.len() && k != tag_index ==> #[trigger] final(self).tags->0@[k] == old(self).tags->0@[k])\n"
                     "            && final(self).user_data_context == Some(UserDataContext::TagIndex((tag_index + 1) as u16)),\n"
                     "        r is Err ==> (final(self).tags is Some) == (old(self).tags is Some) && (old(self).tags is Some ==> final(self).tags->0@ == old(self).tags->0@)\n"
                     "            && final(self).user_data_context == old(self).user_data_context,")},
        {"kind": "fn", "file": "parse", "name": "add_user_data", "impl_of": "ParseInfo", "ret": "r", "rules": ["R1", "R6", "R11"],
         "requires": ("        old(self).tags is Some ==> old(self).tags->0@.len() <= 65535,\n"
                      "        ctx_wf(old(self)),"),
         "ensures": ("        ctx_wf(final(self)),\n"
                     "        old(self).user_data_context is None ==> r is Err,\n"
                     "        final(self).layers@.len() == old(self).layers@.len(), final(self).slices@.len() == old(self).slices@.len(),\n"
                     "        r is Err ==> final(self).user_data_context == old(self).user_data_context,\n"
                     "        old(self).user_data_context is Some ==> attach_post(old(self), final(self), old(self).user_data_context->0, user_data, r is Ok),")},
    ],
}

# ------------------------------------------------------------------------------------------------
# The three access paths to a cel and the cel accessors (C19, C06 accessors, C01 optional lookups)
# ------------------------------------------------------------------------------------------------
UNITS["routes"] = {
    "prelude_sections": ["rgba_only"],
    "items": [
        {"kind": "struct", "file": "user_data", "name": "UserData", "keep": None, "rewrites": [("image::Rgba<u8>", "Rgba<u8>")]},
        {"kind": "struct", "file": "cel", "name": "CelId", "keep": None, "attrs": "#[derive(Clone, Copy)]\n"},
        {"kind": "struct", "file": "cel", "name": "CelCommon", "keep": None},
        {"kind": "struct", "file": "cel", "name": "RawCel", "keep": ["data", "user_data"], "header": "struct RawCel "},
        {"kind": "struct", "file": "cel", "name": "CelsData", "keep": ["data", "num_frames"], "header": "struct CelsData ", "rewrites": [("RawCel<P>", "RawCel")]},
        {"kind": "struct", "file": "layer", "name": "LayerData", "keep": ["opacity"]},
        {"kind": "struct", "file": "layer", "name": "LayersData", "keep": ["layers"]},
        {"kind": "struct", "file": "file", "name": "AsepriteFile", "keep": ["num_frames", "layers", "framedata"], "rewrites": [("CelsData<Pixels>", "CelsData")]},
        {"kind": "struct", "file": "cel", "name": "Cel", "keep": None},
        {"kind": "struct", "file": "file", "name": "Frame", "keep": None},
        {"kind": "struct", "file": "layer", "name": "Layer", "keep": None},
        {"kind": "verbatim", "text": """
impl CelsData {
    pub open spec fn at(&self, f: int, l: int) -> Option<RawCel> {
        if 0 <= f < self.data.len() && 0 <= l < self.data[f].len() { self.data[f][l] } else { None }
    }
}
/// what loading establishes: one row per frame, frame and layer counts fit the 16-bit cel coordinates
pub open spec fn file_wf(f: &AsepriteFile) -> bool {
    f.framedata.data.len() == f.num_frames as int && f.layers.layers.len() <= 65535
}
"""},
        {"kind": "fn", "file": "cel", "name": "cel", "key": "CelsData::cel", "impl_of": "CelsData", "impl_filter": r"impl<P>\s+CelsData<P>", "impl_header": "CelsData", "ret": "r",
         "sig_rewrites": [("RawCel<P>", "RawCel")],
         "requires": "        (cel_id.frame as int) < self.data.len(),",
         "ensures": ("        (r is Some) == (self.at(cel_id.frame as int, cel_id.layer as int) is Some),\n"
                     "        r is Some ==> *(r->0) == self.at(cel_id.frame as int, cel_id.layer as int)->0,")},
        {"kind": "fn", "file": "file", "name": "num_frames", "impl_of": "AsepriteFile", "ret": "r", "ensures": "        r == self.num_frames as u32,"},
        {"kind": "fn", "file": "file", "name": "num_layers", "impl_of": "AsepriteFile", "ret": "r",
         "requires": "        self.layers.layers.len() <= 65535,", "ensures": "        r as int == self.layers.layers.len(),"},
        {"kind": "fn", "file": "file", "name": "cel", "key": "AsepriteFile::cel", "impl_of": "AsepriteFile", "ret": "r",
         "requires": "        file_wf(self), frame < self.num_frames as u32, (layer as int) < self.layers.layers.len(),",
         "ensures": "        r.cel_id.frame as u32 == frame, r.cel_id.layer as u32 == layer, r.file == self,"},
        {"kind": "fn", "file": "file", "name": "frame", "key": "AsepriteFile::frame", "impl_of": "AsepriteFile", "ret": "r",
         "requires": "        index < self.num_frames as u32,",
         "ensures": "        r.index == index, r.file == self,"},
        {"kind": "fn", "file": "file", "name": "layer", "key": "AsepriteFile::layer", "impl_of": "AsepriteFile", "ret": "r",
         "requires": "        file_wf(self), (id as int) < self.layers.layers.len(),",
         "ensures": "        r.layer_id == id, r.file == self,"},
        {"kind": "fn", "file": "file", "name": "layer", "key": "Frame::layer", "impl_of": "Frame", "impl_header": "<'a> Frame<'a>", "ret": "r",
         "requires": "        file_wf(self.file), self.index < self.file.num_frames as u32, (layer_id as int) < self.file.layers.layers.len(),",
         "ensures": "        r.cel_id.frame as u32 == self.index, r.cel_id.layer as u32 == layer_id, r.file == self.file,"},
        {"kind": "fn", "file": "layer", "name": "frame", "key": "Layer::frame", "impl_of": "Layer", "impl_header": "<'a> Layer<'a>", "ret": "r",
         "requires": "        file_wf(self.file), frame_id < self.file.num_frames as u32, (self.layer_id as int) < self.file.layers.layers.len(),",
         "ensures": "        r.cel_id.frame as u32 == frame_id, r.cel_id.layer as u32 == self.layer_id, r.file == self.file,"},
        {"kind": "fn", "file": "cel", "name": "frame", "key": "Cel::frame", "impl_of": "Cel", "impl_header": "<'a> Cel<'a>", "ret": "r", "ensures": "        r == self.cel_id.frame as u32,"},
        {"kind": "fn", "file": "cel", "name": "layer", "key": "Cel::layer", "impl_of": "Cel", "impl_header": "<'a> Cel<'a>", "ret": "r", "ensures": "        r == self.cel_id.layer as u32,"},
        {"kind": "fn", "file": "cel", "name": "is_empty", "impl_of": "Cel", "impl_header": "<'a> Cel<'a>", "ret": "r",
         "requires": "        (self.cel_id.frame as int) < self.file.framedata.data.len(),",
         "ensures": "        r == (self.file.framedata.at(self.cel_id.frame as int, self.cel_id.layer as int) is None),"},
    ],
}
