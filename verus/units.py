"""Verus units: which real items are extracted from /repo's working tree and which contract clauses are
spliced onto them. Keys: file (src/<file>.rs), kind, name, impl_of, ret (name of the return value),
requires / ensures (clause text), loops {ordinal: clause text}, hints [(anchor, proof text)], rules."""
UNITS = {}

# ------------------------------------------------------------------------------------------------
# layer::compute_parents + LayersData::from_vec  (C09 unbounded, C04 no-panic)
# ------------------------------------------------------------------------------------------------
UNITS["parents"] = {
    "prelude_sections": ["errors", "forest"],
    "items": [
        {"kind": "struct", "file": "layer", "name": "LayerData", "keep": ["child_level"]},
        {"kind": "struct", "file": "layer", "name": "LayersData", "keep": ["layers", "parents"]},
        {"kind": "fn", "file": "layer", "name": "compute_parents", "ret": "result",
         "requires": "        first_is_root(layers@),\n        layers.len() <= u32::MAX,",
         "ensures": "        parents_ok(layers@, result@),",
         "loops": {
             1: ("        invariant\n"
                 "            first_is_root(layers@), layers.len() <= u32::MAX,\n"
                 "            result.len() == id,\n"
                 "            forall|i: int| 0 <= i < id ==> is_parent_of(layers@, i, #[trigger] result[i]),"),
             2: ("                    invariant\n"
                 "                        first_is_root(layers@), layers.len() <= u32::MAX,\n"
                 "                        0 < id < layers.len(), my_child_level == layers[id as int].child_level, my_child_level > 0,\n"
                 "                        0 <= parent_candidate < id,\n"
                 "                        forall|k: int| parent_candidate < k < id ==> #[trigger] layers[k].child_level >= my_child_level,\n"
                 "                    decreases parent_candidate,"),
         }},
        {"kind": "fn", "file": "layer", "name": "from_vec", "impl_of": "LayersData", "ret": "res",
         "requires": "        layers.len() <= u32::MAX,",
         "ensures": ("        res is Ok ==> parents_ok(res->Ok_0.layers@, res->Ok_0.parents@) && first_is_root(res->Ok_0.layers@)"
                     " && res->Ok_0.layers@ == layers@,"),
         },
    ],
}
