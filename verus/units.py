"""Verus units: which real items are extracted from /repo's working tree and which contract clauses are
spliced onto them. Keys: file (src/<file>.rs), kind, name, impl_of, ret (name of the return value),
requires / ensures (clause text), loops {ordinal: clause text}, hints [(anchor, proof text)], rules."""
UNITS = {}

# ------------------------------------------------------------------------------------------------
# layer::compute_parents + LayersData::from_vec  (C09 unbounded, C04 no-panic)
# ------------------------------------------------------------------------------------------------
UNITS["parents"] = {
    "prelude_sections": ["errors", "forest"],
    "items": [
        {"kind": "struct", "file": "layer", "name": "LayerData", "keep": ["child_level"]},
        {"kind": "struct", "file": "layer", "name": "LayersData", "keep": ["layers", "parents"]},
        {"kind": "fn", "file": "layer", "name": "compute_parents", "ret": "result",
         "requires": "        first_is_root(layers@),\n        layers.len() <= u32::MAX,",
         "ensures": "        parents_ok(layers@, result@),",
         "loops": {
             1: ("        invariant\n"
                 "            first_is_root(layers@), layers.len() <= u32::MAX,\n"
                 "            result.len() == id,\n"
                 "            forall|i: int| 0 <= i < id ==> is_parent_of(layers@, i, #[trigger] result[i]),"),
             2: ("                    invariant\n"
                 "                        first_is_root(layers@), layers.len() <= u32::MAX,\n"
                 "                        0 < id < layers.len(), my_child_level == layers[id as int].child_level, my_child_level > 0,\n"
                 "                        0 <= parent_candidate < id,\n"
                 "                        forall|k: int| parent_candidate < k < id ==> #[trigger] layers[k].child_level >= my_child_level,\n"
                 "                    decreases parent_candidate,"),
         }},
        {"kind": "fn", "file": "layer", "name": "from_vec", "impl_of": "LayersData", "ret": "res",
         "requires": "        layers.len() <= u32::MAX,",
         "ensures": ("        res is Ok ==> parents_ok(res->Ok_0.layers@, res->Ok_0.parents@) && first_is_root(res->Ok_0.layers@)"
                     " && res->Ok_0.layers@ == layers@,\n"
                     "        // cel ids store the layer as u16: a sprite with more than 65536 layers is refused (C19 / C05: no aliasing of layer ids)\n"
                     "        res is Ok ==> layers@.len() <= 65536,"),
         },
    ],
}

# ------------------------------------------------------------------------------------------------
# file::write_raw_cel_to_image  (C02 / C06: placement, clipping, row-major index, opacity product –
# FUNCTIONAL correctness for unbounded sizes and all i16 offsets; C05: safety under pixels.len()==w*h)
# ------------------------------------------------------------------------------------------------
RAW_INV_COMMON = (
    "            image.w() == old(image).w(), image.h() == old(image).h(), image.w() <= 65535, image.h() <= 65535,\n"
    "            img_width == image.w(), img_height == image.h(),\n"
    "            x0 == cel_data.x as i32, y0 == cel_data.y as i32,\n"
    "            x_end == x0 + (image_size.width as i32), y_end == y0 + (image_size.height as i32),\n"
    "            *width == image_size.width, *height == image_size.height,\n"
    "            pixels.len() == (image_size.width as int) * (image_size.height as int),\n"
    "            blend_fn.mode == *blend_mode,\n"
    "            opacity as int == spec_round8(outer_opacity as int, cel_data.opacity as int),\n")
UNITS["raster_raw"] = {
    "prelude_sections": ["image", "raster_spec"],
    "items": [
        {"kind": "struct", "file": "cel", "name": "CelCommon", "keep": None},
        {"kind": "struct", "file": "cel", "name": "ImageSize", "keep": None},
        {"kind": "fn", "file": "file", "name": "write_raw_cel_to_image",
         "rules": ["R1", "R2", "R3", "R6"],
         # R-pre: what validation establishes (decoded pixel count == declared size) and what the callers
         # establish (the canvas is created from the sprite's u16 width/height)
         "requires": ("        pixels.len() == (image_size.width as int) * (image_size.height as int),\n"
                      "        old(image).w() <= 65535, old(image).h() <= 65535,"),
         "ensures": ("        final(image).w() == old(image).w(), final(image).h() == old(image).h(),\n"
                     "        forall|cx: int, cy: int| 0 <= cx < old(image).w() && 0 <= cy < old(image).h() ==>\n"
                     "            #[trigger] final(image).at(cx, cy) == raw_cel_pixel(old(image), cel_data, image_size, pixels@, *blend_mode, outer_opacity, cx, cy),"),
         "loops": {
             1: ("        invariant\n" + RAW_INV_COMMON +
                 "            forall|cx: int, cy: int| 0 <= cx < image.w() && 0 <= cy < image.h() ==>\n"
                 "                #[trigger] image.at(cx, cy) == (if cy < y { raw_cel_pixel(old(image), cel_data, image_size, pixels@, *blend_mode, outer_opacity, cx, cy) } else { old(image).at(cx, cy) }),"),
             2: ("            invariant\n" + RAW_INV_COMMON.replace("            ", "                ") +
                 "                y0 <= y < y_end, 0 <= y < img_height,\n"
                 "                forall|cx: int, cy: int| 0 <= cx < image.w() && 0 <= cy < image.h() ==>\n"
                 "                    #[trigger] image.at(cx, cy) == (if cy < y || (cy == y && cx < x) { raw_cel_pixel(old(image), cel_data, image_size, pixels@, *blend_mode, outer_opacity, cx, cy) } else { old(image).at(cx, cy) }),"),
         },
         "hints": [
             ("let idx =",
              "            assert(0 <= (y - y0) < *height && 0 <= (x - x0) < *width);\n"
              "            assert(((y - y0) as int) * (*width as int) + ((x - x0) as int) < (*width as int) * (*height as int)) by (nonlinear_arith)\n"
              "                requires 0 <= (y - y0) < *height, 0 <= (x - x0) < *width;\n"
              "            assert(((y - y0) as int) * (*width as int) <= 65535 * 65535) by (nonlinear_arith)\n"
              "                requires 0 <= (y - y0) <= 65535, 0 <= (*width as int) <= 65535;", "before"),
         ]},
    ],
}

# ------------------------------------------------------------------------------------------------
# tile lookups and the tilemap rasteriser  (C05 safety under R-pre, C08 lookup contract, C16 no wrap)
# ------------------------------------------------------------------------------------------------
TM_COMMON = (
    "            image.w() == old(image).w(), image.h() == old(image).h(), image.w() <= 65535, image.h() <= 65535,\n"
    "            tilemap_wf(tilemap_data), tiles_in_tileset(tilemap_data, tileset, pixels.len() as int),\n"
    "            tilemap_width == tilemap_data.width as i32, tilemap_height == tilemap_data.height as i32,\n"
    "            tile_size == tileset.tile_size, tile_width == tile_size.width as i32, tile_height == tile_size.height as i32,\n"
    "            cel_x == cel_data.x as i32, cel_y == cel_data.y as i32,\n"
    "            opacity as int == spec_round8(outer_opacity as int, cel_data.opacity as int), blend_fn.mode == *blend_mode,\n"
    "            forall|cx: int, cy: int| #[trigger] tm_done(cel_data, tilemap_data, tileset, cx, cy, tilemap_data.height as int, 0, 0, 0) == tm_covered(cel_data, tilemap_data, tileset, cx, cy),\n")
def TM_PIX(ty, tx, py, px, ind):
    return (ind + "forall|cx: int, cy: int| 0 <= cx < image.w() && 0 <= cy < image.h() ==>\n" +
            ind + "    #[trigger] image.at(cx, cy) == (if tm_done(cel_data, tilemap_data, tileset, cx, cy, %s, %s, %s, %s) { tm_cel_pixel(old(image), cel_data, tilemap_data, tileset, pixels@, *blend_mode, outer_opacity, cx, cy) } else { old(image).at(cx, cy) }),\n" % (ty, tx, py, px))
TM_TILE = ("            *tile == tilemap_data.tiles.0[(tile_y as int) * (tilemap_data.width as int) + (tile_x as int)],\n"
           "            (tile.id.0 as int + 1) * ((tile_size.width as int) * (tile_size.height as int)) <= pixels.len(),\n"
           "            tile_pixels@ == pixels@.subrange((tile.id.0 as int) * ((tile_size.width as int) * (tile_size.height as int)), (tile.id.0 as int + 1) * ((tile_size.width as int) * (tile_size.height as int))),\n")
UNITS["tilemap"] = {
    "prelude_sections": ["arch", "image", "tilemap_spec", "tilemap_raster_spec"],
    "items": [
        {"kind": "struct", "file": "cel", "name": "CelCommon", "keep": None},
        {"kind": "struct", "file": "tile", "name": "TileId", "keep": None, "attrs": "#[derive(Clone, Copy)]\n"},
        {"kind": "struct", "file": "tile", "name": "Tile", "keep": None},
        {"kind": "struct", "file": "tile", "name": "Tiles", "keep": None},
        {"kind": "index_impl_check", "file": "tile", "type": "Tiles"},
        {"kind": "struct", "file": "tilemap", "name": "TilemapData", "keep": ["width", "height", "tiles"],
         "rewrites": [("tile::Tiles", "Tiles")]},
        {"kind": "struct", "file": "tileset", "name": "TileSize", "keep": None, "attrs": "#[derive(Clone, Copy)]\n"},
        {"kind": "struct", "file": "tileset", "name": "Tileset", "keep": ["tile_size"], "header": "struct Tileset "},
        {"kind": "fn", "file": "tileset", "name": "width", "impl_of": "TileSize", "impl_filter": r"impl\s+TileSize", "ret": "r", "ensures": "        r == self.width,"},
        {"kind": "fn", "file": "tileset", "name": "height", "impl_of": "TileSize", "impl_filter": r"impl\s+TileSize", "ret": "r", "ensures": "        r == self.height,"},
        {"kind": "fn", "file": "tileset", "name": "pixels_per_tile", "impl_of": "TileSize", "impl_filter": r"impl\s+TileSize", "ret": "r",
         "ensures": "        r == (self.width as int) * (self.height as int),",
         "hints": [("self.width as u32 *",
                    "        assert((self.width as int) * (self.height as int) <= 65535 * 65535) by (nonlinear_arith)\n"
                    "            requires 0 <= (self.width as int) <= 65535, 0 <= (self.height as int) <= 65535;", "before")]},
        {"kind": "fn", "file": "tileset", "name": "tile_size", "impl_of": "Tileset", "impl_filter": r"impl<P>\s+Tileset<P>", "impl_header": "Tileset",
         "ret": "r", "ensures": "        r == self.tile_size,"},
        {"kind": "fn", "file": "tilemap", "name": "width", "impl_of": "TilemapData", "ret": "r", "ensures": "        r == self.width,"},
        {"kind": "fn", "file": "tilemap", "name": "height", "impl_of": "TilemapData", "ret": "r", "ensures": "        r == self.height,"},
        {"kind": "fn", "file": "tilemap", "name": "tile", "impl_of": "TilemapData", "ret": "r",
         "requires": "        tilemap_wf(self),",
         "ensures": ("        (r is Some) == (x < self.width && y < self.height),\n"
                     "        r is Some ==> *(r->0) == self.tiles.0[(y as int) * (self.width as int) + (x as int)],"),
         "body_rewrites": [("&self.tiles[index]", "&self.tiles.0[index]")],
         "hints": [("let index =",
                    "        assert((y as int) * (self.width as int) + (x as int) < (self.width as int) * (self.height as int)) by (nonlinear_arith)\n"
                    "            requires 0 <= (x as int) < (self.width as int), 0 <= (y as int) < (self.height as int);\n"
                    "        assert((y as int) * (self.width as int) <= 65535 * 65535) by (nonlinear_arith)\n"
                    "            requires 0 <= (y as int) <= 65535, 0 <= (self.width as int) <= 65535;", "before")]},
        {"kind": "fn", "file": "file", "name": "tile_slice", "ret": "r", "rules": ["R1", "R6", "R10"],
         "requires": "        (tile_id.0 as int + 1) * ((tile_size.width as int) * (tile_size.height as int)) <= pixels.len(),",
         "ensures": ("        r.len() == (tile_size.width as int) * (tile_size.height as int),\n"
                     "        r@ == pixels@.subrange((tile_id.0 as int) * ((tile_size.width as int) * (tile_size.height as int)),\n"
                     "                              (tile_id.0 as int + 1) * ((tile_size.width as int) * (tile_size.height as int))),"),
         "hints": [("let start =",
                    "    let ghost ppt = (tile_size.width as int) * (tile_size.height as int);\n"
                    "    assert(ppt * (tile_id.0 as int) + ppt == (tile_id.0 as int + 1) * ppt) by (nonlinear_arith);\n"
                    "    assert(ppt * (tile_id.0 as int) == (tile_id.0 as int) * ppt) by (nonlinear_arith);\n"
                    "    assert(0 <= ppt * (tile_id.0 as int)) by (nonlinear_arith) requires 0 <= ppt, 0 <= (tile_id.0 as int);", "before")]},
        {"kind": "fn", "file": "file", "name": "write_tilemap_cel_to_image",
         "rules": ["R1", "R3", "R6", "R7"],
         "requires": ("        tilemap_wf(tilemap_data), tiles_in_tileset(tilemap_data, tileset, pixels.len() as int),\n"
                      "        old(image).w() <= 65535, old(image).h() <= 65535,"),
         "ensures": ("        final(image).w() == old(image).w(), final(image).h() == old(image).h(),\n"
                     "        forall|cx: int, cy: int| 0 <= cx < old(image).w() && 0 <= cy < old(image).h() ==>\n"
                     "            #[trigger] final(image).at(cx, cy) == tm_cel_pixel(old(image), cel_data, tilemap_data, tileset, pixels@, *blend_mode, outer_opacity, cx, cy),"),
         "loops": {
             1: "        invariant\n" + TM_COMMON + TM_PIX("tile_y as int", "0", "0", "0", "            "),
             2: "            invariant\n" + TM_COMMON + "            0 <= tile_y < tilemap_height,\n" + TM_PIX("tile_y as int", "tile_x as int", "0", "0", "            "),
             3: ("                invariant\n" + TM_COMMON + "            0 <= tile_y < tilemap_height, 0 <= tile_x < tilemap_width,\n"
                 "            tile_pixels.len() == (tile_size.width as int) * (tile_size.height as int),\n" + TM_TILE
                 + TM_PIX("tile_y as int", "tile_x as int", "pixel_y as int", "0", "            ")),
             4: ("                    invariant\n" + TM_COMMON + "            0 <= tile_y < tilemap_height, 0 <= tile_x < tilemap_width, 0 <= pixel_y < tile_height,\n"
                 "            tile_pixels.len() == (tile_size.width as int) * (tile_size.height as int),\n" + TM_TILE
                 + TM_PIX("tile_y as int", "tile_x as int", "pixel_y as int", "pixel_x as int", "            ")),
         },
         "loop_ends": {
             1: "        proof { lemma_tm_carry_all(cel_data, tilemap_data, tileset, tile_y as int, 0, 0); }",
             2: "            proof { lemma_tm_carry_all(cel_data, tilemap_data, tileset, tile_y as int, tile_x as int, 0); }",
             3: "                proof { lemma_tm_carry_all(cel_data, tilemap_data, tileset, tile_y as int, tile_x as int, pixel_y as int); }",
         },
         "hints": [
             ("for tile_y in",
              "    proof { lemma_tm_carry_all(cel_data, tilemap_data, tileset, 0, 0, 0); }", "before"),
             ("let tile_pixels =",
              "            assert(tilemap_data.tiles.0[(tile_y as int) * (tilemap_data.width as int) + (tile_x as int)] == *tile);\n"
              "            assert(0 <= (tile_y as int) * (tilemap_data.width as int) + (tile_x as int) < tilemap_data.tiles.0.len()) by (nonlinear_arith)\n"
              "                requires 0 <= (tile_x as int) < (tilemap_data.width as int), 0 <= (tile_y as int) < (tilemap_data.height as int),\n"
              "                    tilemap_data.tiles.0.len() == (tilemap_data.width as int) * (tilemap_data.height as int);", "before"),
             ("let pixel_idx =",
              "                    assert((pixel_y as int) * (tile_width as int) + (pixel_x as int) < (tile_size.width as int) * (tile_size.height as int)) by (nonlinear_arith)\n"
              "                        requires 0 <= (pixel_x as int) < (tile_width as int), 0 <= (pixel_y as int) < (tile_height as int),\n"
              "                            tile_width as int == tile_size.width as int, tile_height as int == tile_size.height as int;\n"
              "                    assert((pixel_y as int) * (tile_width as int) <= 65535 * 65535) by (nonlinear_arith)\n"
              "                        requires 0 <= (pixel_y as int) <= 65535, 0 <= (tile_width as int) <= 65535;\n"
              "                    assert((tile_x as int) * (tile_width as int) <= 65535 * 65535 && (tile_y as int) * (tile_height as int) <= 65535 * 65535) by (nonlinear_arith)\n"
              "                        requires 0 <= (tile_x as int) <= 65535, 0 <= (tile_width as int) <= 65535, 0 <= (tile_y as int) <= 65535, 0 <= (tile_height as int) <= 65535;", "before"),
             ("let x_in_bounds =",
              "                    proof { lemma_tm_step_all(cel_data, tilemap_data, tileset, tile_y as int, tile_x as int, pixel_y as int, pixel_x as int); }", "before"),
             ("image.put_pixel(image_x, image_y, new);",
              "                        proof {\n"
              "                            let gx = image_x as int; let gy = image_y as int;\n"
              "                            let tw = tile_size.width as int; let th = tile_size.height as int;\n"
              "                            assert(gx == (tile_x as int) * tw + (pixel_x as int) + (cel_data.x as int));\n"
              "                            assert(gy == (tile_y as int) * th + (pixel_y as int) + (cel_data.y as int));\n"
              "                            assert(tm_src_index(cel_data, tilemap_data, tileset, gx, gy) == (tile.id.0 as int) * (tw * th) + (pixel_y as int) * tw + (pixel_x as int));\n"
              "                            assert(pixel_idx as int == (pixel_y as int) * tw + (pixel_x as int));\n"
              "                            assert(image_pixel == tile_pixels@[pixel_idx as int]);\n"
              "                            assert(0 <= (tile.id.0 as int) * (tw * th)) by (nonlinear_arith) requires 0 <= (tile.id.0 as int), 0 <= tw * th;\n"
              "                            assert((tile.id.0 as int + 1) * (tw * th) == (tile.id.0 as int) * (tw * th) + tw * th) by (nonlinear_arith);\n"
              "                            assert(tile_pixels@[pixel_idx as int] == pixels@[(tile.id.0 as int) * (tw * th) + pixel_idx as int]);\n"
              "                            assert(image_pixel == pixels@[tm_src_index(cel_data, tilemap_data, tileset, gx, gy)]);\n"
              "                            assert(src == old(image).at(gx, gy));\n"
              "                            assert(new == tm_cel_pixel(old(image), cel_data, tilemap_data, tileset, pixels@, *blend_mode, outer_opacity, gx, gy));\n"
              "                        }", "before"),
         ]},
    ],
}

# ------------------------------------------------------------------------------------------------
# Layer::is_visible (C09): == own flag && all ancestors' flags; terminates (parent id < child id)
# ------------------------------------------------------------------------------------------------
UNITS["visible"] = {
    "prelude_sections": ["layer_flags", "forest"],
    "items": [
        {"kind": "struct", "file": "layer", "name": "LayerData", "keep": ["flags", "child_level"]},
        {"kind": "struct", "file": "layer", "name": "LayersData", "keep": ["layers", "parents"]},
        {"kind": "index_impl_check", "file": "layer", "type": "LayersData", "body": "{&self.layers[index as usize]}"},
        {"kind": "struct", "file": "file", "name": "AsepriteFile", "keep": ["layers"]},
        {"kind": "struct", "file": "layer", "name": "Layer", "keep": ["file", "layer_id"]},
        {"kind": "fn", "file": "layer", "name": "is_background", "impl_of": "LayerData", "ret": "r",
         "ensures": "        r == ((self.flags.bits & 8u32) == 8u32),"},
        {"kind": "fn", "file": "layer", "name": "is_visible", "impl_of": "Layer", "impl_header": "<'a> Layer<'a>", "ret": "r",
         "requires": ("        parents_ok(self.file.layers.layers@, self.file.layers.parents@),\n"
                      "        (self.layer_id as int) < self.file.layers.layers.len(),"),
         "ensures": "        r == spec_visible(self.file.layers.layers@, self.file.layers.parents@, self.layer_id as int),",
         "rules": ["R1", "R6", "R8"],
         "loops": {1: ("            invariant\n"
                       "                parents_ok(self.file.layers.layers@, self.file.layers.parents@),\n"
                       "                (layer_id as int) < self.file.layers.layers.len(),\n"
                       "                spec_visible(self.file.layers.layers@, self.file.layers.parents@, self.layer_id as int)\n"
                       "                    == spec_visible(self.file.layers.layers@, self.file.layers.parents@, layer_id as int),\n"
                       "            decreases layer_id,")},
         },
    ],
}

# ------------------------------------------------------------------------------------------------
# Tilemap::tile / tile_offsets (C08 lookup incl. the empty-tile fallback, C05: no overflow for any u32 coordinate)
# ------------------------------------------------------------------------------------------------
UNITS["tilemap_lookup"] = {
    "prelude_sections": ["arch", "tilemap_spec"],
    "items": [
        {"kind": "struct", "file": "tile", "name": "TileId", "keep": None, "attrs": "#[derive(Clone, Copy, PartialEq, Eq)]\n"},
        {"kind": "struct", "file": "tile", "name": "Tile", "keep": None},
        {"kind": "struct", "file": "tile", "name": "Tiles", "keep": None},
        {"kind": "index_impl_check", "file": "tile", "type": "Tiles"},
        {"kind": "struct", "file": "tilemap", "name": "TilemapData", "keep": ["width", "height", "tiles"], "rewrites": [("tile::Tiles", "Tiles")]},
        {"kind": "struct", "file": "tileset", "name": "TileSize", "keep": None, "attrs": "#[derive(Clone, Copy)]\n"},
        {"kind": "struct", "file": "tileset", "name": "Tileset", "keep": ["tile_size"], "header": "struct Tileset "},
        {"kind": "struct", "file": "tilemap", "name": "Tilemap", "keep": ["tileset", "logical_size"]},
        {"kind": "fn", "file": "tileset", "name": "width", "impl_of": "TileSize", "impl_filter": r"impl\s+TileSize", "ret": "r", "ensures": "        r == self.width,"},
        {"kind": "fn", "file": "tileset", "name": "height", "impl_of": "TileSize", "impl_filter": r"impl\s+TileSize", "ret": "r", "ensures": "        r == self.height,"},
        {"kind": "fn", "file": "tileset", "name": "tile_size", "impl_of": "Tileset", "impl_filter": r"impl<P>\s+Tileset<P>", "impl_header": "Tileset",
         "ret": "r", "ensures": "        r == self.tile_size,"},
        {"kind": "fn", "file": "tilemap", "name": "width", "impl_of": "TilemapData", "ret": "r", "ensures": "        r == self.width,"},
        {"kind": "fn", "file": "tilemap", "name": "height", "impl_of": "TilemapData", "ret": "r", "ensures": "        r == self.height,"},
        {"kind": "verbatim", "text": """
/// the empty tile (src/tile.rs: `static EMPTY_TILE` with id 0; TRUSTED transcription of the static's value)
pub exec static EMPTY_TILE: Tile
    ensures EMPTY_TILE.id == TileId(0)
{
    Tile { id: TileId(0), flip_x: false, flip_y: false, rotate_90cw: false }
}
impl<'a> Tilemap<'a> {
    /// the tilemap data of the cel this view was created for (reached through the cel table; abstract here)
    pub uninterp spec fn spec_data(&self) -> &TilemapData;
    /// the cel's top-left corner: i16 fields widened to i32 (Cel::top_left)
    pub uninterp spec fn spec_px(&self) -> (i32, i32);
    #[verifier::external_body]
    fn tilemap(&self) -> (r: &TilemapData)
        ensures r == self.spec_data(),
    { unimplemented!() }
    #[verifier::external_body]
    pub fn pixel_offsets(&self) -> (r: (i32, i32))
        ensures r == self.spec_px(), -32768 <= r.0 <= 32767, -32768 <= r.1 <= 32767,
    { unimplemented!() }
}
/// C08: tile offsets = cel offset / tile size (Rust division: truncation toward zero)
pub open spec fn trunc_div(a: int, b: int) -> int {
    if a >= 0 { a / b } else { -((-a) / b) }
}
pub open spec fn spec_tile_offsets(tm: &Tilemap) -> (int, int) {
    (trunc_div(tm.spec_px().0 as int, tm.tileset.tile_size.width as int), trunc_div(tm.spec_px().1 as int, tm.tileset.tile_size.height as int))
}
"""},
        {"kind": "fn", "file": "tilemap", "name": "tileset", "impl_of": "Tilemap", "impl_header": "<'a> Tilemap<'a>", "ret": "r", "ensures": "        r == self.tileset,"},
        {"kind": "fn", "file": "tilemap", "name": "tile_offsets", "impl_of": "Tilemap", "impl_header": "<'a> Tilemap<'a>", "ret": "r",
         "requires": "        self.tileset.tile_size.width >= 1, self.tileset.tile_size.height >= 1,",
         "ensures": "        r.0 as int == spec_tile_offsets(self).0, r.1 as int == spec_tile_offsets(self).1, -32768 <= r.0 <= 32767, -32768 <= r.1 <= 32767,"},
        {"kind": "fn", "file": "tilemap", "name": "tile", "impl_of": "Tilemap", "impl_header": "<'a> Tilemap<'a>", "ret": "r",
         "requires": ("        self.tileset.tile_size.width >= 1, self.tileset.tile_size.height >= 1,\n"
                      "        tilemap_wf(self.spec_data()),"),
         "ensures": ("        ({ let sx = x as int - spec_tile_offsets(self).0; let sy = y as int - spec_tile_offsets(self).1;\n"
                     "           let d = self.spec_data();\n"
                     "           if 0 <= sx < d.width as int && 0 <= sy < d.height as int { *r == d.tiles.0[sy * (d.width as int) + sx] } else { r.id == TileId(0) } }),"),
         "rules": ["R1", "R6", "R7"],
         "body_rewrites": [(r"re:&([\w.()]+)\.tiles\[index\]", r"&\1.tiles.0[index]")],   # R8 on whatever expression denotes the TilemapData
         "hints": [("let index =",
                    "        assert((y as int) * (w as int) + (x as int) < (w as int) * (h as int)) by (nonlinear_arith)\n"
                    "            requires 0 <= (x as int) < (w as int), 0 <= (y as int) < (h as int);\n"
                    "        assert((y as int) * (w as int) <= 65535 * 65535) by (nonlinear_arith)\n"
                    "            requires 0 <= (y as int) <= 65535, 0 <= (w as int) <= 65535;", "before")]},
    ],
}

# ------------------------------------------------------------------------------------------------
# The user-data attachment state machine of ParseInfo (C10) – every method under contract
# ------------------------------------------------------------------------------------------------
UD_FRAME = ("        final(self).layers@.len() == old(self).layers@.len(),\n")
UNITS["userdata"] = {
    "prelude_sections": ["errors", "rgba_only", "reader", "vec_extra", "btreemap_shim"],
    "items": [
        {"kind": "struct", "file": "user_data", "name": "UserData", "keep": None, "rewrites": [("image::Rgba<u8>", "Rgba<u8>")]},
        {"kind": "struct", "file": "layer", "name": "LayerData", "keep": ["user_data"]},
        {"kind": "struct", "file": "tags", "name": "Tag", "keep": ["user_data"]},
        {"kind": "fn", "file": "tags", "name": "set_user_data", "impl_of": "Tag",
         "ensures": "        final(self).user_data == Some(user_data),"},
        {"kind": "struct", "file": "slice", "name": "Slice", "keep": ["user_data"]},
        {"kind": "struct", "file": "cel", "name": "CelId", "keep": None, "attrs": "#[derive(Clone, Copy)]\n"},
        {"kind": "struct", "file": "cel", "name": "CelCommon", "keep": None},
        {"kind": "struct", "file": "cel", "name": "RawCel", "keep": ["data", "user_data"], "header": "struct RawCel "},
        {"kind": "struct", "file": "cel", "name": "CelsData", "keep": ["data", "num_frames"], "header": "struct CelsData ",
         "rewrites": [("RawCel<P>", "RawCel")]},
        {"kind": "verbatim", "text": """
impl CelsData {
    /// the cel stored at (frame, layer), None if there is none (or the indices are outside the table)
    pub open spec fn at(&self, f: int, l: int) -> Option<RawCel> {
        if 0 <= f < self.data.len() && 0 <= l <= 65535 && self.data[f]@.contains_key(l as u16) { Some(self.data[f]@[l as u16]) } else { None }
    }
}
"""},
        {"kind": "fn", "file": "cel", "name": "new", "key": "CelsData::new", "impl_of": "CelsData", "impl_filter": r"impl<P>\s+CelsData<P>", "impl_header": "CelsData", "ret": "r",
         "closures": [{"after": ".resize_with(num_frames as usize,", "params": "", "ret": "row: BTreeMap<u16, RawCel>", "ensures": "row@ == Map::<u16, RawCel>::empty()"}],
         "ensures": ("        r.num_frames == num_frames, r.data@.len() == num_frames as int,\n"
                     "        // one empty row per frame\n"
                     "        forall|f: int| 0 <= f < num_frames ==> (#[trigger] r.data@[f])@ == Map::<u16, RawCel>::empty(),\n"
                     "        forall|f: int, l: int| r.at(f, l) is None,")},
        {"kind": "fn", "file": "cel", "name": "check_valid_frame_id", "impl_of": "CelsData", "impl_filter": r"impl<P>\s+CelsData<P>", "impl_header": "CelsData", "ret": "r",
         "rules": ["R1", "R6", "R11"],
         "ensures": "        r is Ok <==> (frame_id as int) < self.data.len(),"},
        {"kind": "fn", "file": "cel", "name": "add_cel", "key": "CelsData::add_cel", "impl_of": "CelsData", "impl_filter": r"impl<P>\s+CelsData<P>", "impl_header": "CelsData", "ret": "r",
         "rules": ["R1", "R6", "R11"], "sig_rewrites": [("RawCel<P>", "RawCel")],
         # closure contract spliced onto the real closure (annotation only)
         "ensures": ("        final(self).data.len() == old(self).data.len(), final(self).num_frames == old(self).num_frames,\n"
                     "        r is Ok <==> ((frame_id as int) < old(self).data.len() && old(self).at(frame_id as int, cel.data.layer_index as int) is None),\n"
                     "        r is Ok ==> final(self).at(frame_id as int, cel.data.layer_index as int) == Some(cel)\n"
                     "            && forall|f: int, l: int| !(f == frame_id && l == cel.data.layer_index) ==> #[trigger] final(self).at(f, l) == old(self).at(f, l),\n"
                     "        r is Err ==> forall|f: int, l: int| #[trigger] final(self).at(f, l) == old(self).at(f, l),")},
        {"kind": "fn", "file": "cel", "name": "cel_mut", "impl_of": "CelsData", "impl_filter": r"impl<P>\s+CelsData<P>", "impl_header": "CelsData", "ret": "r",
         "sig_rewrites": [("RawCel<P>", "RawCel")],
         "requires": "        (cel_id.frame as int) < old(self).data.len(),",
         "ensures": ("        final(self).data.len() == old(self).data.len(),\n"
                     "        match r {\n"
                     "            Some(c) => old(self).at(cel_id.frame as int, cel_id.layer as int) == Some(*c)\n"
                     "                && final(self).at(cel_id.frame as int, cel_id.layer as int) == Some(*final(c))\n"
                     "                && forall|f: int, l: int| !(f == cel_id.frame && l == cel_id.layer) ==> #[trigger] final(self).at(f, l) == old(self).at(f, l),\n"
                     "            None => old(self).at(cel_id.frame as int, cel_id.layer as int) is None && forall|f: int, l: int| #[trigger] final(self).at(f, l) == old(self).at(f, l),\n"
                     "        },")},
        {"kind": "enum", "file": "parse", "name": "UserDataContext", "attrs": "#[derive(Clone, Copy)]\n"},
        {"kind": "verbatim", "text": """
/// opaque payloads of the chunks parse_frame only passes through
#[verifier::external_body] pub struct ColorPalette { _p: core::marker::PhantomData<u8> }
#[verifier::external_body] pub struct ColorProfile { _p: core::marker::PhantomData<u8> }
#[verifier::external_body] pub struct ExternalFile { _p: core::marker::PhantomData<u8> }
#[verifier::external_body] pub struct ExternalFilesById { _p: core::marker::PhantomData<u8> }
#[verifier::external_body] pub struct TilesetRaw { _p: core::marker::PhantomData<u8> }
#[verifier::external_body] pub struct TilesetsById { _p: core::marker::PhantomData<u8> }
impl TilesetsById {
    #[verifier::external_body] pub fn add(&mut self, tileset: TilesetRaw) { unimplemented!() }
    #[verifier::external_body] pub fn new() -> TilesetsById { unimplemented!() }
}
impl ExternalFilesById {
    #[verifier::external_body] pub fn new() -> ExternalFilesById { unimplemented!() }
}
"""},
        {"kind": "enum", "file": "file", "name": "PixelFormat", "attrs": "#[derive(Clone, Copy)]\n"},
        {"kind": "struct", "file": "parse", "name": "ParseInfo", "keep": ["palette", "color_profile", "layers", "framedata", "frame_times", "tags", "external_files", "tilesets", "sprite_user_data", "user_data_context", "slices"],
         "rewrites": [("cel::CelsData<RawPixels>", "CelsData"), ("Arc<palette::ColorPalette>", "Arc<ColorPalette>"), ("color_profile::ColorProfile", "ColorProfile"), ("TilesetsById<RawPixels>", "TilesetsById")]},
        {"kind": "verbatim", "text": """
/// ParseInfo invariant: a cel context always names an existing frame (established by add_cel)
pub open spec fn ctx_wf(p: &ParseInfo) -> bool {
    match p.user_data_context {
        Some(UserDataContext::CelId(c)) => (c.frame as int) < p.framedata.data.len(),
        _ => true,
    }
}
pub open spec fn tags_same(a: Option<Vec<Tag>>, b: Option<Vec<Tag>>) -> bool {
    (a is Some) == (b is Some) && (a is Some ==> a->0@ == b->0@)
}
pub open spec fn cels_same(a: &CelsData, b: &CelsData) -> bool {
    forall|f: int, l: int| #[trigger] a.at(f, l) == b.at(f, l)
}
/// C10, the attachment rule: a user-data record goes to the entity named by the current context - and to
/// nothing else (everything that is not that entity is unchanged); a tag context advances to the next tag.
pub open spec fn attach_post(o: &ParseInfo, n: &ParseInfo, ctx: UserDataContext, ud: UserData, ok: bool) -> bool {
    match ctx {
        UserDataContext::LayerIndex(i) => {
            &&& ok == ((i as int) < o.layers@.len())
            &&& ok ==> n.layers@[i as int].user_data == Some(ud)
            &&& forall|k: int| 0 <= k < o.layers@.len() && !(ok && k == i) ==> #[trigger] n.layers@[k] == o.layers@[k]
            &&& n.slices@ == o.slices@ && tags_same(n.tags, o.tags) && n.sprite_user_data == o.sprite_user_data && cels_same(&n.framedata, &o.framedata)
            &&& ok ==> n.user_data_context == o.user_data_context
        },
        UserDataContext::SliceIndex(i) => {
            &&& ok == ((i as int) < o.slices@.len())
            &&& ok ==> n.slices@[i as int].user_data == Some(ud)
            &&& forall|k: int| 0 <= k < o.slices@.len() && !(ok && k == i) ==> #[trigger] n.slices@[k] == o.slices@[k]
            &&& n.layers@ == o.layers@ && tags_same(n.tags, o.tags) && n.sprite_user_data == o.sprite_user_data && cels_same(&n.framedata, &o.framedata)
            &&& ok ==> n.user_data_context == o.user_data_context
        },
        UserDataContext::OldPalette => {
            &&& ok
            &&& n.sprite_user_data == Some(ud)
            &&& n.layers@ == o.layers@ && n.slices@ == o.slices@ && tags_same(n.tags, o.tags) && cels_same(&n.framedata, &o.framedata)
            &&& n.user_data_context == o.user_data_context
        },
        UserDataContext::TagIndex(t) => {
            &&& ok == (o.tags is Some && (t as int) < o.tags->0@.len())
            &&& ok ==> n.tags is Some && n.tags->0@.len() == o.tags->0@.len() && n.tags->0@[t as int].user_data == Some(ud)
                && (forall|k: int| 0 <= k < o.tags->0@.len() && k != t ==> #[trigger] n.tags->0@[k] == o.tags->0@[k])
                && n.user_data_context == Some(UserDataContext::TagIndex((t + 1) as u16))
            &&& !ok ==> tags_same(n.tags, o.tags)
            &&& n.layers@ == o.layers@ && n.slices@ == o.slices@ && n.sprite_user_data == o.sprite_user_data && cels_same(&n.framedata, &o.framedata)
        },
        UserDataContext::CelId(c) => {
            &&& ok == (o.framedata.at(c.frame as int, c.layer as int) is Some)
            &&& ok ==> n.framedata.at(c.frame as int, c.layer as int) is Some
                && n.framedata.at(c.frame as int, c.layer as int)->0.user_data == Some(ud)
                && n.framedata.at(c.frame as int, c.layer as int)->0.data == o.framedata.at(c.frame as int, c.layer as int)->0.data
            &&& forall|f: int, l: int| !(ok && f == c.frame && l == c.layer) ==> #[trigger] n.framedata.at(f, l) == o.framedata.at(f, l)
            &&& n.layers@ == o.layers@ && n.slices@ == o.slices@ && tags_same(n.tags, o.tags) && n.sprite_user_data == o.sprite_user_data
            &&& ok ==> n.user_data_context == o.user_data_context
        },
    }
}
"""},
        {"kind": "fn", "file": "parse", "name": "new", "key": "ParseInfo::new", "impl_of": "ParseInfo", "ret": "r",
         "body_rewrites": [("cel::CelsData::new(", "CelsData::new(")],
         "ensures": ("        // the parser starts with one slot per frame (default duration, one empty cel row) and nothing else\n"
                     "        r.frame_times@.len() == num_frames as int, forall|f: int| 0 <= f < num_frames ==> #[trigger] r.frame_times@[f] == default_frame_time,\n"
                     "        r.framedata.num_frames == num_frames as u32, r.framedata.data@.len() == num_frames as int, forall|f: int, l: int| r.framedata.at(f, l) is None,\n"
                     "        r.layers@.len() == 0, r.slices@.len() == 0, r.tags is None, r.palette is None, r.color_profile is None, r.sprite_user_data is None, r.user_data_context is None,")},
        {"kind": "fn", "file": "parse", "name": "add_layer", "impl_of": "ParseInfo",
         "requires": "        old(self).layers@.len() < u32::MAX,",
         "ensures": ("        final(self).frame_times@ == old(self).frame_times@, final(self).framedata.data.len() == old(self).framedata.data.len(), final(self).palette == old(self).palette,\n"
                     "        final(self).layers@ == old(self).layers@.push(layer_data),\n"
                     "        final(self).user_data_context == Some(UserDataContext::LayerIndex(old(self).layers@.len() as u32)),\n"
                     "        final(self).tags == old(self).tags, final(self).slices@ == old(self).slices@, final(self).sprite_user_data == old(self).sprite_user_data,\n"
                     "        final(self).framedata == old(self).framedata,")},
        {"kind": "fn", "file": "parse", "name": "add_slice", "impl_of": "ParseInfo",
         "requires": "        old(self).slices@.len() < u32::MAX,",
         "ensures": ("        final(self).frame_times@ == old(self).frame_times@, final(self).framedata.data.len() == old(self).framedata.data.len(), final(self).palette == old(self).palette,\n"
                     "        final(self).slices@ == old(self).slices@.push(slice),\n"
                     "        final(self).user_data_context == Some(UserDataContext::SliceIndex(old(self).slices@.len() as u32)),\n"
                     "        final(self).tags == old(self).tags, final(self).layers@ == old(self).layers@, final(self).sprite_user_data == old(self).sprite_user_data,\n"
                     "        final(self).framedata == old(self).framedata,")},
        {"kind": "fn", "file": "parse", "name": "add_tags", "impl_of": "ParseInfo",
         "ensures": ("        final(self).frame_times@ == old(self).frame_times@, final(self).framedata.data.len() == old(self).framedata.data.len(), final(self).palette == old(self).palette,\n"
                     "        final(self).tags == Some(tags),\n"
                     "        final(self).user_data_context == Some(UserDataContext::TagIndex(0)),\n"
                     "        final(self).slices@ == old(self).slices@, final(self).layers@ == old(self).layers@, final(self).sprite_user_data == old(self).sprite_user_data,\n"
                     "        final(self).framedata == old(self).framedata,")},
        {"kind": "fn", "file": "parse", "name": "add_cel", "impl_of": "ParseInfo", "ret": "r",
         "sig_rewrites": [("cel::RawCel<RawPixels>", "RawCel")], "rules": ["R1", "R6", "R11"],
         "ensures": ("        final(self).frame_times@ == old(self).frame_times@, final(self).framedata.data.len() == old(self).framedata.data.len(), final(self).palette == old(self).palette,\n"
                     "        final(self).layers@ == old(self).layers@, final(self).tags == old(self).tags, final(self).slices@ == old(self).slices@,\n"
                     "        final(self).sprite_user_data == old(self).sprite_user_data,\n"
                     "        ctx_wf(old(self)) ==> ctx_wf(final(self)),\n"
                     "        r is Ok ==> final(self).user_data_context == Some(UserDataContext::CelId(CelId { frame: frame_id, layer: cel.data.layer_index }))\n"
                     "            && final(self).framedata.at(frame_id as int, cel.data.layer_index as int) == Some(cel),\n"
                     "        r is Err ==> final(self).user_data_context == old(self).user_data_context,")},
        {"kind": "fn", "file": "parse", "name": "set_tag_user_data", "impl_of": "ParseInfo", "ret": "r", "rules": ["R1", "R6", "R11"],
         "requires": "        old(self).tags is Some ==> old(self).tags->0@.len() <= 65535,",
         "ensures": ("        final(self).frame_times@ == old(self).frame_times@, final(self).framedata.data.len() == old(self).framedata.data.len(), final(self).palette == old(self).palette,\n"
                     "        final(self).layers@ == old(self).layers@, final(self).slices@ == old(self).slices@, final(self).sprite_user_data == old(self).sprite_user_data,\n"
                     "        final(self).framedata == old(self).framedata,\n"
                     "        r is Ok <==> (old(self).tags is Some && (tag_index as int) < old(self).tags->0@.len()),\n"
                     "        r is Ok ==> final(self).tags is Some && final(self).tags->0@.len() == old(self).tags->0@.len()\n"
                     "            && final(self).tags->0@[tag_index as int].user_data == Some(user_data)\n"
                     "            && (forall|k: int| 0 <= k < old(self).tags->0@.len() && k != tag_index ==> #[trigger] final(self).tags->0@[k] == old(self).tags->0@[k])\n"
                     "            && final(self).user_data_context == Some(UserDataContext::TagIndex((tag_index + 1) as u16)),\n"
                     "        r is Err ==> (final(self).tags is Some) == (old(self).tags is Some) && (old(self).tags is Some ==> final(self).tags->0@ == old(self).tags->0@)\n"
                     "            && final(self).user_data_context == old(self).user_data_context,")},
        {"kind": "fn", "file": "parse", "name": "add_user_data", "impl_of": "ParseInfo", "ret": "r", "rules": ["R1", "R6", "R11"],
         "requires": ("        old(self).tags is Some ==> old(self).tags->0@.len() <= 65535,\n"
                      "        ctx_wf(old(self)),"),
         "ensures": ("        final(self).frame_times@ == old(self).frame_times@, final(self).framedata.data.len() == old(self).framedata.data.len(), final(self).palette == old(self).palette,\n"
                     "        ctx_wf(final(self)),\n"
                     "        old(self).user_data_context is None ==> r is Err,\n"
                     "        final(self).layers@.len() == old(self).layers@.len(), final(self).slices@.len() == old(self).slices@.len(),\n"
                     "        r is Err ==> final(self).user_data_context == old(self).user_data_context,\n"
                     "        old(self).user_data_context is Some ==> attach_post(old(self), final(self), old(self).user_data_context->0, user_data, r is Ok),")},
        {"kind": "enum", "file": "parse", "name": "ChunkType"},
        {"kind": "struct", "file": "parse", "name": "Chunk", "keep": None},
        {"kind": "const", "file": "parse", "name": "FRAME_HEADER_SIZE"},
        {"kind": "verbatim", "text": """
/// the chunks of a frame as Chunk::read_all delivers them (framing: x_truncation / k_check_chunk_bytes)
pub uninterp spec fn spec_chunks(data: Seq<u8>, pos: int, count: u32, budget: i64) -> Seq<Chunk>;
pub uninterp spec fn cel_layer_of(d: Seq<u8>) -> u16;
impl Chunk {
    #[verifier::external_body]
    fn read_all(count: u32, bytes_available: i64, reader: &mut AseReader) -> (r: Result<Vec<Chunk>>)
        ensures final(reader).data() == old(reader).data(),
            r is Ok ==> r->Ok_0@ == spec_chunks(old(reader).data(), old(reader).pos(), count, bytes_available),
    { unimplemented!() }
}
impl ParseInfo {
    #[verifier::external_body]
    fn add_external_files(&mut self, files: Vec<ExternalFile>)
        ensures final(self).layers@ == old(self).layers@, final(self).slices@ == old(self).slices@, tags_same(final(self).tags, old(self).tags),
            final(self).user_data_context == old(self).user_data_context, final(self).sprite_user_data == old(self).sprite_user_data,
            cels_same(&final(self).framedata, &old(self).framedata), final(self).framedata.data.len() == old(self).framedata.data.len(),
            final(self).frame_times@ == old(self).frame_times@, final(self).palette == old(self).palette,
    { unimplemented!() }
}
/// the chunk decoders: their own contracts are the units dec_*; here only what the dispatch needs
pub mod color_profile { use super::*; #[verifier::external_body] pub fn parse_chunk(data: &[u8]) -> Result<ColorProfile> { unimplemented!() } }
/// the palette each decoder yields for a payload (their contents are the contracts of unit dec_palette; here: a function of the payload)
pub uninterp spec fn spec_pal_new(d: Seq<u8>) -> ColorPalette;
pub uninterp spec fn spec_pal_old04(d: Seq<u8>) -> ColorPalette;
pub uninterp spec fn spec_pal_old11(d: Seq<u8>) -> ColorPalette;
pub mod palette { use super::*;
    #[verifier::external_body] pub fn parse_chunk(data: &[u8]) -> (r: Result<ColorPalette>) ensures r is Ok ==> r->Ok_0 == spec_pal_new(data@), { unimplemented!() }
    #[verifier::external_body] pub fn parse_old_chunk_04(data: &[u8]) -> (r: Result<ColorPalette>) ensures r is Ok ==> r->Ok_0 == spec_pal_old04(data@), { unimplemented!() }
    #[verifier::external_body] pub fn parse_old_chunk_11(data: &[u8]) -> (r: Result<ColorPalette>) ensures r is Ok ==> r->Ok_0 == spec_pal_old11(data@), { unimplemented!() } }
/// C11: which palette the sprite ends up with. A new-format chunk always replaces the palette; a legacy chunk is used
/// only while there is none (so the new format wins in either order, and the first legacy chunk wins among legacy ones)
pub open spec fn pal_view(p: &ParseInfo) -> Option<ColorPalette> {
    match p.palette { Some(a) => Some(*a), None => None }
}
pub open spec fn pal_step(pal: Option<ColorPalette>, c: Chunk) -> Option<ColorPalette> {
    match c.chunk_type {
        ChunkType::Palette => Some(spec_pal_new(c.data@)),
        ChunkType::OldPalette04 => if pal is None { Some(spec_pal_old04(c.data@)) } else { pal },
        ChunkType::OldPalette11 => if pal is None { Some(spec_pal_old11(c.data@)) } else { pal },
        _ => pal,
    }
}
pub open spec fn pal_fold(cs: Seq<Chunk>, i: int, p0: Option<ColorPalette>) -> Option<ColorPalette>
    decreases i,
{
    if i <= 0 { p0 } else { pal_step(pal_fold(cs, i - 1, p0), cs[i - 1]) }
}
pub mod layer { use super::*; #[verifier::external_body] pub fn parse_chunk(data: &[u8]) -> Result<LayerData> { unimplemented!() } }
pub mod cel { use super::*;
    #[verifier::external_body] pub fn parse_chunk(data: &[u8], pixel_format: PixelFormat) -> (r: Result<RawCel>)
        ensures r is Ok ==> r->Ok_0.data.layer_index == cel_layer_of(data@),
    { unimplemented!() } }
pub mod tags { use super::*;
    #[verifier::external_body] pub fn parse_chunk(data: &[u8]) -> (r: Result<Vec<Tag>>)
        ensures r is Ok ==> r->Ok_0@.len() <= 65535,
    { unimplemented!() } }
pub mod slice { use super::*; #[verifier::external_body] pub fn parse_chunk(data: &[u8]) -> Result<Slice> { unimplemented!() } }
pub mod user_data { use super::*; #[verifier::external_body] pub fn parse_userdata_chunk(data: &[u8]) -> Result<UserData> { unimplemented!() } }
impl ExternalFile { #[verifier::external_body] pub fn parse_chunk(data: &[u8]) -> Result<Vec<ExternalFile>> { unimplemented!() } }
#[verifier::external_body] pub fn tileset_parse_chunk(data: &[u8], pixel_format: PixelFormat) -> Result<TilesetRaw> { unimplemented!() }

/// C10 / C07 glue: how ONE chunk changes the attachment context (ctx, number of layers, number of slices).
/// Ignorable chunks, colour profile, new palette, external files and tilesets leave it untouched; tags set it
/// only in frame 0; a user-data record advances a tag context and leaves every other context in place.
pub open spec fn glue_step(s: (Option<UserDataContext>, int, int), c: Chunk, frame_id: u16) -> (Option<UserDataContext>, int, int) {
    match c.chunk_type {
        ChunkType::Layer => (Some(UserDataContext::LayerIndex(s.1 as u32)), s.1 + 1, s.2),
        ChunkType::Cel => (Some(UserDataContext::CelId(CelId { frame: frame_id, layer: cel_layer_of(c.data@) })), s.1, s.2),
        ChunkType::Slice => (Some(UserDataContext::SliceIndex(s.2 as u32)), s.1, s.2 + 1),
        ChunkType::Tags => (if frame_id == 0 { Some(UserDataContext::TagIndex(0)) } else { s.0 }, s.1, s.2),
        ChunkType::OldPalette04 => (Some(UserDataContext::OldPalette), s.1, s.2),
        ChunkType::OldPalette11 => (Some(UserDataContext::OldPalette), s.1, s.2),
        ChunkType::UserData => (match s.0 { Some(UserDataContext::TagIndex(t)) => Some(UserDataContext::TagIndex((t + 1) as u16)), other => other }, s.1, s.2),
        _ => s,
    }
}
pub open spec fn glue_fold(cs: Seq<Chunk>, i: int, frame_id: u16, s0: (Option<UserDataContext>, int, int)) -> (Option<UserDataContext>, int, int)
    decreases i,
{
    if i <= 0 { s0 } else { glue_step(glue_fold(cs, i - 1, frame_id, s0), cs[i - 1], frame_id) }
}
pub open spec fn glue_view(p: &ParseInfo) -> (Option<UserDataContext>, int, int) {
    (p.user_data_context, p.layers@.len() as int, p.slices@.len() as int)
}
"""},
        {"kind": "verbatim", "text": """
/// number of chunks and the chunk list of the frame whose header starts at offset o
pub open spec fn frame_count(d: Seq<u8>, o: int) -> u32 {
    if le_u32(d, o + 12) == 0 { le_u16(d, o + 6) as u32 } else { le_u32(d, o + 12) as u32 }
}
pub open spec fn frame_chunks(d: Seq<u8>, o: int) -> Seq<Chunk> {
    spec_chunks(d, o + 16, frame_count(d, o), (le_u32(d, o) - 16) as i64)
}
"""},
        {"kind": "fn", "file": "parse", "name": "parse_frame", "ret": "r", "rules": ["R1", "R6", "R11", "R13"],
         "sig_rewrites": [("<R: Read>", ""), ("AseReader<R>", "AseReader")],
         "body_rewrites": [("Tileset::<RawPixels>::parse_chunk(", "tileset_parse_chunk("),
                           ("for chunk in chunks {", "for chunk in it: chunks {")],
         "requires": ("        (frame_id as int) < old(parse_info).frame_times@.len(), (frame_id as int) < old(parse_info).framedata.data.len(),\n"
                      "        old(parse_info).tags is Some ==> old(parse_info).tags->0@.len() <= 65535,\n"
                      "        ctx_wf(old(parse_info)),\n"
                      "        // fewer than 2^32 layers / slices in total (the context stores their index as u32)\n"
                      "        old(reader).pos() + 16 <= old(reader).data().len() ==> old(parse_info).layers@.len() + frame_chunks(old(reader).data(), old(reader).pos()).len() < u32::MAX\n"
                      "            && old(parse_info).slices@.len() + frame_chunks(old(reader).data(), old(reader).pos()).len() < u32::MAX,"),
         "ensures": ("        r is Ok ==> ({ let d = old(reader).data(); let o = old(reader).pos(); let cs = frame_chunks(d, o);\n"
                     "            &&& o + 16 <= d.len() && le_u16(d, o + 4) == 0xF1FA\n"
                     "            &&& final(parse_info).frame_times@.len() == old(parse_info).frame_times@.len()\n"
                     "            &&& final(parse_info).frame_times@[frame_id as int] as int == le_u16(d, o + 8)\n"
                     "            &&& glue_view(final(parse_info)) == glue_fold(cs, cs.len() as int, frame_id, glue_view(old(parse_info)))\n"
                     "            &&& pal_view(final(parse_info)) == pal_fold(cs, cs.len() as int, pal_view(old(parse_info))) }),"),
         "loops": {1: ("        invariant\n"
                       "            it.snapshot@.remaining() == cs, it.index@ <= cs.len(),\n"
                       "            cs == frame_chunks(old(reader).data(), old(reader).pos()),\n"
                       "            old(parse_info).layers@.len() + cs.len() < u32::MAX, old(parse_info).slices@.len() + cs.len() < u32::MAX,\n"
                       "            parse_info.layers@.len() <= old(parse_info).layers@.len() + it.index@, parse_info.slices@.len() <= old(parse_info).slices@.len() + it.index@,\n"
                       "            parse_info.frame_times@.len() == old(parse_info).frame_times@.len(), (frame_id as int) < parse_info.frame_times@.len(),\n"
                       "            parse_info.frame_times@[frame_id as int] == frame_duration_ms,\n"
                       "            (frame_id as int) < parse_info.framedata.data.len(),\n"
                       "            parse_info.tags is Some ==> parse_info.tags->0@.len() <= 65535,\n"
                       "            ctx_wf(parse_info),\n"
                       "            glue_view(parse_info) == glue_fold(cs, it.index@ as int, frame_id, glue_view(old(parse_info))),\n"
                       "            pal_view(parse_info) == pal_fold(cs, it.index@ as int, pal_view(old(parse_info))),")},
         "hints": [("for chunk in it: chunks", "    let ghost cs = chunks@;", "before"),
                   ("let Chunk { chunk_type, data } = chunk;", "        assert(chunk == cs[it.index@ as int]);\n        assert(glue_fold(cs, it.index@ as int + 1, frame_id, glue_view(old(parse_info))) == glue_step(glue_fold(cs, it.index@ as int, frame_id, glue_view(old(parse_info))), cs[it.index@ as int], frame_id));\n        assert(pal_fold(cs, it.index@ as int + 1, pal_view(old(parse_info))) == pal_step(pal_fold(cs, it.index@ as int, pal_view(old(parse_info))), cs[it.index@ as int]));", "before")]},
    ],
}

# ------------------------------------------------------------------------------------------------
# The three access paths to a cel and the cel accessors (C19, C06 accessors, C01 optional lookups)
# ------------------------------------------------------------------------------------------------
UNITS["routes"] = {
    "prelude_sections": ["rgba_only", "btreemap_shim"],
    "items": [
        {"kind": "struct", "file": "user_data", "name": "UserData", "keep": None, "rewrites": [("image::Rgba<u8>", "Rgba<u8>")]},
        {"kind": "struct", "file": "cel", "name": "CelId", "keep": None, "attrs": "#[derive(Clone, Copy)]\n"},
        {"kind": "struct", "file": "cel", "name": "CelCommon", "keep": None},
        {"kind": "struct", "file": "cel", "name": "RawCel", "keep": ["data", "user_data"], "header": "struct RawCel "},
        {"kind": "struct", "file": "cel", "name": "CelsData", "keep": ["data", "num_frames"], "header": "struct CelsData ", "rewrites": [("RawCel<P>", "RawCel")]},
        {"kind": "struct", "file": "layer", "name": "LayerData", "keep": ["opacity"]},
        {"kind": "struct", "file": "layer", "name": "LayersData", "keep": ["layers"]},
        {"kind": "struct", "file": "file", "name": "AsepriteFile", "keep": ["num_frames", "layers", "framedata"], "rewrites": [("CelsData<Pixels>", "CelsData")]},
        {"kind": "struct", "file": "cel", "name": "Cel", "keep": None},
        {"kind": "struct", "file": "file", "name": "Frame", "keep": None},
        {"kind": "struct", "file": "layer", "name": "Layer", "keep": None},
        {"kind": "verbatim", "text": """
impl CelsData {
    pub open spec fn at(&self, f: int, l: int) -> Option<RawCel> {
        if 0 <= f < self.data.len() && 0 <= l <= 65535 && self.data[f]@.contains_key(l as u16) { Some(self.data[f]@[l as u16]) } else { None }
    }
}
/// what loading establishes: one row per frame, frame and layer counts fit the 16-bit cel coordinates
pub open spec fn file_wf(f: &AsepriteFile) -> bool {
    f.framedata.data.len() == f.num_frames as int && f.layers.layers.len() <= 65536
}
"""},
        {"kind": "fn", "file": "cel", "name": "cel", "key": "CelsData::cel", "impl_of": "CelsData", "impl_filter": r"impl<P>\s+CelsData<P>", "impl_header": "CelsData", "ret": "r",
         "sig_rewrites": [("RawCel<P>", "RawCel")],
         "requires": "        (cel_id.frame as int) < self.data.len(),",
         "ensures": ("        (r is Some) == (self.at(cel_id.frame as int, cel_id.layer as int) is Some),\n"
                     "        r is Some ==> *(r->0) == self.at(cel_id.frame as int, cel_id.layer as int)->0,")},
        {"kind": "fn", "file": "file", "name": "num_frames", "impl_of": "AsepriteFile", "ret": "r", "ensures": "        r == self.num_frames as u32,"},
        {"kind": "fn", "file": "file", "name": "num_layers", "impl_of": "AsepriteFile", "ret": "r",
         "requires": "        self.layers.layers.len() <= 65536,", "ensures": "        r as int == self.layers.layers.len(),"},
        {"kind": "fn", "file": "file", "name": "cel", "key": "AsepriteFile::cel", "impl_of": "AsepriteFile", "ret": "r",
         "requires": "        file_wf(self), frame < self.num_frames as u32, (layer as int) < self.layers.layers.len(),",
         "ensures": "        r.cel_id.frame as u32 == frame, r.cel_id.layer as u32 == layer, r.file == self,"},
        {"kind": "fn", "file": "file", "name": "frame", "key": "AsepriteFile::frame", "impl_of": "AsepriteFile", "ret": "r",
         "requires": "        index < self.num_frames as u32,",
         "ensures": "        r.index == index, r.file == self,"},
        {"kind": "fn", "file": "file", "name": "layer", "key": "AsepriteFile::layer", "impl_of": "AsepriteFile", "ret": "r",
         "requires": "        file_wf(self), (id as int) < self.layers.layers.len(),",
         "ensures": "        r.layer_id == id, r.file == self,"},
        {"kind": "fn", "file": "file", "name": "layer", "key": "Frame::layer", "impl_of": "Frame", "impl_header": "<'a> Frame<'a>", "ret": "r",
         "requires": "        file_wf(self.file), self.index < self.file.num_frames as u32, (layer_id as int) < self.file.layers.layers.len(),",
         "ensures": "        r.cel_id.frame as u32 == self.index, r.cel_id.layer as u32 == layer_id, r.file == self.file,"},
        {"kind": "fn", "file": "layer", "name": "frame", "key": "Layer::frame", "impl_of": "Layer", "impl_header": "<'a> Layer<'a>", "ret": "r",
         "requires": "        file_wf(self.file), frame_id < self.file.num_frames as u32, (self.layer_id as int) < self.file.layers.layers.len(),",
         "ensures": "        r.cel_id.frame as u32 == frame_id, r.cel_id.layer as u32 == self.layer_id, r.file == self.file,"},
        {"kind": "fn", "file": "cel", "name": "frame", "key": "Cel::frame", "impl_of": "Cel", "impl_header": "<'a> Cel<'a>", "ret": "r", "ensures": "        r == self.cel_id.frame as u32,"},
        {"kind": "fn", "file": "cel", "name": "layer", "key": "Cel::layer", "impl_of": "Cel", "impl_header": "<'a> Cel<'a>", "ret": "r", "ensures": "        r == self.cel_id.layer as u32,"},
        {"kind": "fn", "file": "cel", "name": "is_empty", "impl_of": "Cel", "impl_header": "<'a> Cel<'a>", "ret": "r",
         "requires": "        (self.cel_id.frame as int) < self.file.framedata.data.len(),",
         "ensures": "        r == (self.file.framedata.at(self.cel_id.frame as int, self.cel_id.layer as int) is None),"},
        {"kind": "verbatim", "fn_name": "routes_agree", "text": """
/// C19 as a lemma over the contracts above (a CLIENT of the public signatures, written here, calling the extracted real
/// functions positionally exactly as the documentation shows them): the three routes to the cel at (frame fr, layer l)
/// denote the same cel of the same file, and that cel reports the coordinates it was asked for.
fn routes_agree(f: &AsepriteFile, fr: u32, l: u32)
    requires file_wf(f), fr < f.num_frames as u32, (l as int) < f.layers.layers.len(),
{
    let a = f.cel(fr, l);                 // direct: (frame, layer)
    let frame = f.frame(fr);
    let b = frame.layer(l);               // frame, then layer
    let layer = f.layer(l);
    let c = layer.frame(fr);              // layer, then frame
    assert(a.cel_id.frame == b.cel_id.frame && b.cel_id.frame == c.cel_id.frame);
    assert(a.cel_id.layer == b.cel_id.layer && b.cel_id.layer == c.cel_id.layer);
    assert(a.file == f && b.file == f && c.file == f);
    let (af, al) = (a.frame(), a.layer());
    assert(af == fr && al == l);
    let (e1, e2, e3) = (a.is_empty(), b.is_empty(), c.is_empty());
    assert(e1 == e2 && e2 == e3);
}
"""},
    ],
}

# ------------------------------------------------------------------------------------------------
# Chunk decoders over the reader contract (C01, C04, C10, C15): UNBOUNDED payload length / entity count
# ------------------------------------------------------------------------------------------------
UNITS["dec_userdata"] = {
    "prelude_sections": ["errors", "rgba_only", "reader"],
    "items": [
        {"kind": "struct", "file": "user_data", "name": "UserData", "keep": None, "rewrites": [("image::Rgba<u8>", "Rgba<u8>")]},
        {"kind": "verbatim", "text": """
/// C10: text iff flag bit 0, colour iff flag bit 1, as stored
pub open spec fn ud_flags(d: Seq<u8>) -> int { le_u32(d, 0) }
pub open spec fn ud_has_text(d: Seq<u8>) -> bool { (ud_flags(d) % 2) == 1 }
pub open spec fn ud_has_color(d: Seq<u8>) -> bool { ((ud_flags(d) / 2) % 2) == 1 }
pub open spec fn ud_color_at(d: Seq<u8>) -> int { if ud_has_text(d) { str_end(d, 4) } else { 4 } }
pub open spec fn ud_ok(d: Seq<u8>) -> bool {
    &&& d.len() >= 4
    &&& ud_has_text(d) ==> (str_fits(d, 4) && utf8_ok(str_bytes(d, 4)))
    &&& ud_has_color(d) ==> ud_color_at(d) + 4 <= d.len()
}
"""},
        {"kind": "fn", "file": "user_data", "name": "parse_userdata_chunk", "ret": "r", "rules": ["R1", "R6", "R11"],
         "body_rewrites": [("image::Rgba(", "Rgba(")],
         "ensures": ("        r is Ok <==> ud_ok(data@),\n"
                     "        r is Ok ==> (r->Ok_0.text is Some) == ud_has_text(data@) && (r->Ok_0.color is Some) == ud_has_color(data@),\n"
                     "        r is Ok && ud_has_text(data@) ==> r->Ok_0.text->0@ == utf8_text(str_bytes(data@, 4)),\n"
                     "        r is Ok && ud_has_color(data@) ==> ({ let p = ud_color_at(data@); (r->Ok_0.color->0).0@ == seq![data@[p], data@[p + 1], data@[p + 2], data@[p + 3]] }),"),
         "hints": [("let text = if", "    assert((flags & 1 != 0) == (flags % 2 == 1)) by (bit_vector);\n    assert((flags & 2 != 0) == ((flags / 2) % 2 == 1)) by (bit_vector);", "before")]},
    ],
}

UNITS["dec_layer"] = {
    "prelude_sections": ["errors", "rgba_only", "reader", "layer_flags_only"],
    "items": [
        {"kind": "struct", "file": "user_data", "name": "UserData", "keep": None, "rewrites": [("image::Rgba<u8>", "Rgba<u8>")]},
        {"kind": "enum", "file": "layer", "name": "LayerType", "attrs": "#[derive(Clone, Copy, PartialEq, Eq)]\n"},
        {"kind": "enum", "file": "layer", "name": "BlendMode", "attrs": "#[derive(Clone, Copy, PartialEq, Eq)]\n"},
        {"kind": "struct", "file": "layer", "name": "LayerData", "keep": None},
        {"kind": "verbatim", "text": """
/// Aseprite's numeric id of a blend mode (file-format specification)
pub open spec fn blend_id(m: BlendMode) -> int {
    match m {
        BlendMode::Normal => 0, BlendMode::Multiply => 1, BlendMode::Screen => 2, BlendMode::Overlay => 3, BlendMode::Darken => 4,
        BlendMode::Lighten => 5, BlendMode::ColorDodge => 6, BlendMode::ColorBurn => 7, BlendMode::HardLight => 8, BlendMode::SoftLight => 9,
        BlendMode::Difference => 10, BlendMode::Exclusion => 11, BlendMode::Hue => 12, BlendMode::Saturation => 13, BlendMode::Color => 14,
        BlendMode::Luminosity => 15, BlendMode::Addition => 16, BlendMode::Subtract => 17, BlendMode::Divide => 18,
    }
}
/// layer chunk 0x2004: flags(2) type(2) child level(2) default w/h(4) blend mode(2) opacity(1) reserved(3) name(STRING) [tileset index(4)]
pub open spec fn layer_ok(d: Seq<u8>) -> bool {
    &&& str_fits(d, 16) && utf8_ok(str_bytes(d, 16))
    &&& le_u16(d, 2) <= 2
    &&& le_u16(d, 2) == 2 ==> str_end(d, 16) + 4 <= d.len()
    &&& le_u16(d, 10) <= 18
}
pub open spec fn layer_type_spec(d: Seq<u8>) -> LayerType {
    if le_u16(d, 2) == 0 { LayerType::Image } else if le_u16(d, 2) == 1 { LayerType::Group } else { LayerType::Tilemap(le_u32(d, str_end(d, 16)) as u32) }
}
"""},
        {"kind": "fn", "file": "layer", "name": "parse_blend_mode", "ret": "r", "rules": ["R1", "R6", "R11"],
         "ensures": "        r is Ok <==> id <= 18,\n        r is Ok ==> blend_id(r->Ok_0) == id,"},
        {"kind": "fn", "file": "layer", "name": "parse_layer_type", "ret": "r", "rules": ["R1", "R6", "R11", "R12"],
         "sig_rewrites": [("<R: Read>", ""), ("AseReader<R>", "AseReader")],
         "ensures": ("        final(reader).data() == old(reader).data(),\n"
                     "        r is Ok <==> (id <= 1 || (id == 2 && old(reader).pos() + 4 <= old(reader).data().len())),\n"
                     "        r is Ok && id == 0 ==> r->Ok_0 == LayerType::Image,\n"
                     "        r is Ok && id == 1 ==> r->Ok_0 == LayerType::Group,\n"
                     "        r is Ok && id == 2 ==> r->Ok_0 == LayerType::Tilemap(le_u32(old(reader).data(), old(reader).pos()) as u32),")},
        {"kind": "fn", "file": "layer", "name": "parse_chunk", "key": "layer::parse_chunk", "ret": "r", "rules": ["R1", "R6", "R11"],
         "ensures": ("        r is Ok <==> layer_ok(data@),\n"
                     "        r is Ok ==> ({ let l = r->Ok_0; let d = data@;\n"
                     "            &&& l.flags.bits == (le_u16(d, 0) as u32) & 0x7f\n"
                     "            &&& l.child_level as int == le_u16(d, 4)\n"
                     "            &&& blend_id(l.blend_mode) == le_u16(d, 10)\n"
                     "            &&& l.opacity == d[12]\n"
                     "            &&& l.name@ == utf8_text(str_bytes(d, 16))\n"
                     "            &&& l.layer_type == layer_type_spec(d)\n"
                     "            &&& l.user_data is None }),")},
    ],
}

UNITS["dec_tags"] = {
    "prelude_sections": ["errors", "rgba_only", "reader"],
    "items": [
        {"kind": "struct", "file": "user_data", "name": "UserData", "keep": None, "rewrites": [("image::Rgba<u8>", "Rgba<u8>")]},
        {"kind": "enum", "file": "tags", "name": "AnimationDirection", "attrs": "#[derive(Clone, Copy, PartialEq, Eq)]\n"},
        {"kind": "struct", "file": "tags", "name": "Tag", "keep": None},
        {"kind": "verbatim", "text": """
pub open spec fn dir_id(a: AnimationDirection) -> int {
    match a { AnimationDirection::Forward => 0, AnimationDirection::Reverse => 1, AnimationDirection::PingPong => 2 }
}
/// tags chunk 0x2018: count(2) reserved(8); per tag: from(2) to(2) direction(1) repeat(2) reserved(6) colour(4) name(STRING)
pub open spec fn tag_ok(d: Seq<u8>, o: int) -> bool {
    o + 17 <= d.len() && str_fits(d, o + 17) && utf8_ok(str_bytes(d, o + 17)) && d[o + 4] <= 2
}
pub open spec fn tag_off(d: Seq<u8>, k: int) -> int
    decreases k,
{
    if k <= 0 { 10 } else { str_end(d, tag_off(d, k - 1) + 17) }
}
pub open spec fn tags_ok(d: Seq<u8>, n: int) -> bool {
    d.len() >= 10 && forall|j: int| 0 <= j < n ==> tag_ok(d, #[trigger] tag_off(d, j))
}
pub open spec fn tag_matches(t: Tag, d: Seq<u8>, o: int) -> bool {
    &&& t.from_frame as int == le_u16(d, o)
    &&& t.to_frame as int == le_u16(d, o + 2)
    &&& dir_id(t.animation_direction) == d[o + 4] as int
    &&& t.repeat as int == le_u16(d, o + 5)
    &&& t.name@ == utf8_text(str_bytes(d, o + 17))
    &&& t.user_data is None
}
"""},
        {"kind": "fn", "file": "tags", "name": "parse_animation_direction", "ret": "r", "rules": ["R1", "R6", "R11"],
         "ensures": "        r is Ok <==> id <= 2,\n        r is Ok ==> dir_id(r->Ok_0) == id,"},
        {"kind": "fn", "file": "tags", "name": "parse_chunk", "key": "tags::parse_chunk", "ret": "r", "rules": ["R1", "R6", "R11"],
         "ensures": ("        r is Ok <==> (data@.len() >= 2 && tags_ok(data@, le_u16(data@, 0))),\n"
                     "        r is Ok ==> r->Ok_0@.len() == le_u16(data@, 0)\n"
                     "            && forall|j: int| 0 <= j < le_u16(data@, 0) ==> tag_matches(#[trigger] r->Ok_0@[j], data@, tag_off(data@, j)),"),
         "loops": {1: ("        invariant\n"
                       "            reader.data() == data@, data@.len() >= 10, num_tags as int == le_u16(data@, 0),\n"
                       "            reader.pos() == tag_off(data@, _tag as int), 10 <= reader.pos() <= data@.len(),\n"
                       "            result@.len() == _tag,\n"
                       "            forall|j: int| 0 <= j < _tag ==> tag_ok(data@, #[trigger] tag_off(data@, j)),\n"
                       "            forall|j: int| 0 <= j < _tag ==> tag_matches(#[trigger] result@[j], data@, tag_off(data@, j)),")},
         "loop_begins": {1: "        let ghost o = reader.pos();\n        assert(o == tag_off(data@, _tag as int));"},
         "hints": [("result.push(", "        assert(tag_ok(data@, o));\n        assert(tag_off(data@, _tag as int + 1) == str_end(data@, o + 17));", "before")]},
    ],
}

UNITS["dec_ext"] = {
    "prelude_sections": ["errors", "reader", "hashmap_shim"],
    "items": [
        {"kind": "struct", "file": "external_file", "name": "ExternalFileId", "keep": None, "attrs": "#[derive(Clone, Copy, PartialEq, Eq)]\n"},
        {"kind": "struct", "file": "external_file", "name": "ExternalFile", "keep": None},
        {"kind": "verbatim", "text": """
/// external files chunk 0x2008: count(4) reserved(8); per entry: id(4) reserved(8) name(STRING)
pub open spec fn ext_ok(d: Seq<u8>, o: int) -> bool {
    o + 12 <= d.len() && str_fits(d, o + 12) && utf8_ok(str_bytes(d, o + 12))
}
pub open spec fn ext_off(d: Seq<u8>, k: int) -> int
    decreases k,
{
    if k <= 0 { 12 } else { str_end(d, ext_off(d, k - 1) + 12) }
}
pub open spec fn exts_ok(d: Seq<u8>, n: int) -> bool {
    d.len() >= 12 && forall|j: int| 0 <= j < n ==> ext_ok(d, #[trigger] ext_off(d, j))
}
pub open spec fn ext_matches(e: ExternalFile, d: Seq<u8>, o: int) -> bool {
    e.id.0 as int == le_u32(d, o) && e.name@ == utf8_text(str_bytes(d, o + 12))
}
"""},
        {"kind": "fn", "file": "external_file", "name": "new", "key": "ExternalFileId::new", "impl_of": "ExternalFileId", "ret": "r", "ensures": "        r.0 == id,"},
        {"kind": "fn", "file": "external_file", "name": "new", "key": "ExternalFile::new", "impl_of": "ExternalFile", "impl_filter": r"impl\s+ExternalFile\s", "ret": "r",
         "ensures": "        r.id == id, r.name == name,"},
        {"kind": "fn", "file": "external_file", "name": "parse_chunk", "key": "ExternalFile::parse_chunk", "impl_of": "ExternalFile", "impl_filter": r"impl\s+ExternalFile\s", "ret": "r",
         "rules": ["R1", "R6", "R11"],
         "ensures": ("        r is Ok <==> (data@.len() >= 4 && exts_ok(data@, le_u32(data@, 0))),\n"
                     "        r is Ok ==> r->Ok_0@.len() == le_u32(data@, 0)\n"
                     "            && forall|j: int| 0 <= j < le_u32(data@, 0) ==> ext_matches(#[trigger] r->Ok_0@[j], data@, ext_off(data@, j)),"),
         "loops": {1: ("        invariant\n"
                       "            reader.data() == data@, data@.len() >= 12, entry_ct as int == le_u32(data@, 0),\n"
                       "            results@.len() == it.index@, reader.pos() == ext_off(data@, results@.len() as int),\n"
                       "            forall|j: int| 0 <= j < results@.len() ==> ext_ok(data@, #[trigger] ext_off(data@, j)),\n"
                       "            forall|j: int| 0 <= j < results@.len() ==> ext_matches(#[trigger] results@[j], data@, ext_off(data@, j)),\n"
                       "            12 <= reader.pos() <= data@.len(),")},
         "body_rewrites": [("for _ in 0..entry_ct", "for _ in it: 0..entry_ct")],   # names Verus' ghost iterator; no semantic change
         "loop_begins": {1: "            let ghost o = reader.pos();\n            let ghost k = results@.len() as int;"},
         "hints": [("results.push(", "            assert(ext_ok(data@, o));\n            assert(ext_off(data@, k + 1) == str_end(data@, o + 12));", "before")],
         },
        {"kind": "struct", "file": "external_file", "name": "ExternalFilesById", "keep": None},
        {"kind": "fn", "file": "external_file", "name": "id", "key": "ExternalFile::id", "impl_of": "ExternalFile", "impl_filter": r"impl\s+ExternalFile\s", "ret": "r", "ensures": "        *r == self.id,"},
        {"kind": "fn", "file": "external_file", "name": "value", "key": "ExternalFileId::value", "impl_of": "ExternalFileId", "ret": "r", "ensures": "        r == self.0,"},
        {"kind": "fn", "file": "external_file", "name": "new", "key": "ExternalFilesById::new", "impl_of": "ExternalFilesById", "ret": "r", "ensures": "        r.0@ == Map::<ExternalFileId, ExternalFile>::empty(),"},
        {"kind": "fn", "file": "external_file", "name": "add", "key": "ExternalFilesById::add", "impl_of": "ExternalFilesById",
         "ensures": "        // stored under its own id; a later entry with the same id replaces the earlier one\n        final(self).0@ == old(self).0@.insert(external_file.id, external_file),"},
        {"kind": "fn", "file": "external_file", "name": "get", "key": "ExternalFilesById::get", "impl_of": "ExternalFilesById", "ret": "r",
         "ensures": "        (r is Some) == self.0@.contains_key(*id), r is Some ==> *(r->0) == self.0@[*id],"},
        {"kind": "fn", "file": "external_file", "name": "name", "key": "ExternalFile::name", "impl_of": "ExternalFile", "impl_filter": r"impl\s+ExternalFile\s", "ret": "r", "ensures": "        r@ == self.name@,"},
        {"kind": "struct", "file": "parse", "name": "ParseInfo", "keep": ["external_files"]},
        {"kind": "verbatim", "text": """
/// the table after the first n entries of a chunk's list have been added, in file order (a later entry with the same id replaces an earlier one)
pub open spec fn ext_fold(m: Map<ExternalFileId, ExternalFile>, s: Seq<ExternalFile>, n: int) -> Map<ExternalFileId, ExternalFile>
    decreases n,
{
    if n <= 0 { m } else { ext_fold(m, s, n - 1).insert(s[n - 1].id, s[n - 1]) }
}
"""},
        {"kind": "fn", "file": "parse", "name": "add_external_files", "impl_of": "ParseInfo",
         "body_rewrites": [("for external_file in files {", "for external_file in it: files {")],
         "ensures": "        // C01: every entry of an external-files chunk is stored under its own id, in file order\n        final(self).external_files.0@ == ext_fold(old(self).external_files.0@, files@, files@.len() as int),",
         "loops": {1: ("            invariant\n"
                       "                it.snapshot@.remaining() == files@,\n"
                       "                self.external_files.0@ == ext_fold(old(self).external_files.0@, files@, it.index@ as int),")}},
    ],
}


# straight-line decoders: every field is the layout read at its offset, in file order (C01, C06, C08, C15)
RD = [("<R: Read>", ""), ("AseReader<R>", "AseReader")]
UNITS["dec_small"] = {
    "prelude_sections": ["errors", "rgba_only", "reader"],
    "items": [
        # the per-pixel / per-tile constructors that the chunks_exact chains of from_bytes / Tiles::unzip map over (unit pixel_readers: R23-R25)
        {"kind": "struct", "file": "pixel", "name": "Grayscale", "keep": None, "attrs": "#[derive(Clone, Copy)]\n"},
        {"kind": "fn", "file": "pixel", "name": "new", "key": "Grayscale::new", "impl_of": "Grayscale", "ret": "r",
         "ensures": "        r is Ok <==> chunk@.len() >= 2, r is Ok ==> r->Ok_0.value == chunk@[0] && r->Ok_0.alpha == chunk@[1],"},
        {"kind": "fn", "file": "pixel", "name": "read_rgba", "ret": "r",
         "ensures": "        r is Ok <==> chunk@.len() >= 4, r is Ok ==> r->Ok_0.0@ == seq![chunk@[0], chunk@[1], chunk@[2], chunk@[3]],"},
        {"kind": "struct", "file": "tile", "name": "TileId", "keep": None, "attrs": "#[derive(Clone, Copy)]\n"},
        {"kind": "struct", "file": "tile", "name": "Tile", "keep": None},
        {"kind": "fn", "file": "tile", "name": "as_bool", "ret": "r", "ensures": "        r == (bitwise_and != 0),"},
        {"kind": "fn", "file": "tile", "name": "parse", "key": "Tile::parse", "impl_of": "Tile", "ret": "r",
         "ensures": "        r.id.0 == bits & header.tile_id, r.flip_x == (bits & header.x_flip != 0), r.flip_y == (bits & header.y_flip != 0), r.rotate_90cw == (bits & header.rotate_90cw != 0),"},
        {"kind": "fn", "file": "tile", "name": "new", "key": "Tile::new", "impl_of": "Tile", "ret": "r",
         "closures": [{"after": ".map(", "params": "bits: u32", "ret": "t: Tile", "ensures": "t.id.0 == bits & header.tile_id"}],
         "ensures": "        r is Ok <==> chunk@.len() >= 4, r is Ok ==> r->Ok_0.id.0 as int == (le_u32(chunk@, 0) as u32 & header.tile_id) as int,"},
        {"kind": "struct", "file": "cel", "name": "CelCommon", "keep": None},
        {"kind": "fn", "file": "cel", "name": "parse", "key": "CelCommon::parse", "impl_of": "CelCommon", "ret": "r", "sig_rewrites": RD,
         "ensures": ("        final(reader).data() == old(reader).data(),\n"
                     "        r is Ok <==> old(reader).pos() + 7 <= old(reader).data().len(),\n"
                     "        r is Ok ==> ({ let d = old(reader).data(); let o = old(reader).pos(); let c = r->Ok_0;\n"
                     "            c.layer_index as int == le_u16(d, o) && c.x as int == as_i16(le_u16(d, o + 2)) && c.y as int == as_i16(le_u16(d, o + 4))\n"
                     "            && c.opacity == d[o + 6] && final(reader).pos() == o + 7 }),")},
        {"kind": "struct", "file": "cel", "name": "ImageSize", "keep": None},
        {"kind": "fn", "file": "cel", "name": "parse", "key": "ImageSize::parse", "impl_of": "ImageSize", "ret": "r", "sig_rewrites": RD,
         "ensures": ("        final(reader).data() == old(reader).data(),\n"
                     "        r is Ok <==> old(reader).pos() + 4 <= old(reader).data().len(),\n"
                     "        r is Ok ==> r->Ok_0.width as int == le_u16(old(reader).data(), old(reader).pos())\n"
                     "            && r->Ok_0.height as int == le_u16(old(reader).data(), old(reader).pos() + 2) && final(reader).pos() == old(reader).pos() + 4,")},
        {"kind": "fn", "file": "cel", "name": "pixel_count", "impl_of": "ImageSize", "ret": "r",
         "ensures": "        r as int == (self.width as int) * (self.height as int),",
         "hints": [("self.width as usize *", "        assert((self.width as int) * (self.height as int) <= 65535 * 65535) by (nonlinear_arith)\n            requires 0 <= (self.width as int) <= 65535, 0 <= (self.height as int) <= 65535;", "before")]},
        {"kind": "struct", "file": "slice", "name": "Slice9", "keep": None},
        {"kind": "fn", "file": "slice", "name": "read", "key": "Slice9::read", "impl_of": "Slice9", "ret": "r", "sig_rewrites": RD,
         "ensures": ("        final(reader).data() == old(reader).data(),\n"
                     "        r is Ok <==> old(reader).pos() + 16 <= old(reader).data().len(),\n"
                     "        r is Ok ==> ({ let d = old(reader).data(); let o = old(reader).pos(); let s = r->Ok_0;\n"
                     "            s.center_x as int == as_i32(le_u32(d, o)) && s.center_y as int == as_i32(le_u32(d, o + 4))\n"
                     "            && s.center_width as int == le_u32(d, o + 8) && s.center_height as int == le_u32(d, o + 12) && final(reader).pos() == o + 16 }),")},
        {"kind": "struct", "file": "slice", "name": "SliceKey", "keep": None},
        {"kind": "verbatim", "text": """
/// slice key: frame(4) x(4) y(4) w(4) h(4) [9-slice: 16 bytes if flag bit 0] [pivot: 8 bytes if flag bit 1]
pub open spec fn key_has9(flags: u32) -> bool { flags % 2 == 1 }
pub open spec fn key_hasp(flags: u32) -> bool { (flags / 2) % 2 == 1 }
pub open spec fn key_len(flags: u32) -> int { 20 + (if key_has9(flags) { 16int } else { 0 }) + (if key_hasp(flags) { 8int } else { 0 }) }
"""},
        {"kind": "fn", "file": "slice", "name": "read", "key": "SliceKey::read", "impl_of": "SliceKey", "ret": "r", "sig_rewrites": RD,
         "ensures": ("        final(reader).data() == old(reader).data(),\n"
                     "        r is Ok <==> old(reader).pos() + key_len(flags) <= old(reader).data().len(),\n"
                     "        r is Ok ==> ({ let d = old(reader).data(); let o = old(reader).pos(); let k = r->Ok_0;\n"
                     "            &&& k.from_frame as int == le_u32(d, o)\n"
                     "            &&& k.origin.0 as int == as_i32(le_u32(d, o + 4)) && k.origin.1 as int == as_i32(le_u32(d, o + 8))\n"
                     "            &&& k.size.0 as int == le_u32(d, o + 12) && k.size.1 as int == le_u32(d, o + 16)\n"
                     "            &&& (k.slice9 is Some) == key_has9(flags)\n"
                     "            &&& key_has9(flags) ==> k.slice9->0.center_x as int == as_i32(le_u32(d, o + 20)) && k.slice9->0.center_height as int == le_u32(d, o + 32)\n"
                     "            &&& (k.pivot is Some) == key_hasp(flags)\n"
                     "            &&& key_hasp(flags) ==> ({ let p = o + 20 + (if key_has9(flags) { 16int } else { 0 }); (k.pivot->0).0 as int == as_i32(le_u32(d, p)) && (k.pivot->0).1 as int == as_i32(le_u32(d, p + 4)) })\n"
                     "            &&& final(reader).pos() == o + key_len(flags) }),"),
         "hints": [("let slice9 = if", "        assert((flags & 1 != 0) == (flags % 2 == 1)) by (bit_vector);\n        assert((flags & 2 != 0) == ((flags / 2) % 2 == 1)) by (bit_vector);", "before")]},
        {"kind": "struct", "file": "tilemap", "name": "TileBitmaskHeader", "keep": None},
        {"kind": "fn", "file": "tilemap", "name": "parse", "key": "TileBitmaskHeader::parse", "impl_of": "TileBitmaskHeader", "ret": "r", "sig_rewrites": RD,
         "ensures": ("        final(reader).data() == old(reader).data(),\n"
                     "        r is Ok <==> old(reader).pos() + 16 <= old(reader).data().len(),\n"
                     "        r is Ok ==> ({ let d = old(reader).data(); let o = old(reader).pos(); let h = r->Ok_0;\n"
                     "            h.tile_id as int == le_u32(d, o) && h.x_flip as int == le_u32(d, o + 4) && h.y_flip as int == le_u32(d, o + 8)\n"
                     "            && h.rotate_90cw as int == le_u32(d, o + 12) && final(reader).pos() == o + 16 }),")},
        {"kind": "const", "file": "parse", "name": "CHUNK_HEADER_SIZE"},
        {"kind": "fn", "file": "parse", "name": "check_chunk_bytes", "ret": "r", "rules": ["R1", "R6", "R11"],
         "ensures": "        r is Ok <==> (chunk_size >= 6 && chunk_size as int <= bytes_available as int),"},
        {"kind": "fn", "file": "palette", "name": "scale_6bit_to_8bit", "ret": "r", "rules": ["R1", "R6", "R11"],
         "ensures": ("        r is Ok <==> color < 64,\n"
                     "        r is Ok ==> r->Ok_0 as int == 4 * (color as int) + (color as int) / 16,"),
         "hints": [("Ok(color << 2 | color >> 4)", "    assert(color < 64 ==> (color << 2 | color >> 4) == 4 * color + color / 16) by (bit_vector);", "before")]},
    ],
}

UNITS["dec_colorprofile"] = {
    "prelude_sections": ["errors", "reader"],
    "items": [
        {"kind": "enum", "file": "color_profile", "name": "ColorProfileType", "attrs": "#[derive(PartialEq, Eq)]\n"},
        {"kind": "struct", "file": "color_profile", "name": "ColorProfile", "keep": None},
        {"kind": "verbatim", "text": """
/// colour profile chunk 0x2007: type(2) flags(2) gamma(4) reserved(8); supported: type none/sRGB without the fixed-gamma flag
pub open spec fn cp_ok(d: Seq<u8>) -> bool {
    d.len() >= 16 && le_u16(d, 0) <= 1 && (le_u16(d, 2) % 2) == 0
}
"""},
        {"kind": "fn", "file": "color_profile", "name": "parse_color_profile_type", "ret": "r", "rules": ["R1", "R6", "R11"],
         "ensures": ("        r is Ok <==> id <= 2,\n"
                     "        r is Ok ==> (r->Ok_0 == ColorProfileType::None) == (id == 0) && (r->Ok_0 == ColorProfileType::Srgb) == (id == 1) && (r->Ok_0 == ColorProfileType::ICC) == (id == 2),")},
        {"kind": "fn", "file": "color_profile", "name": "parse_chunk", "key": "color_profile::parse_chunk", "ret": "r", "rules": ["R1", "R6", "R11"],
         # `==` through #[derive(PartialEq)] on a field-less enum is structural equality (assumed); Verus has no spec for the derived impl
         "body_rewrites": [("profile_type == ColorProfileType::ICC", "matches!(profile_type, ColorProfileType::ICC)")],
         "ensures": ("        r is Ok <==> cp_ok(data@),\n"
                     "        r is Ok ==> (r->Ok_0.profile_type == ColorProfileType::None) == (le_u16(data@, 0) == 0)\n"
                     "            && (r->Ok_0.profile_type == ColorProfileType::Srgb) == (le_u16(data@, 0) == 1),"),
         "hints": [("let fixed_gamma = if", "    assert((flags & 1 != 0) == (flags % 2 == 1)) by (bit_vector);", "before")]},
    ],
}

UNITS["dec_cel"] = {
    "prelude_sections": ["errors", "arch", "rgba_only", "reader"],
    "items": [
        {"kind": "struct", "file": "user_data", "name": "UserData", "keep": None, "rewrites": [("image::Rgba<u8>", "Rgba<u8>")]},
        {"kind": "enum", "file": "file", "name": "PixelFormat", "attrs": "#[derive(Clone, Copy)]\n"},
        {"kind": "struct", "file": "cel", "name": "CelCommon", "keep": None},
        {"kind": "struct", "file": "cel", "name": "ImageSize", "keep": None, "attrs": "#[derive(Clone, Copy)]\n"},
        {"kind": "struct", "file": "cel", "name": "ImageContent", "keep": None},
        {"kind": "struct", "file": "tilemap", "name": "TileBitmaskHeader", "keep": None},
        {"kind": "verbatim", "text": """
/// decoded pixel / tile payloads: produced by the zlib / raw payload readers, abstract here (Engine X)
#[verifier::external_body]
pub struct RawPixels { _p: core::marker::PhantomData<u8> }
#[verifier::external_body]
pub struct Tiles { _p: core::marker::PhantomData<u8> }
impl Tiles {
    pub uninterp spec fn len(&self) -> int;
    /// tile::Tiles::unzip: the contract that unit `pixel_readers` proves for the real function (restated over this unit's
    /// reader model): 4 * count has to fit a usize; success = exactly the expected number of tiles
    #[verifier::external_body]
    pub fn unzip(reader: AseReader, expected_tile_count: usize, header: &TileBitmaskHeader) -> (r: Result<Tiles>)
        requires 4 * expected_tile_count <= usize::MAX,
        ensures r is Ok ==> r->Ok_0.len() == expected_tile_count,
    { unimplemented!() }
}
"""},
        {"kind": "struct", "file": "tilemap", "name": "TilemapData", "keep": None, "rewrites": [("tile::Tiles", "Tiles")]},
        {"kind": "enum", "file": "cel", "name": "CelContent"},
        {"kind": "struct", "file": "cel", "name": "RawCel", "keep": None, "header": "struct RawCel<P> "},
        {"kind": "fn", "file": "cel", "name": "parse", "key": "CelCommon::parse", "impl_of": "CelCommon", "ret": "r", "sig_rewrites": RD,
         "ensures": ("        final(reader).data() == old(reader).data(),\n"
                     "        r is Ok <==> old(reader).pos() + 7 <= old(reader).data().len(),\n"
                     "        r is Ok ==> ({ let d = old(reader).data(); let o = old(reader).pos(); let c = r->Ok_0;\n"
                     "            c.layer_index as int == le_u16(d, o) && c.x as int == as_i16(le_u16(d, o + 2)) && c.y as int == as_i16(le_u16(d, o + 4))\n"
                     "            && c.opacity == d[o + 6] && final(reader).pos() == o + 7 }),")},
        {"kind": "fn", "file": "tilemap", "name": "parse", "key": "TileBitmaskHeader::parse", "impl_of": "TileBitmaskHeader", "ret": "r", "sig_rewrites": RD,
         "ensures": ("        final(reader).data() == old(reader).data(),\n"
                     "        r is Ok <==> old(reader).pos() + 16 <= old(reader).data().len(),\n"
                     "        r is Ok ==> ({ let d = old(reader).data(); let o = old(reader).pos(); let h = r->Ok_0;\n"
                     "            h.tile_id as int == le_u32(d, o) && h.x_flip as int == le_u32(d, o + 4) && h.y_flip as int == le_u32(d, o + 8)\n"
                     "            && h.rotate_90cw as int == le_u32(d, o + 12) && final(reader).pos() == o + 16 }),")},
        {"kind": "fn", "file": "tilemap", "name": "parse_chunk", "key": "TilemapData::parse_chunk", "impl_of": "TilemapData", "ret": "r", "rules": ["R1", "R6", "R11"],
         "sig_rewrites": RD, "body_rewrites": [("tile::Tiles::unzip", "Tiles::unzip")],
         "ensures": ("        ({ let d = reader.data(); let o = reader.pos();\n"
                     "           &&& (o + 6 <= d.len() && le_u16(d, o + 4) != 32) ==> r is Err       // C15: other than 32 bits per tile is refused\n"
                     "           &&& r is Ok ==> o + 32 <= d.len() && le_u16(d, o + 4) == 32\n"
                     "               && r->Ok_0.width as int == le_u16(d, o) && r->Ok_0.height as int == le_u16(d, o + 2)\n"
                     "               && r->Ok_0.bitmask_header.tile_id as int == le_u32(d, o + 6)\n"
                     "               && r->Ok_0.tiles.len() == (r->Ok_0.width as int) * (r->Ok_0.height as int) }),"),
         "hints": [("let expected_tile_count =", "        assert((width as int) * (height as int) <= 65535 * 65535) by (nonlinear_arith)\n            requires 0 <= (width as int) <= 65535, 0 <= (height as int) <= 65535;", "before")]},
        {"kind": "verbatim", "text": """
pub open spec fn bpp(f: PixelFormat) -> usize { match f { PixelFormat::Rgba => 4usize, PixelFormat::Grayscale => 2usize, PixelFormat::Indexed { .. } => 1usize } }
impl RawPixels {
    /// number of decoded pixels
    pub uninterp spec fn px_len(&self) -> nat;
    /// the contracts that unit `pixel_readers` proves for the real RawPixels::from_raw / from_compressed, restated over this
    /// unit's reader model: they need bpp * count to fit a usize and deliver exactly `expected_pixel_count` pixels
    #[verifier::external_body]
    pub fn from_raw(reader: AseReader, pixel_format: PixelFormat, expected_pixel_count: usize) -> (r: Result<RawPixels>)
        requires bpp(pixel_format) * expected_pixel_count <= usize::MAX,
        ensures r is Ok ==> r->Ok_0.px_len() == expected_pixel_count,
    { unimplemented!() }
    #[verifier::external_body]
    pub fn from_compressed(reader: AseReader, pixel_format: PixelFormat, expected_pixel_count: usize) -> (r: Result<RawPixels>)
        requires bpp(pixel_format) * expected_pixel_count <= usize::MAX,
        ensures r is Ok ==> r->Ok_0.px_len() == expected_pixel_count,
    { unimplemented!() }
}
"""},
        {"kind": "fn", "file": "cel", "name": "parse", "key": "ImageSize::parse", "impl_of": "ImageSize", "ret": "r", "sig_rewrites": RD,
         "ensures": ("        final(reader).data() == old(reader).data(),\n"
                     "        r is Ok <==> old(reader).pos() + 4 <= old(reader).data().len(),\n"
                     "        r is Ok ==> r->Ok_0.width as int == le_u16(old(reader).data(), old(reader).pos()) && r->Ok_0.height as int == le_u16(old(reader).data(), old(reader).pos() + 2)\n"
                     "            && final(reader).pos() == old(reader).pos() + 4,")},
        {"kind": "fn", "file": "cel", "name": "pixel_count", "key": "ImageSize::pixel_count", "impl_of": "ImageSize", "ret": "r",
         "ensures": "        r as int == (self.width as int) * (self.height as int),",
         "prologue": "        assert((self.width as int) * (self.height as int) <= 65535 * 65535) by (nonlinear_arith)\n            requires 0 <= (self.width as int) <= 65535, 0 <= (self.height as int) <= 65535;"},
        {"kind": "fn", "file": "cel", "name": "parse_raw_cel", "ret": "r", "rules": ["R1", "R6", "R11"], "sig_rewrites": [("<R: Read>", ""), ("AseReader<R>", "AseReader")],
         "closures": [{"after": ".map(", "params": "pixels: RawPixels", "ret": "o: ImageContent<RawPixels>", "ensures": "o.size == size && o.pixels == pixels"}],
         "prologue": "        let ghost d = reader.data(); let ghost o0 = reader.pos();",
         "hints": [("let size = ImageSize::parse(&mut reader)?;", "        assert((size.width as int) * (size.height as int) <= 65535 * 65535) by (nonlinear_arith)\n            requires 0 <= (size.width as int) <= 65535, 0 <= (size.height as int) <= 65535;\n"
                    "        assert((bpp(pixel_format) as int) * ((size.width as int) * (size.height as int)) <= 4 * (65535 * 65535)) by (nonlinear_arith)\n"
                    "            requires 1 <= (bpp(pixel_format) as int) <= 4, 0 <= (size.width as int) * (size.height as int) <= 65535 * 65535;", "after")],
         "ensures": ("        // C05: an image cel that loads has exactly width * height pixels (the renderer's row-major index relies on it)\n"
                     "        r is Ok ==> reader.pos() + 4 <= reader.data().len()\n"
                     "            && r->Ok_0.size.width as int == le_u16(reader.data(), reader.pos()) && r->Ok_0.size.height as int == le_u16(reader.data(), reader.pos() + 2)\n"
                     "            && r->Ok_0.pixels.px_len() == (r->Ok_0.size.width as int) * (r->Ok_0.size.height as int),")},
        {"kind": "fn", "file": "cel", "name": "parse_compressed_cel", "ret": "r", "rules": ["R1", "R6", "R11"], "sig_rewrites": [("<R: Read>", ""), ("AseReader<R>", "AseReader")],
         "closures": [{"after": ".map(", "params": "pixels: RawPixels", "ret": "o: ImageContent<RawPixels>", "ensures": "o.size == size && o.pixels == pixels"}],
         "prologue": "        let ghost d = reader.data(); let ghost o0 = reader.pos();",
         "hints": [("let size = ImageSize::parse(&mut reader)?;", "        assert((size.width as int) * (size.height as int) <= 65535 * 65535) by (nonlinear_arith)\n            requires 0 <= (size.width as int) <= 65535, 0 <= (size.height as int) <= 65535;\n"
                    "        assert((bpp(pixel_format) as int) * ((size.width as int) * (size.height as int)) <= 4 * (65535 * 65535)) by (nonlinear_arith)\n"
                    "            requires 1 <= (bpp(pixel_format) as int) <= 4, 0 <= (size.width as int) * (size.height as int) <= 65535 * 65535;", "after")],
         "ensures": ("        // C05: an image cel that loads has exactly width * height pixels (the renderer's row-major index relies on it)\n"
                     "        r is Ok ==> reader.pos() + 4 <= reader.data().len()\n"
                     "            && r->Ok_0.size.width as int == le_u16(reader.data(), reader.pos()) && r->Ok_0.size.height as int == le_u16(reader.data(), reader.pos() + 2)\n"
                     "            && r->Ok_0.pixels.px_len() == (r->Ok_0.size.width as int) * (r->Ok_0.size.height as int),")},
        {"kind": "fn", "file": "cel", "name": "parse", "key": "CelContent::parse", "impl_of": "CelContent", "impl_filter": r"impl\s+CelContent<RawPixels>",
         "impl_header": "CelContent<RawPixels>", "ret": "r", "rules": ["R1", "R6", "R11", "R12"], "sig_rewrites": RD,
         "ensures": ("        ({ let d = reader.data(); let o = reader.pos();\n"
                     "           &&& cel_type > 3 ==> r is Err                                      // C15: unknown cel types are refused\n"
                     "           &&& cel_type == 1 ==> ((r is Ok) == (o + 2 <= d.len())) && (r is Ok ==> r->Ok_0 is Linked && r->Ok_0->Linked_0 as int == le_u16(d, o))\n"
                     "           &&& (cel_type == 0 || cel_type == 2) && r is Ok ==> r->Ok_0 is Raw && r->Ok_0->Raw_0.size.width as int == le_u16(d, o) && r->Ok_0->Raw_0.size.height as int == le_u16(d, o + 2)\n"
                     "               && r->Ok_0->Raw_0.pixels.px_len() == (r->Ok_0->Raw_0.size.width as int) * (r->Ok_0->Raw_0.size.height as int)   // C05: exactly width * height pixels\n"
                     "           &&& cel_type == 3 && r is Ok ==> r->Ok_0 is Tilemap && r->Ok_0->Tilemap_0.width as int == le_u16(d, o) && le_u16(d, o + 4) == 32 }),")},
        {"kind": "fn", "file": "cel", "name": "parse_chunk", "key": "cel::parse_chunk", "ret": "r", "rules": ["R1", "R6", "R11"],
         "ensures": ("        ({ let d = data@;\n"
                     "           &&& r is Ok ==> d.len() >= 16\n"
                     "               && r->Ok_0.data.layer_index as int == le_u16(d, 0) && r->Ok_0.data.x as int == as_i16(le_u16(d, 2)) && r->Ok_0.data.y as int == as_i16(le_u16(d, 4))\n"
                     "               && r->Ok_0.data.opacity == d[6] && r->Ok_0.user_data is None\n"
                     "           &&& d.len() >= 9 && le_u16(d, 7) > 3 ==> r is Err\n"
                     "           &&& d.len() >= 9 && le_u16(d, 7) == 1 ==> ((r is Ok) == (d.len() >= 18)) && (r is Ok ==> r->Ok_0.content is Linked && r->Ok_0.content->Linked_0 as int == le_u16(d, 16))\n"
                     "           &&& r is Ok && (le_u16(d, 7) == 0 || le_u16(d, 7) == 2) ==> r->Ok_0.content is Raw && r->Ok_0.content->Raw_0.size.width as int == le_u16(d, 16)\n"
                     "               && r->Ok_0.content->Raw_0.size.height as int == le_u16(d, 18)\n"
                     "               && r->Ok_0.content->Raw_0.pixels.px_len() == (r->Ok_0.content->Raw_0.size.width as int) * (r->Ok_0.content->Raw_0.size.height as int)\n"
                     "           &&& r is Ok && le_u16(d, 7) == 3 ==> r->Ok_0.content is Tilemap && le_u16(d, 20) == 32 }),")},
    ],
}

UNITS["dec_tileset"] = {
    "prelude_sections": ["errors", "arch", "reader", "std_extra"],
    "items": [
        {"kind": "enum", "file": "file", "name": "PixelFormat", "attrs": "#[derive(Clone, Copy)]\n"},
        {"kind": "fn", "file": "file", "name": "bytes_per_pixel", "impl_of": "PixelFormat", "ret": "r",
         "ensures": "        r == (match *self { PixelFormat::Rgba => 4usize, PixelFormat::Grayscale => 2usize, PixelFormat::Indexed { .. } => 1usize }),"},
        {"kind": "struct", "file": "external_file", "name": "ExternalFileId", "keep": None, "attrs": "#[derive(Clone, Copy, PartialEq, Eq)]\n"},
        {"kind": "fn", "file": "external_file", "name": "new", "key": "ExternalFileId::new", "impl_of": "ExternalFileId", "ret": "r", "ensures": "        r.0 == id,"},
        {"kind": "struct", "file": "tileset", "name": "ExternalTilesetReference", "keep": None},
        {"kind": "struct", "file": "tileset", "name": "TileSize", "keep": None, "attrs": "#[derive(Clone, Copy)]\n"},
        {"kind": "struct", "file": "tileset", "name": "Tileset", "keep": None, "header": "struct Tileset<P> "},
        {"kind": "verbatim", "text": """
/// shim for the bitflags-generated TilesetFlags (TRUSTED): LINKS_EXTERNAL_FILE = 1, FILE_INCLUDES_TILES = 2, EMPTY_TILE_IS_ID_ZERO = 4
#[derive(Clone, Copy)]
pub struct TilesetFlags { pub bits: u32 }
impl TilesetFlags {
    pub const LINKS_EXTERNAL_FILE: TilesetFlags = TilesetFlags { bits: 1 };
    pub const FILE_INCLUDES_TILES: TilesetFlags = TilesetFlags { bits: 2 };
    pub const EMPTY_TILE_IS_ID_ZERO: TilesetFlags = TilesetFlags { bits: 4 };
    #[verifier::external_body]
    pub fn from_bits_truncate(bits: u32) -> (r: TilesetFlags)
        ensures r.bits == bits & 7,
    { unimplemented!() }
    pub fn contains(&self, other: TilesetFlags) -> (r: bool)
        ensures r == ((self.bits & other.bits) == other.bits),
    { (self.bits & other.bits) == other.bits }
}
/// decoded tileset pixels: zlib payload, abstract here (Engine X)
#[verifier::external_body]
pub struct RawPixels { _p: core::marker::PhantomData<u8> }
impl RawPixels {
    /// number of decoded pixels
    pub uninterp spec fn px_len(&self) -> nat;
    /// the contract that unit `pixel_readers` proves for the real RawPixels::from_compressed (restated over this unit's reader
    /// model): bpp * count has to fit a usize (output_size multiplies unchecked); success = exactly the expected pixel count
    #[verifier::external_body]
    pub fn from_compressed(reader: AseReader, pixel_format: PixelFormat, expected_pixel_count: usize) -> (r: Result<RawPixels>)
        requires bpp(pixel_format) * expected_pixel_count <= usize::MAX,
        ensures r is Ok ==> r->Ok_0.px_len() == expected_pixel_count,
    { unimplemented!() }
}
pub open spec fn bpp(f: PixelFormat) -> usize { match f { PixelFormat::Rgba => 4usize, PixelFormat::Grayscale => 2usize, PixelFormat::Indexed { .. } => 1usize } }
/// tileset chunk 0x2023: id(4) flags(4) tile count(4) tile w(2) tile h(2) base index(2) reserved(14) name(STRING)
/// [external file id(4) tileset id(4) if flag 1] [compressed length(4) + zlib pixels if flag 2]
pub open spec fn ts_flag(d: Seq<u8>, bit: int) -> bool { (le_u32(d, 4) / bit) % 2 == 1 }
pub open spec fn ts_head_ok(d: Seq<u8>) -> bool {
    &&& d.len() >= 32 && le_u16(d, 12) >= 1 && le_u16(d, 14) >= 1
    // C05: Tileset::image() is tile height * tile count rows high - that has to be a u32 image dimension
    &&& le_u32(d, 8) * le_u16(d, 14) <= 0xffff_ffff
    &&& str_fits(d, 32) && utf8_ok(str_bytes(d, 32))
    &&& ts_flag(d, 1) ==> str_end(d, 32) + 8 <= d.len()
}
"""},
        {"kind": "fn", "file": "tileset", "name": "parse", "key": "ExternalTilesetReference::parse", "impl_of": "ExternalTilesetReference", "ret": "r",
         "rules": ["R1", "R6", "R11", "R12"], "sig_rewrites": [("<T: Read>", ""), ("AseReader<T>", "AseReader")],
         "ensures": ("        final(reader).data() == old(reader).data(),\n"
                     "        r is Ok <==> old(reader).pos() + 8 <= old(reader).data().len(),\n"
                     "        r is Ok ==> r->Ok_0.external_file_id.0 as int == le_u32(old(reader).data(), old(reader).pos())\n"
                     "            && r->Ok_0.tileset_id as int == le_u32(old(reader).data(), old(reader).pos() + 4) && final(reader).pos() == old(reader).pos() + 8,")},
        {"kind": "fn", "file": "tileset", "name": "parse_chunk", "key": "Tileset::parse_chunk", "impl_of": "Tileset", "impl_filter": r"impl\s+Tileset<RawPixels>",
         "impl_header": "Tileset<RawPixels>", "ret": "r", "rules": ["R1", "R6", "R11", "R12"],
         "body_rewrites": [("RawPixels::from_compressed(reader, pixel_format, expected_pixel_count).map(Some)?", "Some(RawPixels::from_compressed(reader, pixel_format, expected_pixel_count)?)")],
         "closures": [{"after": ".and_then(", "params": "n: usize", "ret": "o: Option<usize>",
                       "ensures": "o is Some ==> o->0 as int == (n as int) * (tile_width as int)"},
                      {"after": ".filter(", "params": "n: &usize", "ret": "keep: bool",
                       "ensures": "keep ==> (*n as int) * (bpp(pixel_format) as int) <= usize::MAX"}],
         "ensures": ("        ({ let d = data@;\n"
                     "           &&& r is Ok ==> ts_head_ok(d)\n"
                     "           &&& !ts_flag(d, 2) ==> ((r is Ok) == ts_head_ok(d))\n"
                     "           &&& r is Ok ==> ({ let t = r->Ok_0;\n"
                     "                &&& t.id as int == le_u32(d, 0) && t.tile_count as int == le_u32(d, 8)\n"
                     "                &&& t.tile_size.width as int == le_u16(d, 12) && t.tile_size.height as int == le_u16(d, 14)\n"
                     "                &&& t.base_index as int == as_i16(le_u16(d, 16))\n"
                     "                &&& t.empty_tile_is_id_zero == ts_flag(d, 4)\n"
                     "                &&& t.name@ == utf8_text(str_bytes(d, 32))\n"
                     "                &&& (t.external_file is Some) == ts_flag(d, 1)\n"
                     "                &&& ts_flag(d, 1) ==> t.external_file->0.external_file_id.0 as int == le_u32(d, str_end(d, 32)) && t.external_file->0.tileset_id as int == le_u32(d, str_end(d, 32) + 4)\n"
                     "                &&& (t.pixels is Some) == ts_flag(d, 2)\n"
                     "                // C05: exactly tile count * tile height * tile width pixels (Tileset::image / tile_image rely on it: unit tileset_image)\n"
                     "                &&& t.pixels is Some ==> t.pixels->0.px_len() == (t.tile_count as int) * (t.tile_size.height as int) * (t.tile_size.width as int) }) }),"),
         "hints": [("let tile_height = reader.word()?;",
                    "        assert((tile_count as int) * (tile_height as int) <= 0xffff_ffff * 0xffff) by (nonlinear_arith)\n"
                    "            requires 0 <= (tile_count as int) <= 0xffff_ffff, 0 <= (tile_height as int) <= 0xffff;", "after"),
                   ("let empty_tile_is_id_zero =", "        let ghost fl = le_u32(data@, 4) as u32;\n"
                    "        assert(flags.bits == fl & 7);\n"
                    "        assert(((fl & 7) & 1 == 1) == ((fl / 1) % 2 == 1)) by (bit_vector);\n"
                    "        assert(((fl & 7) & 2 == 2) == ((fl / 2) % 2 == 1)) by (bit_vector);\n"
                    "        assert(((fl & 7) & 4 == 4) == ((fl / 4) % 2 == 1)) by (bit_vector);", "before")]},
    ],
}

UNITS["dec_palette"] = {
    "prelude_sections": ["errors", "reader", "intmap"],
    "items": [
        {"kind": "struct", "file": "palette", "name": "ColorPaletteEntry", "keep": None},
        {"kind": "struct", "file": "palette", "name": "ColorPalette", "keep": None},
        {"kind": "verbatim", "text": """
/// C11: 6-bit component scaling of the legacy chunk 0x0011
pub open spec fn scale6(c: int) -> int { 4 * c + c / 16 }
/// legacy palette chunks 0x0004 / 0x0011: packets(2); per packet: skip(1) count(1, 0 = 256) then count RGB triples.
/// Offset of packet k and the running entry index ("skip total") before it.
pub open spec fn pk_count(d: Seq<u8>, o: int) -> int { if d[o + 1] == 0 { 256 } else { d[o + 1] as int } }
pub open spec fn pk_off(d: Seq<u8>, k: int) -> int
    decreases k,
{
    if k <= 0 { 2 } else { pk_off(d, k - 1) + 2 + 3 * pk_count(d, pk_off(d, k - 1)) }
}
pub open spec fn pk_skip(d: Seq<u8>, k: int) -> int
    decreases k,
{
    if k <= 0 { 0 } else { pk_skip(d, k - 1) + d[pk_off(d, k - 1)] as int }
}
/// end offset of packet k, and the first colour index it defines (the skip bytes accumulate, the counts do not)
pub open spec fn pk_end(d: Seq<u8>, k: int) -> int { pk_off(d, k) + 2 + 3 * pk_count(d, pk_off(d, k)) }
pub open spec fn pk_start(d: Seq<u8>, k: int) -> int { pk_skip(d, k) + d[pk_off(d, k)] as int }
pub open spec fn old_fits(d: Seq<u8>) -> bool {
    d.len() >= 2 && forall|k: int| 0 <= k < le_u16(d, 0) ==> #[trigger] pk_end(d, k) <= d.len()
}
/// offset of the RGB triple that defines colour i after the first n packets (a later packet overrides an earlier one)
pub open spec fn old_src(d: Seq<u8>, n: int, i: int) -> Option<int>
    decreases n,
{
    if n <= 0 {
        None
    } else if pk_start(d, n - 1) <= i < pk_start(d, n - 1) + pk_count(d, pk_off(d, n - 1)) {
        Some(pk_off(d, n - 1) + 2 + 3 * (i - pk_start(d, n - 1)))
    } else {
        old_src(d, n - 1, i)
    }
}
/// chunk 0x0011 additionally needs every component below 64
pub open spec fn pk_comp(d: Seq<u8>, k: int, j: int) -> u8 { d[pk_off(d, k) + 2 + j] }
pub open spec fn old_6bit(d: Seq<u8>) -> bool {
    forall|k: int, j: int| 0 <= k < le_u16(d, 0) && 0 <= j < 3 * pk_count(d, pk_off(d, k)) ==> #[trigger] pk_comp(d, k, j) < 64
}
pub open spec fn old_entry_ok(e: ColorPaletteEntry, d: Seq<u8>, o: int, i: int, six: bool) -> bool {
    e.id as int == i && e.name is None && e.rgba8@ == (if six {
        seq![scale6(d[o] as int) as u8, scale6(d[o + 1] as int) as u8, scale6(d[o + 2] as int) as u8, 255u8]
    } else {
        seq![d[o], d[o + 1], d[o + 2], 255u8]
    })
}
pub open spec fn old_map_ok(m: Map<u32, ColorPaletteEntry>, d: Seq<u8>, n: int, six: bool) -> bool {
    &&& forall|i: u32| #[trigger] m.contains_key(i) <==> old_src(d, n, i as int) is Some
    &&& forall|i: u32| m.contains_key(i) ==> old_entry_ok(#[trigger] m[i], d, old_src(d, n, i as int)->0, i as int, six)
}
"""},
        {"kind": "fn", "file": "palette", "name": "num_colors", "impl_of": "ColorPalette", "ret": "r"},
        {"kind": "fn", "file": "palette", "name": "color", "impl_of": "ColorPalette", "ret": "r",
         "ensures": "        (r is Some) == self.entries@.contains_key(index), r is Some ==> *(r->0) == self.entries@[index],"},
        {"kind": "fn", "file": "palette", "name": "scale_6bit_to_8bit", "ret": "r", "rules": ["R1", "R6", "R11"],
         "ensures": ("        r is Ok <==> color < 64,\n"
                     "        r is Ok ==> r->Ok_0 as int == scale6(color as int),"),
         "hints": [("Ok(color << 2 | color >> 4)", "    assert(color < 64 ==> (color << 2 | color >> 4) == 4 * color + color / 16) by (bit_vector);", "before")]},
        {"kind": "fn", "file": "palette", "name": "validate_indexed_pixels", "impl_of": "ColorPalette", "ret": "r", "rules": ["R1", "R6", "R11"],
         "body_rewrites": [("for pixel in indexed_pixels {", "for pixel in it: indexed_pixels {")],
         "loops": {1: ("            invariant\n"
                       "                forall|i: int| 0 <= i < it.index@ ==> self.entries@.contains_key(#[trigger] indexed_pixels@[i] as u32),")},
         "ensures": "        r is Ok <==> forall|i: int| 0 <= i < indexed_pixels@.len() ==> self.entries@.contains_key(#[trigger] indexed_pixels@[i] as u32),"},
        {"kind": "verbatim", "text": """
/// new palette chunk 0x2019: size(4) first(4) last(4) reserved(8); per entry: flags(2) rgba(4) [name(STRING) if flag bit 0]
pub open spec fn pe_named(d: Seq<u8>, o: int) -> bool { le_u16(d, o) % 2 == 1 }
pub open spec fn pe_ok(d: Seq<u8>, o: int) -> bool {
    o + 6 <= d.len() && (pe_named(d, o) ==> (str_fits(d, o + 6) && utf8_ok(str_bytes(d, o + 6))))
}
pub open spec fn pe_end(d: Seq<u8>, o: int) -> int { if pe_named(d, o) { str_end(d, o + 6) } else { o + 6 } }
pub open spec fn pe_off(d: Seq<u8>, k: int) -> int
    decreases k,
{
    if k <= 0 { 20 } else { pe_end(d, pe_off(d, k - 1)) }
}
pub open spec fn pal_ok(d: Seq<u8>) -> bool {
    d.len() >= 20 && le_u32(d, 8) >= le_u32(d, 4)
        && forall|j: int| 0 <= j <= le_u32(d, 8) - le_u32(d, 4) ==> pe_ok(d, #[trigger] pe_off(d, j))
}
pub open spec fn pe_matches(e: ColorPaletteEntry, d: Seq<u8>, o: int, id: int) -> bool {
    e.id as int == id && e.rgba8@ == seq![d[o + 2], d[o + 3], d[o + 4], d[o + 5]]
        && (e.name is Some) == pe_named(d, o) && (pe_named(d, o) ==> e.name->0@ == utf8_text(str_bytes(d, o + 6)))
}
"""},
        {"kind": "fn", "file": "palette", "name": "parse_chunk", "key": "palette::parse_chunk", "ret": "r", "rules": ["R1", "R6", "R11"],
         "body_rewrites": [("for id in first_color_index..=last_color_index {", "for id in it: first_color_index..=last_color_index {")],
         "ensures": ("        r is Ok <==> pal_ok(data@),\n"
                     "        r is Ok ==> ({ let first = le_u32(data@, 4); let last = le_u32(data@, 8); let m = r->Ok_0.entries@;\n"
                     "            &&& forall|i: u32| m.contains_key(i) <==> first <= i as int <= last\n"
                     "            &&& forall|i: u32| first <= i as int <= last ==> pe_matches(#[trigger] m[i], data@, pe_off(data@, i as int - first), i as int) }),"),
         "loops": {1: ("        invariant\n"
                       "            reader.data() == data@, data@.len() >= 20, first_color_index as int == le_u32(data@, 4), last_color_index as int == le_u32(data@, 8),\n"
                       "            first_color_index <= last_color_index,\n"
                       "            reader.pos() == pe_off(data@, it.index@ as int), 20 <= reader.pos() <= data@.len(),\n"
                       "            forall|j: int| 0 <= j < it.index@ ==> pe_ok(data@, #[trigger] pe_off(data@, j)),\n"
                       "            forall|i: u32| entries@.contains_key(i) <==> first_color_index <= i && (i as int) < first_color_index + it.index@,\n"
                       "            forall|i: u32| first_color_index <= i && (i as int) < first_color_index + it.index@ ==> pe_matches(#[trigger] entries@[i], data@, pe_off(data@, i as int - first_color_index), i as int),")},
         "loop_begins": {1: "        let ghost o = reader.pos();\n        let ghost k = it.index@ as int;\n        assert(id as int == first_color_index + k);"},
         "hints": [("let name = if", "        assert((flags & 1 == 1) == (flags % 2 == 1)) by (bit_vector);", "before"),
                   ("entries.insert(", "        assert(pe_ok(data@, o));\n        assert(pe_off(data@, k + 1) == pe_end(data@, o));", "before")],
         },
        {"kind": "fn", "file": "palette", "name": "parse_old_chunk_04", "ret": "r", "rules": ["R1", "R6", "R11"],
         "body_rewrites": [("for _ in 0..packet_count {", "for _p in it: 0..packet_count {"), ("for id in skip..count {", "for id in it2: skip..count {"),
                           ("let mut skip = 0;", "let mut skip: u32 = 0;")],
         "ensures": ("        r is Ok <==> old_fits(data@),\n"
                     "        r is Ok ==> old_map_ok(r->Ok_0.entries@, data@, le_u16(data@, 0), false),"),
         "loops": {1: ("        invariant\n"
                       "            reader.data() == data@, data@.len() >= 2, packet_count as int == le_u16(data@, 0),\n"
                       "            reader.pos() == pk_off(data@, it.index@ as int), 2 <= reader.pos() <= data@.len(),\n"
                       "            skip as int == pk_skip(data@, it.index@ as int), 0 <= skip <= 255 * it.index@,\n"
                       "            forall|k: int| 0 <= k < it.index@ ==> #[trigger] pk_end(data@, k) <= data@.len(),\n"
                       + ("            forall|k: int, j: int| 0 <= k < it.index@ && 0 <= j < 3 * pk_count(data@, pk_off(data@, k)) ==> #[trigger] pk_comp(data@, k, j) < 64,\n" if False else "") +
                       "            old_map_ok(entries@, data@, it.index@ as int, false),"),
                   2: ("            invariant\n"
                       "                reader.data() == data@, data@.len() >= 2, packet_count as int == le_u16(data@, 0), 0 <= kk < packet_count,\n"
                       "                o0 == pk_off(data@, kk), 2 <= o0, o0 + 2 <= data@.len(),\n"
                       "                skip as int == pk_start(data@, kk), count as int == skip + pk_count(data@, o0), 0 <= skip <= 255 * (kk + 1),\n"
                       "                pk_end(data@, kk) == o0 + 2 + 3 * (count - skip),\n"
                       "                reader.pos() == o0 + 2 + 3 * it2.index@, reader.pos() <= data@.len(),\n"
                       "                forall|k: int| 0 <= k < kk ==> #[trigger] pk_end(data@, k) <= data@.len(),\n"
                       + ("                forall|k: int, j: int| 0 <= k < kk && 0 <= j < 3 * pk_count(data@, pk_off(data@, k)) ==> #[trigger] pk_comp(data@, k, j) < 64,\n"
                          "                forall|j: int| 0 <= j < 3 * it2.index@ ==> #[trigger] pk_comp(data@, kk, j) < 64,\n" if False else "") +
                       "                forall|i: u32| #[trigger] entries@.contains_key(i) <==> ((skip <= i && (i as int) < skip + it2.index@) || old_src(data@, kk, i as int) is Some),\n"
                       "                forall|i: u32| entries@.contains_key(i) ==> old_entry_ok(#[trigger] entries@[i], data@,\n"
                       "                    if skip <= i && (i as int) < skip + it2.index@ { o0 + 2 + 3 * (i - skip) } else { old_src(data@, kk, i as int)->0 }, i as int, false),")},
         "loop_begins": {1: ("        let ghost kk = it.index@ as int;\n        let ghost o0 = reader.pos();\n"
                             "        assert(pk_end(data@, kk) >= o0 + 5);")},
         "hints": [("let red =", "            let ghost jj = it2.index@ as int;\n            assert(id as int == skip + jj);\n"
                    "            assert(pk_comp(data@, kk, 3 * jj) == data@[reader.pos()] && pk_comp(data@, kk, 3 * jj + 1) == data@[reader.pos() + 1] && pk_comp(data@, kk, 3 * jj + 2) == data@[reader.pos() + 2]);\n"
                    "            assert(0 <= 3 * jj && 3 * jj + 2 < 3 * pk_count(data@, pk_off(data@, kk)));", "before")],
         "loop_ends": {1: ("        proof {\n"
                           "            assert(pk_off(data@, kk + 1) == pk_end(data@, kk));\n"
                           "            assert(pk_skip(data@, kk + 1) == pk_start(data@, kk));\n"
                           "            assert forall|i: u32| #[trigger] entries@.contains_key(i) <==> old_src(data@, kk + 1, i as int) is Some by {}\n"
                           "        }")}},
        {"kind": "fn", "file": "palette", "name": "parse_old_chunk_11", "ret": "r", "rules": ["R1", "R6", "R11"],
         "body_rewrites": [("for _ in 0..packet_count {", "for _p in it: 0..packet_count {"), ("for id in skip..count {", "for id in it2: skip..count {"),
                           ("let mut skip = 0;", "let mut skip: u32 = 0;")],
         "ensures": ("        r is Ok <==> old_fits(data@) && old_6bit(data@),\n"
                     "        r is Ok ==> old_map_ok(r->Ok_0.entries@, data@, le_u16(data@, 0), true),"),
         "loops": {1: ("        invariant\n"
                       "            reader.data() == data@, data@.len() >= 2, packet_count as int == le_u16(data@, 0),\n"
                       "            reader.pos() == pk_off(data@, it.index@ as int), 2 <= reader.pos() <= data@.len(),\n"
                       "            skip as int == pk_skip(data@, it.index@ as int), 0 <= skip <= 255 * it.index@,\n"
                       "            forall|k: int| 0 <= k < it.index@ ==> #[trigger] pk_end(data@, k) <= data@.len(),\n"
                       + ("            forall|k: int, j: int| 0 <= k < it.index@ && 0 <= j < 3 * pk_count(data@, pk_off(data@, k)) ==> #[trigger] pk_comp(data@, k, j) < 64,\n" if True else "") +
                       "            old_map_ok(entries@, data@, it.index@ as int, true),"),
                   2: ("            invariant\n"
                       "                reader.data() == data@, data@.len() >= 2, packet_count as int == le_u16(data@, 0), 0 <= kk < packet_count,\n"
                       "                o0 == pk_off(data@, kk), 2 <= o0, o0 + 2 <= data@.len(),\n"
                       "                skip as int == pk_start(data@, kk), count as int == skip + pk_count(data@, o0), 0 <= skip <= 255 * (kk + 1),\n"
                       "                pk_end(data@, kk) == o0 + 2 + 3 * (count - skip),\n"
                       "                reader.pos() == o0 + 2 + 3 * it2.index@, reader.pos() <= data@.len(),\n"
                       "                forall|k: int| 0 <= k < kk ==> #[trigger] pk_end(data@, k) <= data@.len(),\n"
                       + ("                forall|k: int, j: int| 0 <= k < kk && 0 <= j < 3 * pk_count(data@, pk_off(data@, k)) ==> #[trigger] pk_comp(data@, k, j) < 64,\n"
                          "                forall|j: int| 0 <= j < 3 * it2.index@ ==> #[trigger] pk_comp(data@, kk, j) < 64,\n" if True else "") +
                       "                forall|i: u32| #[trigger] entries@.contains_key(i) <==> ((skip <= i && (i as int) < skip + it2.index@) || old_src(data@, kk, i as int) is Some),\n"
                       "                forall|i: u32| entries@.contains_key(i) ==> old_entry_ok(#[trigger] entries@[i], data@,\n"
                       "                    if skip <= i && (i as int) < skip + it2.index@ { o0 + 2 + 3 * (i - skip) } else { old_src(data@, kk, i as int)->0 }, i as int, true),")},
         "loop_begins": {1: ("        let ghost kk = it.index@ as int;\n        let ghost o0 = reader.pos();\n"
                             "        assert(pk_end(data@, kk) >= o0 + 5);")},
         "hints": [("let red =", "            let ghost jj = it2.index@ as int;\n            assert(id as int == skip + jj);\n"
                    "            assert(pk_comp(data@, kk, 3 * jj) == data@[reader.pos()] && pk_comp(data@, kk, 3 * jj + 1) == data@[reader.pos() + 1] && pk_comp(data@, kk, 3 * jj + 2) == data@[reader.pos() + 2]);\n"
                    "            assert(0 <= 3 * jj && 3 * jj + 2 < 3 * pk_count(data@, pk_off(data@, kk)));", "before")],
         "loop_ends": {1: ("        proof {\n"
                           "            assert(pk_off(data@, kk + 1) == pk_end(data@, kk));\n"
                           "            assert(pk_skip(data@, kk + 1) == pk_start(data@, kk));\n"
                           "            assert forall|i: u32| #[trigger] entries@.contains_key(i) <==> old_src(data@, kk + 1, i as int) is Some by {}\n"
                           "        }")}},
    ],
}

# ------------------------------------------------------------------------------------------------
# read_aseprite: the 128-byte file header, the pixel-ratio / colour-depth refusals and the frame loop (C01, C15)
# ------------------------------------------------------------------------------------------------
UNITS["header"] = {
    "prelude_sections": ["errors", "reader"],
    "items": [
        {"kind": "enum", "file": "file", "name": "PixelFormat", "attrs": "#[derive(Clone, Copy, PartialEq, Eq)]\n"},
        {"kind": "verbatim", "text": """
#[verifier::external_body] pub struct ColorPalette { _p: core::marker::PhantomData<u8> }
#[verifier::external_body] pub struct LayersData { _p: core::marker::PhantomData<u8> }
#[verifier::external_body] pub struct TilesetsById { _p: core::marker::PhantomData<u8> }
#[verifier::external_body] pub struct CelsDataP { _p: core::marker::PhantomData<u8> }
#[verifier::external_body] pub struct ExternalFilesById { _p: core::marker::PhantomData<u8> }
#[verifier::external_body] pub struct Tag { _p: core::marker::PhantomData<u8> }
#[verifier::external_body] pub struct UserData { _p: core::marker::PhantomData<u8> }
#[verifier::external_body] pub struct Slice { _p: core::marker::PhantomData<u8> }
"""},
        {"kind": "struct", "file": "parse", "name": "ValidatedParseInfo", "keep": None,
         "rewrites": [("layer::LayersData", "LayersData"), ("cel::CelsData<Pixels>", "CelsDataP"), ("Arc<palette::ColorPalette>", "Arc<ColorPalette>")]},
        {"kind": "struct", "file": "file", "name": "AsepriteFile", "keep": None,
         "rewrites": [("CelsData<Pixels>", "CelsDataP"), ("Arc<ColorPalette>", "Arc<ColorPalette>")]},
        {"kind": "verbatim", "text": """
/// parser state: abstract here; `new` / `validate` / `parse_frame` under the parts of their contracts this function needs
#[verifier::external_body] pub struct ParseInfo { _p: core::marker::PhantomData<u8> }
impl ParseInfo {
    /// number of frame slots (frame_times.len() == cel table rows)
    pub uninterp spec fn nframes(&self) -> int;
    #[verifier::external_body]
    fn new(num_frames: u16, default_frame_time: u16) -> (r: ParseInfo)
        ensures r.nframes() == num_frames,
    { unimplemented!() }
    #[verifier::external_body]
    fn validate(self, pixel_format: &PixelFormat) -> (r: Result<ValidatedParseInfo>)
        ensures r is Ok ==> r->Ok_0.frame_times@.len() == self.nframes(),
    { unimplemented!() }
}
/// parse_frame under the precondition that unit `userdata` proves it needs (a slot for this frame exists)
#[verifier::external_body]
fn parse_frame(reader: &mut AseReader, frame_id: u16, pixel_format: PixelFormat, parse_info: &mut ParseInfo) -> (r: Result<()>)
    requires (frame_id as int) < old(parse_info).nframes(),
    ensures final(parse_info).nframes() == old(parse_info).nframes(), final(reader).data() == old(reader).data(),
{ unimplemented!() }

/// file header (128 bytes): size(4) magic(2)=0xA5E0 frames(2) width(2) height(2) depth(2) flags(4) speed(2) 0(4) 0(4)
/// transparent index(1) ignore(3) colours(2) pixel w(1) pixel h(1) grid(8) reserved(84)
pub open spec fn depth_ok(depth: int) -> bool { depth == 8 || depth == 16 || depth == 32 }
pub open spec fn fmt_spec(depth: int, ti: u8) -> PixelFormat {
    if depth == 8 { PixelFormat::Indexed { transparent_color_index: ti } } else if depth == 16 { PixelFormat::Grayscale } else { PixelFormat::Rgba }
}
pub open spec fn ratio_ok(pw: u8, ph: u8) -> bool { pw == 0 || ph == 0 || (pw == 1 && ph == 1) }
"""},
        {"kind": "fn", "file": "parse", "name": "parse_pixel_format", "ret": "r", "rules": ["R1", "R6", "R11"],
         "ensures": "        r is Ok <==> depth_ok(color_depth as int),\n        r is Ok ==> r->Ok_0 == fmt_spec(color_depth as int, transparent_color_index),"},
        {"kind": "fn", "file": "parse", "name": "read_aseprite", "ret": "r", "rules": ["R1", "R6", "R11"],
         "sig_rewrites": [("<R: Read>", ""), ("input: R", "input: AseReader")],
         "body_rewrites": [("let mut reader = AseReader::with(input);", "let mut reader = input;")],
         "requires": "        input.pos() == 0,",
         "ensures": ("        ({ let d = input.data();\n"
                     "           &&& r is Ok ==> d.len() >= 128 && le_u16(d, 4) == 0xA5E0 && ratio_ok(d[34], d[35]) && depth_ok(le_u16(d, 12))\n"
                     "           &&& r is Ok ==> ({ let f = r->Ok_0;\n"
                     "                &&& f.num_frames as int == le_u16(d, 6) && f.width as int == le_u16(d, 8) && f.height as int == le_u16(d, 10)\n"
                     "                &&& f.pixel_format == fmt_spec(le_u16(d, 12), d[28])\n"
                     "                &&& f.frame_times@.len() == f.num_frames })\n"
                     "           // C15: a pixel aspect ratio other than 1:1 and unknown colour depths are refused\n"
                     "           &&& d.len() >= 128 && !ratio_ok(d[34], d[35]) ==> r is Err\n"
                     "           &&& d.len() >= 128 && !depth_ok(le_u16(d, 12)) ==> r is Err }),"),
         "loops": {1: ("        invariant\n"
                       "            parse_info.nframes() == num_frames, reader.data() == input.data(),")}},
    ],
}

# ------------------------------------------------------------------------------------------------
# pixel conversion rules (C06) and the palette completeness check at validation (C11)
# ------------------------------------------------------------------------------------------------
UNITS["pixels"] = {
    "prelude_sections": ["errors", "rgba_only", "intmap"],
    "items": [
        {"kind": "struct", "file": "palette", "name": "ColorPaletteEntry", "keep": None},
        {"kind": "struct", "file": "palette", "name": "ColorPalette", "keep": None},
        {"kind": "fn", "file": "palette", "name": "color", "impl_of": "ColorPalette", "ret": "r",
         "ensures": "        (r is Some) == self.entries@.contains_key(index), r is Some ==> *(r->0) == self.entries@[index],"},
        {"kind": "fn", "file": "palette", "name": "id", "key": "ColorPaletteEntry::id", "impl_of": "ColorPaletteEntry", "ret": "r", "ensures": "        r == self.id,"},
        {"kind": "fn", "file": "palette", "name": "raw_rgba8", "impl_of": "ColorPaletteEntry", "ret": "r", "ensures": "        r == self.rgba8,"},
        {"kind": "fn", "file": "palette", "name": "red", "impl_of": "ColorPaletteEntry", "ret": "r", "ensures": "        r == self.rgba8@[0],"},
        {"kind": "fn", "file": "palette", "name": "green", "impl_of": "ColorPaletteEntry", "ret": "r", "ensures": "        r == self.rgba8@[1],"},
        {"kind": "fn", "file": "palette", "name": "blue", "impl_of": "ColorPaletteEntry", "ret": "r", "ensures": "        r == self.rgba8@[2],"},
        {"kind": "fn", "file": "palette", "name": "alpha", "impl_of": "ColorPaletteEntry", "ret": "r", "ensures": "        r == self.rgba8@[3],"},
        {"kind": "struct", "file": "pixel", "name": "Grayscale", "keep": None, "attrs": "#[derive(Clone, Copy)]\n"},
        {"kind": "fn", "file": "pixel", "name": "into_rgba", "impl_of": "Grayscale", "ret": "r",
         "ensures": "        r.0@ == seq![self.value, self.value, self.value, self.alpha],"},
        {"kind": "struct", "file": "pixel", "name": "Indexed", "keep": None, "attrs": "#[derive(Clone, Copy)]\n"},
        {"kind": "fn", "file": "pixel", "name": "as_rgba", "impl_of": "Indexed", "ret": "r",
         # closure contract spliced onto the real closure (annotation only, like a loop invariant)
         "closures": [{"after": ".map(", "params": "c: &ColorPaletteEntry", "ret": "out: Rgba<u8>",
                       "ensures": "out.0@ == seq![c.rgba8@[0], c.rgba8@[1], c.rgba8@[2], if transparent_color_index == index && !layer_is_background { 0u8 } else { c.rgba8@[3] }]"}],
         "ensures": ("        (r is Some) == palette.entries@.contains_key(self.0 as u32),\n"
                     "        r is Some ==> ({ let e = palette.entries@[self.0 as u32];\n"
                     "            (r->0).0@ == seq![e.rgba8@[0], e.rgba8@[1], e.rgba8@[2], if transparent_color_index == self.0 && !layer_is_background { 0u8 } else { e.rgba8@[3] }] }),")},
        {"kind": "enum", "file": "file", "name": "PixelFormat", "attrs": "#[derive(Clone, Copy, PartialEq, Eq)]\n"},
        {"kind": "enum", "file": "pixel", "name": "RawPixels"},
        {"kind": "enum", "file": "pixel", "name": "Pixels"},
        {"kind": "fn", "file": "palette", "name": "validate_indexed_pixels", "impl_of": "ColorPalette", "ret": "r", "rules": ["R1", "R6", "R11"],
         "body_rewrites": [("for pixel in indexed_pixels {", "for pixel in it: indexed_pixels {")],
         "loops": {1: ("            invariant\n"
                       "                forall|i: int| 0 <= i < it.index@ ==> self.entries@.contains_key(#[trigger] indexed_pixels@[i] as u32),")},
         "ensures": "        r is Ok <==> forall|i: int| 0 <= i < indexed_pixels@.len() ==> self.entries@.contains_key(#[trigger] indexed_pixels@[i] as u32),"},
        {"kind": "fn", "file": "pixel", "name": "validate", "key": "RawPixels::validate", "impl_of": "RawPixels", "ret": "r", "rules": ["R1", "R6", "R11"],
         "ensures": ("        match self {\n"
                     "            RawPixels::Rgba(data) => r is Ok && r->Ok_0 is Rgba && r->Ok_0->Rgba_0@ == data@,\n"
                     "            RawPixels::Grayscale(data) => r is Ok && r->Ok_0 is Grayscale && r->Ok_0->Grayscale_0@ == data@,\n"
                     "            RawPixels::Indexed(data) => {\n"
                     "                // C11: an indexed sprite with pixels needs a palette that contains EVERY pixel index\n"
                     "                &&& r is Ok <==> (palette is Some && pixel_format is Indexed\n"
                     "                        && forall|i: int| 0 <= i < data@.len() ==> (*palette->0).entries@.contains_key(#[trigger] data@[i] as u32))\n"
                     "                &&& r is Ok ==> r->Ok_0 is Indexed && r->Ok_0->Indexed_data@ == data@ && r->Ok_0->Indexed_layer_is_background == layer_is_background && r->Ok_0->Indexed_palette == palette->0\n"
                     "                        && r->Ok_0->Indexed_transparent_color_index == pixel_format->Indexed_transparent_color_index\n"
                     "            },\n"
                     "        },")},
    ],
}

# ------------------------------------------------------------------------------------------------
# Compositing glue (C02, C09, C19, C05): AsepriteFile::frame_image / write_cel / layer_image on the real text,
# over the contracts of the two rasterisers (re-verified in this file) and Layer::is_visible
# ------------------------------------------------------------------------------------------------
def _compose_items():
    tm = []
    for it in UNITS["tilemap"]["items"]:
        it = dict(it)
        if it.get("kind") == "struct" and it.get("name") == "Tileset":
            it["keep"] = ["tile_size", "pixels"]
            it["rewrites"] = [("Option<P>", "Option<Pixels>")]
        tm.append(it)
    raw = [it for it in UNITS["raster_raw"]["items"] if not (it.get("kind") == "struct" and it.get("name") == "CelCommon")]
    vis = [it for it in UNITS["visible"]["items"] if it.get("kind") == "fn" and it["name"] == "is_visible"]
    return tm, raw, vis
_TM, _RAW, _VIS = _compose_items()
CANVAS = "old(image).w() <= 65535, old(image).h() <= 65535,"
UNITS["compose"] = {
    "prelude_sections": ["arch", "image", "tilemap_spec", "tilemap_raster_spec", "compose_shims", "raster_spec", "layer_flags", "forest", "btreemap_shim", "compose_spec"],
    "items": _TM + _RAW + [
        {"kind": "enum", "file": "layer", "name": "LayerType", "attrs": "#[derive(Clone, Copy)]\n"},
        {"kind": "struct", "file": "layer", "name": "LayerData", "keep": ["flags", "child_level", "blend_mode", "opacity", "layer_type"]},
        {"kind": "struct", "file": "layer", "name": "LayersData", "keep": ["layers", "parents"]},
        {"kind": "index_impl_check", "file": "layer", "type": "LayersData", "body": "{&self.layers[index as usize]}"},
        {"kind": "struct", "file": "cel", "name": "CelId", "keep": None, "attrs": "#[derive(Clone, Copy)]\n"},
        {"kind": "struct", "file": "cel", "name": "ImageContent", "keep": None, "header": "struct ImageContent ", "rewrites": [("pub pixels: P", "pub pixels: Pixels")]},
        {"kind": "enum", "file": "cel", "name": "CelContent", "rewrites": [("enum CelContent<P>", "enum CelContent"), ("ImageContent<P>", "ImageContent")]},
        {"kind": "struct", "file": "cel", "name": "RawCel", "keep": ["data", "content"], "header": "struct RawCel ", "rewrites": [("CelContent<P>", "CelContent")]},
        {"kind": "struct", "file": "cel", "name": "CelsData", "keep": ["data", "num_frames"], "header": "struct CelsData ", "rewrites": [("RawCel<P>", "RawCel")]},
        {"kind": "struct", "file": "file", "name": "AsepriteFile", "keep": ["width", "height", "num_frames", "layers", "framedata", "tilesets"], "rewrites": [("CelsData<Pixels>", "CelsData")]},
        {"kind": "struct", "file": "layer", "name": "Layer", "keep": None},
    ] + _VIS + [
        {"kind": "fn", "file": "layer", "name": "data", "impl_of": "Layer", "impl_header": "<'a> Layer<'a>", "ret": "r",
         "requires": "        (self.layer_id as int) < self.file.layers.layers.len(),",
         "ensures": "        *r == self.file.layers.layers[self.layer_id as int],",
         "rules": ["R1", "R6", "R8"]},
        {"kind": "fn", "file": "layer", "name": "blend_mode", "impl_of": "Layer", "impl_header": "<'a> Layer<'a>", "ret": "r",
         "requires": "        (self.layer_id as int) < self.file.layers.layers.len(),",
         "ensures": "        r == self.file.layers.layers[self.layer_id as int].blend_mode,"},
        {"kind": "fn", "file": "layer", "name": "opacity", "impl_of": "Layer", "impl_header": "<'a> Layer<'a>", "ret": "r",
         "requires": "        (self.layer_id as int) < self.file.layers.layers.len(),",
         "ensures": "        r == self.file.layers.layers[self.layer_id as int].opacity,"},
        {"kind": "fn", "file": "layer", "name": "layer_type", "impl_of": "Layer", "impl_header": "<'a> Layer<'a>", "ret": "r",
         "requires": "        (self.layer_id as int) < self.file.layers.layers.len(),",
         "ensures": "        r == self.file.layers.layers[self.layer_id as int].layer_type,"},
        {"kind": "fn", "file": "cel", "name": "cel", "key": "CelsData::cel", "impl_of": "CelsData", "impl_filter": r"impl<P>\s+CelsData<P>", "impl_header": "CelsData", "ret": "r",
         "sig_rewrites": [("RawCel<P>", "RawCel")],
         "requires": "        (cel_id.frame as int) < self.data.len(),",
         "ensures": ("        (r is Some) == (self.at(cel_id.frame as int, cel_id.layer as int) is Some),\n"
                     "        r is Some ==> *(r->0) == self.at(cel_id.frame as int, cel_id.layer as int)->0,")},
        {"kind": "fn", "file": "file", "name": "num_layers", "impl_of": "AsepriteFile", "ret": "r",
         "requires": "        self.layers.layers.len() <= 65536,", "ensures": "        r as int == self.layers.layers.len(),"},
        {"kind": "fn", "file": "file", "name": "layer", "key": "AsepriteFile::layer", "impl_of": "AsepriteFile", "ret": "r",
         "requires": "        self.layers.layers.len() <= 65536, (id as int) < self.layers.layers.len(),",
         "ensures": "        r.layer_id == id, r.file == self,"},
        {"kind": "fn", "file": "file", "name": "tilesets", "impl_of": "AsepriteFile", "ret": "r", "ensures": "        r == &self.tilesets,"},
        {"kind": "fn", "file": "file", "name": "write_cel", "impl_of": "AsepriteFile", "rules": ["R1", "R6", "R14", "R15"],
         "sig_rewrites": [("RawCel<Pixels>", "RawCel")],
         "requires": ("        file_ok(self), cel_ok(self, cel), " + CANVAS),
         "ensures": ("        final(image).w() == old(image).w(), final(image).h() == old(image).h(),\n"
                     "        forall|cx: int, cy: int| 0 <= cx < old(image).w() && 0 <= cy < old(image).h() ==>\n"
                     "            #[trigger] final(image).at(cx, cy) == cel_px(self, cel, old(image).at(cx, cy), cx, cy),"),
         "decreases": "(if cel.content is Linked { 1int } else { 0int })"},
        {"kind": "fn", "file": "file", "name": "layer_image", "impl_of": "AsepriteFile", "ret": "r",
         "requires": "        file_ok(self), (cel_id.frame as int) < self.framedata.data.len(),",
         "ensures": ("        r.w() == self.width, r.h() == self.height,\n"
                     "        forall|cx: int, cy: int| 0 <= cx < r.w() && 0 <= cy < r.h() ==>\n"
                     "            #[trigger] r.at(cx, cy) == (match self.framedata.at(cel_id.frame as int, cel_id.layer as int) {\n"
                     "                Some(c) => cel_px(self, &c, Rgba([0u8, 0u8, 0u8, 0u8]), cx, cy),\n"
                     "                None => Rgba([0u8, 0u8, 0u8, 0u8]),\n"
                     "            }),")},
        {"kind": "fn", "file": "file", "name": "frame_image", "impl_of": "AsepriteFile", "ret": "r", "rules": ["R1", "R2", "R6", "R8"],
         "requires": "        file_ok(self), (frame as int) < self.framedata.data.len(),",
         "ensures": ("        r.w() == self.width, r.h() == self.height,\n"
                     "        forall|cx: int, cy: int| 0 <= cx < r.w() && 0 <= cy < r.h() ==>\n"
                     "            #[trigger] r.at(cx, cy) == frame_px(self, cels_of(self.framedata.data[frame as int]@), cels_of(self.framedata.data[frame as int]@).len() as int, cx, cy),"),
         "body_rewrites": [("for (layer_id, cel) in self.framedata.frame_cels(frame)", "for (layer_id, cel) in it: self.framedata.frame_cels(frame)")],
         "hints": [("for (layer_id, cel) in", "        proof { lemma_cels_of(self.framedata.data[frame as int]@); }", "before")],
         "loop_begins": {1: ("            proof {\n"
                    "                let k = it.index@ as int;\n"
                    "                let e = cels_of(self.framedata.data[frame as int]@)[k];\n"
                    "                assert(it.snapshot@.remaining()[k].0 == e.0 && *it.snapshot@.remaining()[k].1 == e.1);\n"
                    "                assert(layer_id == e.0 && *cel == e.1);\n"
                    "                assert(self.framedata.at(frame as int, e.0 as int) == Some(e.1));\n"
                    "            }")},
         "loops": {1: ("            invariant\n"
                       "                file_ok(self), (frame as int) < self.framedata.data.len(),\n"
                       "                image.w() == self.width, image.h() == self.height,\n"
                       "                fc_matches(it.snapshot@.remaining(), cels_of(self.framedata.data[frame as int]@)),\n"
                       "                forall|k: int| 0 <= k < cels_of(self.framedata.data[frame as int]@).len() ==> {\n"
                       "                    let e = #[trigger] cels_of(self.framedata.data[frame as int]@)[k];\n"
                       "                    0 <= (e.0 as int) <= 65535 && self.framedata.data[frame as int]@.contains_key(e.0 as u16) && self.framedata.data[frame as int]@[e.0 as u16] == e.1\n"
                       "                },\n"
                       "                forall|cx: int, cy: int| 0 <= cx < image.w() && 0 <= cy < image.h() ==>\n"
                       "                    #[trigger] image.at(cx, cy) == frame_px(self, cels_of(self.framedata.data[frame as int]@), it.index@ as int, cx, cy),")}},
        {"kind": "verbatim", "fn_name": "single_visible_layer_frame_is_the_cel_image", "text": """
/// C19 as a lemma over the contracts of frame_image and layer_image (a CLIENT written here, calling the extracted real
/// functions): if exactly one cel of frame fr - the k0-th in layer order, in layer l - belongs to a visible layer, the
/// frame image equals that cel's image, pixel for pixel.
fn single_visible_layer_frame_is_the_cel_image(f: &AsepriteFile, fr: u16, l: u16, Ghost(k0): Ghost<int>)
    requires file_ok(f), (fr as int) < f.framedata.data.len(),
        0 <= k0 < cels_of(f.framedata.data[fr as int]@).len(), cels_of(f.framedata.data[fr as int]@)[k0].0 == l as u32,
        forall|j: int| 0 <= j < cels_of(f.framedata.data[fr as int]@).len() ==>
            (spec_visible(f.layers.layers@, f.layers.parents@, (#[trigger] cels_of(f.framedata.data[fr as int]@)[j]).0 as int) <==> j == k0),
{
    let frame_img = f.frame_image(fr);
    let cel_img = f.layer_image(CelId { frame: fr, layer: l });
    proof {
        let cels = cels_of(f.framedata.data[fr as int]@);
        lemma_cels_of(f.framedata.data[fr as int]@);
        assert(f.framedata.at(fr as int, l as int) == Some(cels[k0].1));
        assert forall|cx: int, cy: int| 0 <= cx < frame_img.w() && 0 <= cy < frame_img.h() implies #[trigger] frame_img.at(cx, cy) == cel_img.at(cx, cy) by {
            lemma_single_visible(f, cels, cels.len() as int, k0, cx, cy);
        }
        assert(frame_img.w() == cel_img.w() && frame_img.h() == cel_img.h());
    }
}
"""},
    ],
}


# ------------------------------------------------------------------------------------------------
# Validation stage (C05): what a successful load establishes for the renderer (R-pre), on the real text
# ------------------------------------------------------------------------------------------------
RAWPIX_OK = ("match {src} {{\n"
             "            RawPixels::Rgba(data) => {dst} is Rgba && {dst}->Rgba_0@ == data@,\n"
             "            RawPixels::Grayscale(data) => {dst} is Grayscale && {dst}->Grayscale_0@ == data@,\n"
             "            RawPixels::Indexed(data) => {dst} is Indexed && {dst}->Indexed_data@ == data@\n"
             "                && forall|i: int| 0 <= i < data@.len() ==> (*{dst}->Indexed_palette).entries@.contains_key(#[trigger] data@[i] as u32),\n"
             "        }}")
CTX = ("self.data@.len() == self.num_frames as int, self.num_frames <= 65535, num_frames == self.num_frames, num_layers == layers.layers@.len(), num_layers < 0x1_0000_0000,\n")
VREF = ("                forall|id: CelId| (id.layer as int) < num_layers ==> #[trigger] validate_ref.requires((id,)),\n"
        "                forall|id: CelId, res: Result<()>| #[trigger] validate_ref.ensures((id,), res) ==> (res is Ok <==> ((id.frame as int) < num_frames && linkable(&self, id.frame as int, id.layer as int))),\n")
ROWS_DONE = ("                forall|f: int| 0 <= f < {n} ==> row_ok(&self, self.data@[f]@, (#[trigger] result.data@[f])@, layers, tilesets),\n")
UNITS["validate"] = {
    "prelude_sections": ["arch", "errors", "rgba_only", "intmap", "layer_flags", "validate_shims", "btreemap_shim", "validate_spec"],
    "items": [it for it in UNITS["pixels"]["items"]] + [
        {"kind": "struct", "file": "cel", "name": "CelId", "keep": None, "attrs": "#[derive(Clone, Copy)]\n"},
        {"kind": "struct", "file": "cel", "name": "CelCommon", "keep": None},
        {"kind": "struct", "file": "cel", "name": "ImageSize", "keep": None, "attrs": "#[derive(Clone, Copy)]\n"},
        {"kind": "struct", "file": "tile", "name": "TileId", "keep": None, "attrs": "#[derive(Clone, Copy)]\n"},
        {"kind": "struct", "file": "tile", "name": "Tile", "keep": None},
        {"kind": "struct", "file": "tile", "name": "Tiles", "keep": None},
        {"kind": "struct", "file": "tilemap", "name": "TilemapData", "keep": ["width", "height", "tiles"], "rewrites": [("tile::Tiles", "Tiles")]},
        {"kind": "struct", "file": "tileset", "name": "Tileset", "keep": ["id", "tile_count", "pixels"]},
        {"kind": "enum", "file": "layer", "name": "LayerType", "attrs": "#[derive(Clone, Copy)]\n"},
        {"kind": "struct", "file": "layer", "name": "LayerData", "keep": ["flags", "layer_type"]},
        {"kind": "struct", "file": "layer", "name": "LayersData", "keep": ["layers"]},
        {"kind": "index_impl_check", "file": "layer", "type": "LayersData", "body": "{&self.layers[index as usize]}"},
        {"kind": "struct", "file": "cel", "name": "ImageContent", "keep": None},
        {"kind": "enum", "file": "cel", "name": "CelContent"},
        {"kind": "struct", "file": "user_data", "name": "UserData", "keep": None, "rewrites": [("image::Rgba<u8>", "Rgba<u8>")]},
        {"kind": "struct", "file": "cel", "name": "RawCel", "keep": ["data", "content", "user_data"]},
        {"kind": "fn", "file": "layer", "name": "is_background", "impl_of": "LayerData", "ret": "r",
         "ensures": "        r == ((self.flags.bits & 8u32) == 8u32),"},
        {"kind": "fn", "file": "tileset", "name": "tile_count", "impl_of": "Tileset", "impl_filter": r"impl<P>\s+Tileset<P>", "impl_header": "<P> Tileset<P>", "ret": "r",
         "ensures": "        r == self.tile_count,"},
        {"kind": "fn", "file": "tilemap", "name": "max_tile_id", "impl_of": "TilemapData", "ret": "r",
         "ensures": ("        (r is None) == (self.tiles.0@.len() == 0),\n"
                     "        r is Some ==> (forall|i: int| 0 <= i < self.tiles.0@.len() ==> (#[trigger] self.tiles.0@[i]).id.0 <= r->0)\n"
                     "            && (exists|i: int| 0 <= i < self.tiles.0@.len() && (#[trigger] self.tiles.0@[i]).id.0 == r->0),")},
        {"kind": "fn", "file": "layer", "name": "validate", "key": "LayersData::validate", "impl_of": "LayersData", "ret": "r", "rules": ["R1", "R6", "R11"],
         "body_rewrites": [("for l in &self.layers {", "for l in it: &self.layers {")],
         "loops": {1: ("            invariant\n"
                       "                forall|i: int| 0 <= i < it.index@ ==> (self.layers@[i].layer_type is Tilemap ==> tilesets.map().dom().contains(#[trigger] self.layers@[i].layer_type->Tilemap_0)),")},
         "ensures": ("        // every tilemap layer references a tileset that exists\n"
                     "        r is Ok <==> forall|i: int| 0 <= i < self.layers@.len() ==> (self.layers@[i].layer_type is Tilemap ==> tilesets.map().dom().contains(#[trigger] self.layers@[i].layer_type->Tilemap_0)),")},
        {"kind": "fn", "file": "cel", "name": "validate", "key": "ImageContent::validate", "impl_of": "ImageContent", "impl_filter": r"impl\s+ImageContent<RawPixels>", "impl_header": "ImageContent<RawPixels>", "ret": "r",
         "ensures": ("        r is Ok ==> r->Ok_0.size == self.size && " + RAWPIX_OK.format(src="self.pixels", dst="r->Ok_0.pixels") + ",")},
        {"kind": "fn", "file": "cel", "name": "validate", "key": "RawCel::validate", "impl_of": "RawCel", "impl_filter": r"impl\s+RawCel<RawPixels>", "impl_header": "RawCel<RawPixels>", "ret": "r",
         "rules": ["R1", "R6", "R11"],
         "body_rewrites": [("layers[cel_id.layer as u32].is_background()", "layers.layers[(cel_id.layer as u32) as usize].is_background()"),
                           ("layers[cel_id.layer as u32].layer_type", "layers.layers[(cel_id.layer as u32) as usize].layer_type"),
                           ],
         "closures": [{"after": ".map_or(0,", "params": "t: &Tileset", "ret": "n: u32", "ensures": "n == t.tile_count"}],
         "requires": ("        (cel_id.layer as int) < layers.layers.len(),\n"
                      "        forall|f: u16| #[trigger] validate_ref.requires((CelId { frame: f, layer: cel_id.layer },)),"),
         "ensures": ("        r is Ok ==> cel_validated(self, r->Ok_0, cel_id.layer as int, layers, tilesets),\n"
                     "        // a link is accepted only if the callback accepts (linked frame, this cel's layer)\n"
                     "        r is Ok && self.content is Linked ==> validate_ref.ensures((CelId { frame: self.content->Linked_0, layer: cel_id.layer },), Ok(())),")},
        {"kind": "struct", "file": "cel", "name": "CelsData", "keep": None, "attrs": "#[verifier::reject_recursive_types(P)]\n"},
        {"kind": "fn", "file": "cel", "name": "is_raw", "impl_of": "CelContent", "impl_filter": r"impl<P>\s+CelContent<P>", "impl_header": "<P> CelContent<P>", "ret": "r",
         "ensures": "        r == (self is Raw),"},
        {"kind": "fn", "file": "cel", "name": "cel", "key": "CelsData::cel", "impl_of": "CelsData", "impl_filter": r"impl<P>\s+CelsData<P>", "impl_header": "<P> CelsData<P>", "ret": "r",
         "requires": "        (cel_id.frame as int) < self.data.len(),",
         "ensures": ("        (r is Some) == (self.at(cel_id.frame as int, cel_id.layer as int) is Some),\n"
                     "        r is Some ==> *(r->0) == self.at(cel_id.frame as int, cel_id.layer as int)->0,")},
        {"kind": "fn", "file": "cel", "name": "validate", "key": "CelsData::validate", "impl_of": "CelsData", "impl_filter": r"impl\s+CelsData<RawPixels>", "impl_header": "CelsData<RawPixels>", "ret": "r",
         "rules": ["R1", "R6", "R11"],
         "requires": ("        self.data@.len() == self.num_frames as int, self.num_frames <= 65535,\n"
                      "        // ASSUMPTION: fewer than 2^32 layers (the index arithmetic of the link table is usize)\n"
                      "        layers.layers@.len() < 0x1_0000_0000,"),
         "ensures": ("        r is Ok ==> ({\n"
                     "            let o = r->Ok_0;\n"
                     "            &&& o.num_frames == self.num_frames\n"
                     "            &&& o.data@.len() == self.data@.len()\n"
                     "            &&& forall|f: int| 0 <= f < self.data@.len() ==> row_ok(&self, self.data@[f]@, (#[trigger] o.data@[f])@, layers, tilesets)\n"
                     "        }),"),
         "body_rewrites": [
             ("self.data.into_iter().enumerate()", "it3: vec_into_iter_enumerate(self.data)"),
             ("cels_by_layer.into_iter()", "it4: cels_by_layer.into_iter()"),
             ("for frame in 0..num_frames {", "for frame in it1: 0..num_frames {"),
             ("for layer in 0..num_layers {", "for layer in it2: 0..num_layers {"),
         ],
         "closures": [{"after": ".map_or(false,", "params": "c: &RawCel<RawPixels>", "ret": "b: bool", "ensures": "b == (c.content is Raw)"},
                      {"after": "let validate_ref =", "params": "id: CelId", "ret": "res: Result<()>", "requires": "(id.layer as int) < num_layers",
                       "ensures": "res is Ok <==> ((id.frame as int) < num_frames && linkable(&self, id.frame as int, id.layer as int))"}],
         "hints": [
             ("let mut is_linkable_cel",
              "        assert((num_frames as int) * (num_layers as int) <= 65535 * 0x1_0000_0000) by (nonlinear_arith) requires 0 <= (num_frames as int) <= 65535, 0 <= (num_layers as int) <= 0x1_0000_0000;", "before"),
             ("is_linkable_cel.push(",
              "                proof { lemma_row_index(frame as int, layer as int, num_layers as int, frame as int, layer as int + 1); }\n"
              "                let ghost t0 = is_linkable_cel@;", "before"),
             ("is_linkable_cel.push(",
              "                proof {\n"
              "                    assert forall|f: int, l: int| 0 <= f && 0 <= l < num_layers && l <= 65535 && (f < frame || (f == frame && l < layer + 1))\n"
              "                        implies (#[trigger] linkable(&self, f, l)) == is_linkable_cel@[f * (num_layers as int) + l] by {\n"
              "                        lemma_row_index(f, l, num_layers as int, frame as int, layer as int + 1);\n"
              "                        if f < frame || l < layer { lemma_row_index(f, l, num_layers as int, frame as int, layer as int); }\n"
              "                    }\n"
              "                }", "after"),
             ("let index =",
              "            assert((id.frame as int) * (num_layers as int) <= 65535 * 0x1_0000_0000) by (nonlinear_arith) requires 0 <= (id.frame as int) <= 65535, 0 <= (num_layers as int) <= 0x1_0000_0000;\n"
              "            proof { if (id.frame as int) < num_frames { lemma_row_index(id.frame as int, id.layer as int, num_layers as int, num_frames as int, 0); } }", "before"),
         ],
         "loops": {
             1: ("            invariant\n                " + CTX +
                 "                link_table_ok(&self, is_linkable_cel@, num_layers as int, frame as int, 0),"),
             2: ("                invariant\n                " + CTX +
                 "                0 <= frame < num_frames,\n"
                 "                link_table_ok(&self, is_linkable_cel@, num_layers as int, frame as int, layer as int),"),
             3: ("            invariant\n                " + CTX + VREF +
                 "                it3.snapshot@.remaining().len() == self.data@.len(),\n"
                 "                forall|i: int| 0 <= i < self.data@.len() ==> #[trigger] it3.snapshot@.remaining()[i] == (i as usize, self.data@[i]),\n"
                 "                result.num_frames == self.num_frames,\n"
                 "                result.data@.len() == it3.index@,\n" + ROWS_DONE.format(n="it3.index@")),
             4: ("                invariant\n                " + CTX + VREF +
                 "                (frame as int) < self.data@.len(),\n"
                 "                lists_sorted(it4.snapshot@.remaining(), self.data@[frame as int]@),\n"
                 "                result.num_frames == self.num_frames,\n"
                 "                result.data@.len() == frame as int + 1,\n"
                 "                row_part(&self, it4.snapshot@.remaining(), it4.index@ as int, result.data@[frame as int]@, layers, tilesets),\n" + ROWS_DONE.format(n="frame as int")),
         },
         "loop_ends": {
             1: "            proof { assert((frame as int) * (num_layers as int) + (num_layers as int) == (frame as int + 1) * (num_layers as int)) by (nonlinear_arith); }",
         }},
        {"kind": "verbatim", "text": """
/// opaque pass-through payloads of the validation stage
#[verifier::external_body] pub struct ColorProfile { _p: core::marker::PhantomData<u8> }
#[verifier::external_body] pub struct ExternalFilesById { _p: core::marker::PhantomData<u8> }
#[verifier::external_body] pub struct Tag { _p: core::marker::PhantomData<u8> }
#[verifier::external_body] pub struct Slice { _p: core::marker::PhantomData<u8> }
#[verifier::external_body] pub struct UserDataContext { _p: core::marker::PhantomData<u8> }
/// the two callees that live in other units, under the contracts proved there (unit `parents`: LayersData::from_vec,
/// unit `validate_tilesets`: TilesetsById::validate)
impl LayersData {
    #[verifier::external_body]
    pub fn from_vec(layers: Vec<LayerData>) -> (r: Result<LayersData>)
        ensures r is Ok ==> r->Ok_0.layers@ == layers@ && layers@.len() <= 65536,
    { unimplemented!() }
}
/// what TilesetsById::validate establishes for one tileset (unit validate_tilesets: tileset_validated)
pub open spec fn tileset_validated(src: Tileset<RawPixels>, dst: Tileset<Pixels>) -> bool {
    src.pixels is Some && dst.pixels is Some && pixels_validated(src.pixels->0, dst.pixels->0) && dst.id == src.id && dst.tile_count == src.tile_count
}
impl TilesetsById<RawPixels> {
    #[verifier::external_body]
    pub fn validate(self, pixel_format: &PixelFormat, palette: Option<Arc<ColorPalette>>) -> (r: Result<TilesetsById<Pixels>>)
        ensures r is Ok ==> (forall|k: u32| r->Ok_0.map().dom().contains(k) <==> self.map().dom().contains(k))
            && (forall|k: u32| self.map().dom().contains(k) ==> tileset_validated(self.map()[k], #[trigger] r->Ok_0.map()[k])),
    { unimplemented!() }
}
"""},
        {"kind": "struct", "file": "parse", "name": "ParseInfo", "keep": None,
         "rewrites": [("cel::CelsData<RawPixels>", "CelsData<RawPixels>"), ("Arc<palette::ColorPalette>", "Arc<ColorPalette>"), ("color_profile::ColorProfile", "ColorProfile")]},
        {"kind": "struct", "file": "parse", "name": "ValidatedParseInfo", "keep": None,
         "rewrites": [("layer::LayersData", "LayersData"), ("cel::CelsData<Pixels>", "CelsData<Pixels>"), ("Arc<palette::ColorPalette>", "Arc<ColorPalette>")]},
        {"kind": "fn", "file": "parse", "name": "validate", "key": "ParseInfo::validate", "impl_of": "ParseInfo", "ret": "r", "rules": ["R1", "R6", "R11"],
         "requires": "        self.framedata.data@.len() == self.framedata.num_frames as int, self.framedata.num_frames <= 65535,",
         "ensures": ("        // C05: what a successful load establishes for every accessor (the renderer's R-pre)\n"
                     "        r is Ok ==> ({ let v = r->Ok_0;\n"
                     "            &&& v.layers.layers@ == self.layers@ && v.layers.layers@.len() <= 65536\n"
                     "            &&& forall|k: u32| v.tilesets.map().dom().contains(k) ==> (#[trigger] v.tilesets.map()[k]).pixels is Some\n"
                     "            &&& forall|i: int| 0 <= i < v.layers.layers@.len() ==> (v.layers.layers@[i].layer_type is Tilemap ==> v.tilesets.map().dom().contains(#[trigger] v.layers.layers@[i].layer_type->Tilemap_0))\n"
                     "            &&& v.framedata.num_frames == self.framedata.num_frames && v.framedata.data@.len() == self.framedata.data@.len()\n"
                     "            &&& forall|f: int| 0 <= f < self.framedata.data@.len() ==> row_ok(&self.framedata, self.framedata.data@[f]@, (#[trigger] v.framedata.data@[f])@, &v.layers, &v.tilesets)\n"
                     "            &&& v.frame_times == self.frame_times && v.sprite_user_data == self.sprite_user_data && v.slices == self.slices && v.palette == self.palette\n"
                     "        }),")},
    ],
}


# ------------------------------------------------------------------------------------------------
# TilesetsById::validate (C05 / C15): every tileset that survives loading has its pixels embedded and validated
# ------------------------------------------------------------------------------------------------
UNITS["validate_tilesets"] = {
    "prelude_sections": ["errors", "rgba_only", "intmap", "hashmap_shim"],
    "items": [it for it in UNITS["pixels"]["items"]] + [
        {"kind": "struct", "file": "external_file", "name": "ExternalFileId", "keep": None, "attrs": "#[derive(Clone, Copy, PartialEq, Eq)]\n"},
        {"kind": "struct", "file": "tileset", "name": "ExternalTilesetReference", "keep": None},
        {"kind": "struct", "file": "tileset", "name": "TileSize", "keep": None, "attrs": "#[derive(Clone, Copy)]\n"},
        {"kind": "struct", "file": "tileset", "name": "TilesetId", "keep": None, "attrs": "#[derive(Clone, Copy, PartialEq, Eq)]\n"},
        {"kind": "struct", "file": "tileset", "name": "Tileset", "keep": None},
        {"kind": "struct", "file": "tileset", "name": "TilesetsById", "keep": None, "attrs": "#[verifier::reject_recursive_types(P)]\n"},
        {"kind": "verbatim", "text": """
pub open spec fn pixels_validated(src: RawPixels, dst: Pixels) -> bool {
    match src {
        RawPixels::Rgba(data) => dst is Rgba && dst->Rgba_0@ == data@,
        RawPixels::Grayscale(data) => dst is Grayscale && dst->Grayscale_0@ == data@,
        RawPixels::Indexed(data) => dst is Indexed && dst->Indexed_data@ == data@
            && forall|i: int| 0 <= i < data@.len() ==> (*dst->Indexed_palette).entries@.contains_key(#[trigger] data@[i] as u32),
    }
}
/// TilesetsById::validate's verdict on one tileset: pixels embedded and validated, everything else unchanged
pub open spec fn tileset_validated(src: Tileset<RawPixels>, dst: Tileset<Pixels>) -> bool {
    &&& src.pixels is Some && dst.pixels is Some && pixels_validated(src.pixels->0, dst.pixels->0)
    &&& dst.id == src.id && dst.empty_tile_is_id_zero == src.empty_tile_is_id_zero && dst.tile_count == src.tile_count
    &&& dst.tile_size == src.tile_size && dst.base_index == src.base_index && dst.name == src.name && dst.external_file == src.external_file
}
"""},
        {'kind': 'fn', 'file': 'tileset', 'name': 'id', 'key': 'Tileset::id', 'impl_of': 'Tileset', 'impl_filter': 'impl<P>\\s+Tileset<P>', 'impl_header': '<P> Tileset<P>', 'ret': 'r', 'ensures': '        r == self.id,'},
        {'kind': 'fn', 'file': 'tileset', 'name': 'empty_tile_is_id_zero', 'key': 'Tileset::empty_tile_is_id_zero', 'impl_of': 'Tileset', 'impl_filter': 'impl<P>\\s+Tileset<P>', 'impl_header': '<P> Tileset<P>', 'ret': 'r', 'ensures': '        r == self.empty_tile_is_id_zero,'},
        {'kind': 'fn', 'file': 'tileset', 'name': 'tile_count', 'key': 'Tileset::tile_count', 'impl_of': 'Tileset', 'impl_filter': 'impl<P>\\s+Tileset<P>', 'impl_header': '<P> Tileset<P>', 'ret': 'r', 'ensures': '        r == self.tile_count,'},
        {'kind': 'fn', 'file': 'tileset', 'name': 'tile_size', 'key': 'Tileset::tile_size', 'impl_of': 'Tileset', 'impl_filter': 'impl<P>\\s+Tileset<P>', 'impl_header': '<P> Tileset<P>', 'ret': 'r', 'ensures': '        r == self.tile_size,'},
        {"kind": "fn", "file": "tileset", "name": "external_file_id", "impl_of": "ExternalTilesetReference", "ret": "r", "ensures": "        r == self.external_file_id,"},
        {"kind": "fn", "file": "tileset", "name": "tileset_id", "impl_of": "ExternalTilesetReference", "ret": "r", "ensures": "        r == self.tileset_id,"},
        {'kind': 'fn', 'file': 'tileset', 'name': 'name', 'key': 'Tileset::name', 'impl_of': 'Tileset', 'impl_filter': 'impl<P>\\s+Tileset<P>', 'impl_header': '<P> Tileset<P>', 'ret': 'r', 'ensures': '        r@ == self.name@,'},
        {'kind': 'fn', 'file': 'tileset', 'name': 'base_index', 'key': 'Tileset::base_index', 'impl_of': 'Tileset', 'impl_filter': 'impl<P>\\s+Tileset<P>', 'impl_header': '<P> Tileset<P>', 'ret': 'r', 'ensures': '        r == self.base_index,'},
        {'kind': 'fn', 'file': 'tileset', 'name': 'external_file', 'key': 'Tileset::external_file', 'impl_of': 'Tileset', 'impl_filter': 'impl<P>\\s+Tileset<P>', 'impl_header': '<P> Tileset<P>', 'ret': 'r', 'ensures': '        (r is Some) == (self.external_file is Some), r is Some ==> *(r->0) == self.external_file->0,'},
        {"kind": "fn", "file": "tileset", "name": "from_raw", "impl_of": "TilesetId", "ret": "r", "ensures": "        r.0 == value,"},
        {"kind": "fn", "file": "tileset", "name": "new", "key": "TilesetsById::new", "impl_of": "TilesetsById", "impl_filter": r"impl<P>\s+TilesetsById<P>", "impl_header": "<P> TilesetsById<P>", "ret": "r",
         "ensures": "        r.0@ == Map::<TilesetId, Tileset<P>>::empty(),"},
        {"kind": "fn", "file": "tileset", "name": "add", "key": "TilesetsById::add", "impl_of": "TilesetsById", "impl_filter": r"impl<P>\s+TilesetsById<P>", "impl_header": "<P> TilesetsById<P>",
         "ensures": "        // a later tileset chunk with the same id replaces the earlier one\n        final(self).0@ == old(self).0@.insert(TilesetId(tileset.id), tileset),"},
        {"kind": "fn", "file": "tileset", "name": "get", "key": "TilesetsById::get", "impl_of": "TilesetsById", "impl_filter": r"impl<P>\s+TilesetsById<P>", "impl_header": "<P> TilesetsById<P>", "ret": "r",
         "ensures": "        (r is Some) == self.0@.contains_key(TilesetId(id)), r is Some ==> *(r->0) == self.0@[TilesetId(id)],"},
        {"kind": "fn", "file": "tileset", "name": "is_empty", "key": "TilesetsById::is_empty", "impl_of": "TilesetsById", "impl_filter": r"impl<P>\s+TilesetsById<P>", "impl_header": "<P> TilesetsById<P>", "ret": "r",
         "ensures": "        r == (self.0@.dom().len() == 0),"},
        {"kind": "fn", "file": "tileset", "name": "validate", "key": "TilesetsById::validate", "impl_of": "TilesetsById", "impl_filter": r"impl\s+TilesetsById<RawPixels>", "impl_header": "TilesetsById<RawPixels>", "ret": "r",
         "rules": ["R1", "R6", "R11"],
         "body_rewrites": [("for (id, tileset) in self.0.into_iter() {", "for (id, tileset) in it: self.0.into_iter() {")],
         "ensures": ("        // C15: a tileset without embedded pixels is refused; C05: the surviving tilesets keep their ids and fields\n"
                     "        r is Ok ==> (forall|k: TilesetId| r->Ok_0.0@.contains_key(k) <==> self.0@.contains_key(k))\n"
                     "            && (forall|k: TilesetId| self.0@.contains_key(k) ==> tileset_validated(self.0@[k], #[trigger] r->Ok_0.0@[k])),"),
         "loops": {1: ("            invariant\n"
                       "                enumerates(it.snapshot@.remaining(), self.0@),\n"
                       "                forall|k: TilesetId| #[trigger] result@.contains_key(k) <==> exists|i: int| 0 <= i < it.index@ && (#[trigger] it.snapshot@.remaining()[i]).0 == k,\n"
                       "                forall|i: int| 0 <= i < it.index@ ==> tileset_validated((#[trigger] it.snapshot@.remaining()[i]).1, result@[it.snapshot@.remaining()[i].0]),")},
         },
        {"kind": "verbatim", "fn_name": "tileset_wf_is_preserved", "text": """
impl RawPixels {
    pub open spec fn px_len(&self) -> nat {
        match self { RawPixels::Rgba(d) => d@.len(), RawPixels::Grayscale(d) => d@.len(), RawPixels::Indexed(d) => d@.len() }
    }
}
impl Pixels {
    pub open spec fn px_len(&self) -> nat {
        match self { Pixels::Rgba(d) => d@.len(), Pixels::Grayscale(d) => d@.len(), Pixels::Indexed { data, .. } => data@.len() }
    }
}
/// what Tileset::parse_chunk establishes (unit dec_tileset) ...
pub open spec fn ts_raw_wf(t: Tileset<RawPixels>) -> bool {
    &&& t.tile_size.width >= 1 && t.tile_size.height >= 1
    &&& (t.tile_count as int) * (t.tile_size.height as int) <= 0xffff_ffff
    &&& t.pixels is Some ==> t.pixels->0.px_len() == (t.tile_count as int) * (t.tile_size.height as int) * (t.tile_size.width as int)
}
/// ... and what Tileset::image / tile_image require (unit tileset_image)
pub open spec fn ts_wf(t: Tileset<Pixels>) -> bool {
    &&& t.pixels is Some
    &&& t.tile_size.width >= 1 && t.tile_size.height >= 1
    &&& (t.tile_count as int) * (t.tile_size.height as int) <= 0xffff_ffff
    &&& t.pixels->0.px_len() == (t.tile_count as int) * (t.tile_size.height as int) * (t.tile_size.width as int)
}
/// C05 link: validation carries the decoder's guarantee over to the precondition of the tileset rasterisers
pub proof fn tileset_wf_is_preserved(src: Tileset<RawPixels>, dst: Tileset<Pixels>)
    requires ts_raw_wf(src), tileset_validated(src, dst),
    ensures ts_wf(dst),
{
}
"""},
    ],
}


# ------------------------------------------------------------------------------------------------
# Public accessors (C01 / C19 observation points): each returns the stored attribute it is documented to return
# ------------------------------------------------------------------------------------------------
def G(file, impl, name, ensures, requires=None, hdr=None, **kw):
    it = {"kind": "fn", "file": file, "name": name, "key": impl + "::" + name, "impl_of": impl, "ret": "r", "ensures": "        " + ensures}
    if hdr:
        it["impl_header"] = hdr
    if requires:
        it["requires"] = "        " + requires
    it.update(kw)
    return it
LAYER_OK = "(self.layer_id as int) < self.file.layers.layers.len(),"
LD = "self.file.layers.layers[self.layer_id as int]"
CEL_OK = "(self.cel_id.frame as int) < self.file.framedata.data.len(),"
CAT = "self.file.framedata.at(self.cel_id.frame as int, self.cel_id.layer as int)"
UNITS["accessors"] = {
    "prelude_sections": ["rgba_only", "layer_flags_only", "option_extra", "btreemap_shim"],
    "items": [
        {"kind": "struct", "file": "user_data", "name": "UserData", "keep": None, "rewrites": [("image::Rgba<u8>", "Rgba<u8>")]},
        {"kind": "enum", "file": "file", "name": "PixelFormat", "attrs": "#[derive(Clone, Copy)]\n"},
        {"kind": "enum", "file": "tags", "name": "AnimationDirection", "attrs": "#[derive(Clone, Copy)]\n"},
        {"kind": "struct", "file": "tags", "name": "Tag", "keep": None},
        {"kind": "enum", "file": "layer", "name": "LayerType", "attrs": "#[derive(Clone, Copy)]\n"},
        {"kind": "struct", "file": "layer", "name": "LayerData", "keep": ["flags", "opacity", "layer_type", "user_data"]},
        {"kind": "struct", "file": "layer", "name": "LayersData", "keep": ["layers", "parents"]},
        {"kind": "index_impl_check", "file": "layer", "type": "LayersData", "body": "{&self.layers[index as usize]}"},
        {"kind": "struct", "file": "cel", "name": "CelId", "keep": None, "attrs": "#[derive(Clone, Copy)]\n"},
        {"kind": "struct", "file": "cel", "name": "CelCommon", "keep": None},
        {"kind": "struct", "file": "cel", "name": "ImageSize", "keep": None, "attrs": "#[derive(Clone, Copy)]\n"},
        {"kind": "struct", "file": "cel", "name": "ImageContent", "keep": ["size"], "header": "struct ImageContent "},
        {"kind": "struct", "file": "tilemap", "name": "TilemapData", "keep": ["width", "height"]},
        {"kind": "enum", "file": "cel", "name": "CelContent", "rewrites": [("enum CelContent<P>", "enum CelContent"), ("ImageContent<P>", "ImageContent")]},
        {"kind": "struct", "file": "cel", "name": "RawCel", "keep": None, "header": "struct RawCel ", "rewrites": [("CelContent<P>", "CelContent")]},
        {"kind": "struct", "file": "cel", "name": "CelsData", "keep": ["data", "num_frames"], "header": "struct CelsData ", "rewrites": [("RawCel<P>", "RawCel")]},
        {"kind": "struct", "file": "file", "name": "AsepriteFile", "keep": ["width", "height", "num_frames", "pixel_format", "layers", "frame_times", "tags", "framedata", "sprite_user_data"], "rewrites": [("CelsData<Pixels>", "CelsData")]},
        {"kind": "struct", "file": "cel", "name": "Cel", "keep": None},
        {"kind": "struct", "file": "file", "name": "Frame", "keep": None},
        {"kind": "struct", "file": "layer", "name": "Layer", "keep": None},
        {"kind": "verbatim", "text": """
impl CelsData {
    pub open spec fn at(&self, f: int, l: int) -> Option<RawCel> {
        if 0 <= f < self.data.len() && 0 <= l <= 65535 && self.data[f]@.contains_key(l as u16) { Some(self.data[f]@[l as u16]) } else { None }
    }
}
"""},
        {"kind": "fn", "file": "cel", "name": "cel", "key": "CelsData::cel", "impl_of": "CelsData", "impl_filter": r"impl<P>\s+CelsData<P>", "impl_header": "CelsData", "ret": "r",
         "sig_rewrites": [("RawCel<P>", "RawCel")],
         "requires": "        (cel_id.frame as int) < self.data.len(),",
         "ensures": ("        (r is Some) == (self.at(cel_id.frame as int, cel_id.layer as int) is Some),\n"
                     "        r is Some ==> *(r->0) == self.at(cel_id.frame as int, cel_id.layer as int)->0,")},
        G("file", "AsepriteFile", "width", "r == self.width as usize,"),
        G("file", "AsepriteFile", "height", "r == self.height as usize,"),
        G("file", "AsepriteFile", "size", "r == (self.width as usize, self.height as usize),"),
        G("file", "AsepriteFile", "pixel_format", "r == self.pixel_format,"),
        G("file", "AsepriteFile", "is_indexed_color", "r == (self.pixel_format is Indexed),"),
        G("file", "AsepriteFile", "transparent_color_index", "r == (match self.pixel_format { PixelFormat::Indexed { transparent_color_index } => Some(transparent_color_index), _ => None }),"),
        G("file", "AsepriteFile", "num_tags", "r as int == self.tags.len(),", requires="self.tags.len() <= 0xffff_ffff,"),
        G("file", "AsepriteFile", "tag", "*r == self.tags[tag_id as int],", requires="(tag_id as int) < self.tags.len(),"),
        G("file", "AsepriteFile", "sprite_user_data", "(r is Some) == (self.sprite_user_data is Some), r is Some ==> *(r->0) == self.sprite_user_data->0,"),
        G("file", "Frame", "id", "r == self.index,", hdr="<'a> Frame<'a>"),
        G("file", "Frame", "duration", "r == self.file.frame_times[self.index as int] as u32,", requires="(self.index as int) < self.file.frame_times.len(),", hdr="<'a> Frame<'a>"),
        G("layer", "Layer", "data", "*r == " + LD + ",", requires=LAYER_OK, hdr="<'a> Layer<'a>",
          rules=["R1", "R6", "R8"]),
        G("layer", "Layer", "id", "r == self.layer_id,", hdr="<'a> Layer<'a>"),
        G("layer", "Layer", "flags", "r == " + LD + ".flags,", requires=LAYER_OK, hdr="<'a> Layer<'a>"),
        G("layer", "Layer", "opacity", "r == " + LD + ".opacity,", requires=LAYER_OK, hdr="<'a> Layer<'a>"),
        G("layer", "Layer", "layer_type", "r == " + LD + ".layer_type,", requires=LAYER_OK, hdr="<'a> Layer<'a>"),
        G("layer", "Layer", "is_tilemap", "r == (" + LD + ".layer_type is Tilemap),", requires=LAYER_OK, hdr="<'a> Layer<'a>"),
        G("layer", "Layer", "user_data", "(r is Some) == (" + LD + ".user_data is Some), r is Some ==> *(r->0) == " + LD + ".user_data->0,", requires=LAYER_OK, hdr="<'a> Layer<'a>"),
        G("layer", "Layer", "parent", "(r is Some) == (self.file.layers.parents[self.layer_id as int] is Some), r is Some ==> (r->0).layer_id == self.file.layers.parents[self.layer_id as int]->0 && (r->0).file == self.file,",
          requires="(self.layer_id as int) < self.file.layers.parents.len(),", hdr="<'a> Layer<'a>",
          closures=[{"after": ".map(", "params": "id: u32", "ret": "l: Layer<'a>", "ensures": "l.layer_id == id && l.file == self.file"}]),
        G("cel", "Cel", "raw_cel", "(r is Some) == (" + CAT + " is Some), r is Some ==> *(r->0) == " + CAT + "->0,", requires=CEL_OK, hdr="<'a> Cel<'a>"),
        G("cel", "Cel", "is_empty", "r == (" + CAT + " is None),", requires=CEL_OK, hdr="<'a> Cel<'a>"),
        G("cel", "Cel", "is_tilemap", "r == (" + CAT + " is Some && " + CAT + "->0.content is Tilemap),", requires=CEL_OK, hdr="<'a> Cel<'a>"),
        G("cel", "Cel", "top_left", "r == (match " + CAT + " { Some(c) => (c.data.x as i32, c.data.y as i32), None => (0i32, 0i32) }),", requires=CEL_OK, hdr="<'a> Cel<'a>",
          closures=[{"after": ".map_or_else(", "params": "", "ret": "d: (i32, i32)", "ensures": "d == (0i32, 0i32)"},
                    {"after": "{ (0, 0) },", "params": "raw: &RawCel", "ret": "p: (i32, i32)", "ensures": "p == (raw.data.x as i32, raw.data.y as i32)"}]),
        G("cel", "Cel", "user_data", "(r is Some) == (" + CAT + " is Some && " + CAT + "->0.user_data is Some), r is Some ==> *(r->0) == " + CAT + "->0.user_data->0,", requires=CEL_OK, hdr="<'a> Cel<'a>",
          closures=[{"after": ".and_then(", "params": "c: &'a RawCel", "ret": "u: Option<&'a UserData>", "ensures": "(u is Some) == (c.user_data is Some), u is Some ==> *(u->0) == c.user_data->0"}]),
        G("tags", "Tag", "from_frame", "r == self.from_frame as u32,"),
        G("tags", "Tag", "to_frame", "r == self.to_frame as u32,"),
        G("tags", "Tag", "animation_direction", "r == self.animation_direction,"),
        G("tags", "Tag", "user_data", "(r is Some) == (self.user_data is Some), r is Some ==> *(r->0) == self.user_data->0,"),
    ],
}


# ------------------------------------------------------------------------------------------------
# Chunk framing (C13 / C04 / C01): Chunk::read / read_all on the real text over the reader contract
# ------------------------------------------------------------------------------------------------
UNITS["chunks"] = {
    "prelude_sections": ["arch", "errors", "reader", "reader_exact"],
    "items": [
        {"kind": "enum", "file": "parse", "name": "ChunkType", "attrs": "#[derive(Clone, Copy, PartialEq, Eq)]\n"},
        {"kind": "const", "file": "parse", "name": "CHUNK_HEADER_SIZE"},
        {"kind": "struct", "file": "parse", "name": "Chunk", "keep": None},
        {"kind": "verbatim", "text": """
/// chunk type codes the library knows (everything else is refused: C15)
pub open spec fn chunk_code(t: ChunkType) -> int {
    match t {
        ChunkType::OldPalette04 => 0x0004, ChunkType::OldPalette11 => 0x0011, ChunkType::Layer => 0x2004, ChunkType::Cel => 0x2005,
        ChunkType::CelExtra => 0x2006, ChunkType::ColorProfile => 0x2007, ChunkType::ExternalFiles => 0x2008, ChunkType::Mask => 0x2016,
        ChunkType::Path => 0x2017, ChunkType::Tags => 0x2018, ChunkType::Palette => 0x2019, ChunkType::UserData => 0x2020,
        ChunkType::Slice => 0x2022, ChunkType::Tileset => 0x2023,
    }
}
pub open spec fn known_code(c: int) -> bool {
    c == 0x0004 || c == 0x0011 || c == 0x2004 || c == 0x2005 || c == 0x2006 || c == 0x2007 || c == 0x2008 || c == 0x2016
        || c == 0x2017 || c == 0x2018 || c == 0x2019 || c == 0x2020 || c == 0x2022 || c == 0x2023
}
/// chunk at offset o: size(4, includes this 6-byte header) type(2) payload(size - 6)
pub open spec fn ck_size(d: Seq<u8>, o: int) -> int { le_u32(d, o) }
/// the chunk at o is complete in the stream and fits into the `avail` bytes the frame header still grants
pub open spec fn ck_ok(d: Seq<u8>, o: int, avail: int) -> bool {
    o + 6 <= d.len() && known_code(le_u16(d, o + 4)) && 6 <= ck_size(d, o) <= avail && o + ck_size(d, o) <= d.len()
}
pub open spec fn ck_matches(c: Chunk, d: Seq<u8>, o: int) -> bool {
    chunk_code(c.chunk_type) == le_u16(d, o + 4) && c.data@ == d.subrange(o + 6, o + ck_size(d, o))
}
/// offset of the k-th chunk of a frame whose first chunk starts at o0
pub open spec fn ck_off(d: Seq<u8>, o0: int, k: int) -> int
    decreases k,
{
    if k <= 0 { o0 } else { ck_off(d, o0, k - 1) + ck_size(d, ck_off(d, o0, k - 1)) }
}
"""},
        {"kind": "fn", "file": "parse", "name": "parse_chunk_type", "ret": "r", "rules": ["R1", "R6", "R11"],
         "ensures": "        r is Ok <==> known_code(chunk_type as int),\n        r is Ok ==> chunk_code(r->Ok_0) == chunk_type as int,"},
        {"kind": "fn", "file": "parse", "name": "check_chunk_bytes", "ret": "r", "rules": ["R1", "R6", "R11"],
         "ensures": "        r is Ok <==> (6 <= chunk_size as int && chunk_size as int <= bytes_available as int),"},
        {"kind": "fn", "file": "parse", "name": "read", "key": "Chunk::read", "impl_of": "Chunk", "ret": "r", "rules": ["R1", "R6", "R11"],
         "sig_rewrites": [("<R: Read>", ""), ("AseReader<R>", "AseReader")],
         "ensures": ("        final(reader).data() == old(reader).data(),\n"
                     "        // C13: Ok iff the WHOLE declared chunk is present (header, known type, size within the frame, all payload bytes)\n"
                     "        r is Ok <==> ck_ok(old(reader).data(), old(reader).pos(), *old(bytes_available) as int),\n"
                     "        r is Ok ==> ck_matches(r->Ok_0, old(reader).data(), old(reader).pos())\n"
                     "            && final(reader).pos() == old(reader).pos() + ck_size(old(reader).data(), old(reader).pos())\n"
                     "            && *final(bytes_available) as int == *old(bytes_available) as int - ck_size(old(reader).data(), old(reader).pos()),")},
        {"kind": "fn", "file": "parse", "name": "read_all", "key": "Chunk::read_all", "impl_of": "Chunk", "ret": "r", "rules": ["R1", "R6", "R11"],
         "sig_rewrites": [("<R: Read>", ""), ("AseReader<R>", "AseReader")],
         "body_rewrites": [("for _idx in 0..count {", "for _idx in it: 0..count {")],
         "hints": [("let mut chunks: Vec<Chunk> = Vec::new();", "        let ghost ba0 = bytes_available as int;", "before")],
         "ensures": ("        final(reader).data() == old(reader).data(),\n"
                     "        r is Ok ==> r->Ok_0@.len() == count,\n"
                     "        r is Ok ==> forall|k: int| 0 <= k < count ==> ck_matches(#[trigger] r->Ok_0@[k], old(reader).data(), ck_off(old(reader).data(), old(reader).pos(), k))\n"
                     "            && ck_off(old(reader).data(), old(reader).pos(), k) + ck_size(old(reader).data(), ck_off(old(reader).data(), old(reader).pos(), k)) <= old(reader).data().len(),\n"
                     "        r is Ok ==> final(reader).pos() == ck_off(old(reader).data(), old(reader).pos(), count as int),\n"
                     "        // the chunks together do not exceed what the frame header declared\n"
                     "        r is Ok && count > 0 ==> ck_off(old(reader).data(), old(reader).pos(), count as int) - old(reader).pos() <= bytes_available,"),
         "loops": {1: ("            invariant\n"
                       "                reader.data() == old(reader).data(),\n"
                       "                chunks@.len() == it.index@,\n"
                       "                reader.pos() == ck_off(old(reader).data(), old(reader).pos(), it.index@ as int),\n"
                       "                bytes_available as int == ba0 - (reader.pos() - old(reader).pos()), old(reader).pos() <= reader.pos(), it.index@ > 0 ==> bytes_available >= 0,\n"
                       "                forall|k: int| 0 <= k < it.index@ ==> ck_matches(#[trigger] chunks@[k], old(reader).data(), ck_off(old(reader).data(), old(reader).pos(), k))\n"
                       "                    && ck_off(old(reader).data(), old(reader).pos(), k) + ck_size(old(reader).data(), ck_off(old(reader).data(), old(reader).pos(), k)) <= old(reader).data().len(),")}},
    ],
}


# ------------------------------------------------------------------------------------------------
# util.rs (C18, feature `utils`): extrude_border on the real text
# ------------------------------------------------------------------------------------------------
UNITS["utils_extrude"] = {
    "prelude_sections": ["arch", "utils_shims", "utils_spec"],
    "items": [
        {"kind": "fn", "file": "util", "name": "extrude_border", "ret": "r", "rules": ["R1", "R6", "R10"],
         "body_rewrites": [("for src_row in once(0).chain(0..h).chain(once(h - 1)) {", "for src_row in it: border_rows(0, h, h - 1) {")],
         "requires": ("        image.w() >= 1, image.h() >= 1, image.w() + 2 <= 0xffff_ffff, image.h() + 2 <= 0xffff_ffff,\n"
                      "        // ASSUMPTION: the input buffer exists in memory (4wh bytes), so sizes derived from it fit usize\n"
                      "        4 * image.w() * image.h() < 0x4000_0000_0000_0000,"),
         "ensures": ("        r.w() == image.w() + 2, r.h() == image.h() + 2, r.raw().len() == 4 * (image.w() + 2) * (image.h() + 2),\n"
                     "        // C18: output pixel (x, y) == input pixel (clamp(x-1, 0, w-1), clamp(y-1, 0, h-1)), byte by byte\n"
                     "        forall|x: int, y: int, c: int| 0 <= x < image.w() + 2 && 0 <= y < image.h() + 2 && 0 <= c < 4 ==>\n"
                     "            r.raw()[#[trigger] ((y * (image.w() + 2) + x) * 4 + c)] == image.raw()[(clamp_m1(y, image.h() as int) * image.w() + clamp_m1(x, image.w() as int)) * 4 + c],"),
         "loops": {1: ("        invariant\n"
                       "            w == image.w(), h == image.h(), w >= 1, h >= 1, src@ == image.raw(), src@.len() == 4 * w * h, bpp == 4, bpp_w == 4 * w,\n"
                       "            4 * w * h < 0x4000_0000_0000_0000, w <= 0xffff_ffff, h <= 0xffff_ffff,\n"
                       "            it.snapshot@.remaining().len() == h + 2,\n"
                       "            forall|i: int| 0 <= i < h + 2 ==> #[trigger] it.snapshot@.remaining()[i] == bseq(h as int)[i],\n"
                       "            data@ == ext_rows(src@, w as int, bseq(h as int), it.index@ as int),")},
         "hints": [("let mut data: Vec<u8> =",
                    "    assert(4 * (w as int + 2) * (h as int + 2) <= 4 * (w as int) * (h as int) + 0x10_0000_0000) by (nonlinear_arith)\n"
                    "        requires 1 <= (w as int) <= 0xffff_ffff, 1 <= (h as int) <= 0xffff_ffff;\n"
                    "    assert(4 * (w as int + 2) <= 0x4_0000_0010);", "before"),
                   ("let ofs = src_row * bpp * w;",
                    "        assert(src_row as int == clamp_m1(it.index@ as int, h as int));\n"
                    "        assert((src_row as int) * 4 <= 0x4_0000_0000);\n"
                    "        assert(0 <= (src_row as int) * 4 * (w as int) && (src_row as int) * 4 * (w as int) + 4 * (w as int) <= 4 * (w as int) * (h as int)) by (nonlinear_arith)\n"
                    "            requires 0 <= (src_row as int) < (h as int), (w as int) >= 1;\n"
                    "        assert((src_row as int) * 4 * (w as int) == ((src_row as int) * 4) * (w as int)) by (nonlinear_arith);", "before"),
                   ("RgbaImage::from_raw(",
                    "    proof {\n"
                    "        let rows = bseq(h as int);\n"
                    "        lemma_ext_rows_len(src@, w as int, h as int, rows, h as int + 2);\n"
                    "        assert((h as int + 2) * (4 * (w as int + 2)) == 4 * (w as int + 2) * (h as int + 2)) by (nonlinear_arith);\n"
                    "        assert forall|x: int, y: int, c: int| 0 <= x < w + 2 && 0 <= y < h + 2 && 0 <= c < 4 implies\n"
                    "            data@[#[trigger] ((y * (w as int + 2) + x) * 4 + c)] == src@[(clamp_m1(y, h as int) * (w as int) + clamp_m1(x, w as int)) * 4 + c] by {\n"
                    "            lemma_ext_rows_index(src@, w as int, h as int, rows, h as int + 2, x, y, c);\n"
                    "        }\n"
                    "    }", "before")],
         },
    ],
}


UNITS["utils_palette"] = {
    "prelude_sections": ["rgba_only", "intmap"],
    "items": [
        {"kind": "struct", "file": "palette", "name": "ColorPaletteEntry", "keep": None},
        {"kind": "struct", "file": "palette", "name": "ColorPalette", "keep": None},
        {"kind": "fn", "file": "palette", "name": "red", "impl_of": "ColorPaletteEntry", "ret": "r", "ensures": "        r == self.rgba8@[0],"},
        {"kind": "fn", "file": "palette", "name": "green", "impl_of": "ColorPaletteEntry", "ret": "r", "ensures": "        r == self.rgba8@[1],"},
        {"kind": "fn", "file": "palette", "name": "blue", "impl_of": "ColorPaletteEntry", "ret": "r", "ensures": "        r == self.rgba8@[2],"},
        {"kind": "struct", "file": "util", "name": "PaletteMapper", "keep": None},
        {"kind": "struct", "file": "util", "name": "MappingOptions", "keep": None},
        {"kind": "verbatim", "text": """
/// 24-bit key of an RGB colour
pub open spec fn pack(r: u8, g: u8, b: u8) -> int { r as int + 256 * (g as int) + 65536 * (b as int) }
pub open spec fn pack_e(e: ColorPaletteEntry) -> int { pack(e.rgba8@[0], e.rgba8@[1], e.rgba8@[2]) }
/// what the mapper stores for a palette index: the index itself if it fits a byte, otherwise the failure index
pub open spec fn idx_col(i: u32, failure: u8) -> u8 { if i < 256 { i as u8 } else { failure } }
/// some palette entry with colour key m is mapped to `v`
pub open spec fn src_of(p: Map<u32, ColorPaletteEntry>, m: u32, v: u8, failure: u8, i: u32) -> bool {
    p.contains_key(i) && pack_e(p[i]) == m as int && v == idx_col(i, failure)
}
pub open spec fn seen(rem: Seq<(&u32, &ColorPaletteEntry)>, j: int, m: u32) -> bool { pack_e(*rem[j].1) == m as int }
"""},
        {"kind": "fn", "file": "util", "name": "new", "key": "PaletteMapper::new", "impl_of": "PaletteMapper", "ret": "r",
         "body_rewrites": [("for (idx, entry) in palette.entries.iter() {", "for (idx, entry) in it: palette.entries.iter() {")],
         "ensures": ("        r.failure == options.failure, r.transparent == (match options.transparent { Some(t) => t, None => options.failure }),\n"
                     "        // a colour key is mapped iff some palette entry has that colour, and then to (the byte of) the index of such an entry\n"
                     "        forall|m: u32| #[trigger] r.map@.contains_key(m) <==> exists|i: u32| palette.entries@.contains_key(i) && pack_e(#[trigger] palette.entries@[i]) == m as int,\n"
                     "        forall|m: u32| r.map@.contains_key(m) ==> exists|i: u32| #[trigger] src_of(palette.entries@, m, r.map@[m], options.failure, i),"),
         "loops": {1: ("            invariant\n"
                       "                enumerates_ref(it.snapshot@.remaining(), palette.entries@),\n"
                       "                forall|j: int| 0 <= j < it.index@ ==> map@.contains_key(pack_e(*(#[trigger] it.snapshot@.remaining()[j]).1) as u32),\n"
                       "                forall|m: u32| map@.contains_key(m) ==> exists|i: u32| #[trigger] src_of(palette.entries@, m, map@[m], options.failure, i),")},
         "hints": [("let m =",
                    "            proof {\n"
                    "                let (a, b, c) = (entry.rgba8@[0], entry.rgba8@[1], entry.rgba8@[2]);\n"
                    "                assert(((b as u32) << 8) == 256 * (b as u32) && ((c as u32) << 16) == 65536 * (c as u32)) by (bit_vector);\n"
                    "            }", "before"),
                   ("let col = if",
                    "            assert(m as int == pack_e(*entry));\n"
                    "            assert(palette.entries@.contains_key(*idx) && palette.entries@[*idx] == *entry);", "before"),
                   ("let _ = map.insert(m, col);",
                    "            assert(src_of(palette.entries@, m, col, options.failure, *idx));\n"
                    "            let ghost old_map = map@;", "before")],
         "loop_ends": {1: ("            proof {\n"
                           "                assert forall|mm: u32| map@.contains_key(mm) implies exists|i: u32| #[trigger] src_of(palette.entries@, mm, map@[mm], options.failure, i) by {\n"
                           "                    if mm == m {\n"
                           "                        assert(src_of(palette.entries@, mm, map@[mm], options.failure, *idx));\n"
                           "                    } else {\n"
                           "                        assert(old_map.contains_key(mm) && old_map[mm] == map@[mm]);\n"
                           "                        let i = choose|i: u32| #[trigger] src_of(palette.entries@, mm, old_map[mm], options.failure, i);\n"
                           "                        assert(src_of(palette.entries@, mm, map@[mm], options.failure, i));\n"
                           "                    }\n"
                           "                }\n"
                           "            }")},
         },
        {"kind": "fn", "file": "util", "name": "lookup", "key": "PaletteMapper::lookup", "impl_of": "PaletteMapper", "ret": "res",
         "ensures": ("        alpha != 255 ==> res == self.transparent,\n"
                     "        alpha == 255 ==> res == (if self.map@.contains_key(pack(r, g, b) as u32) { self.map@[pack(r, g, b) as u32] } else { self.failure }),"),
         "hints": [("let m =",
                    "        assert(((g as u32) << 8) == 256 * (g as u32) && ((b as u32) << 16) == 65536 * (b as u32)) by (bit_vector);", "before")]},
    ],
}


# ------------------------------------------------------------------------------------------------
# AsepriteFile::tilemap and the Tilemap size accessors (C05 / C08): no division by zero, the assert! cannot fire,
# Some exactly for tilemap cels of tilemap layers whose tileset exists; logical size = ceil(canvas / tile size)
# ------------------------------------------------------------------------------------------------
UNITS["tilemap_api"] = {
    "prelude_sections": UNITS["compose"]["prelude_sections"],
    "items": [it for it in UNITS["compose"]["items"] if not (it.get("kind") == "verbatim" and "single_visible_layer_frame_is_the_cel_image" in it.get("text", ""))] + [
        {"kind": "struct", "file": "cel", "name": "Cel", "keep": None},
        {"kind": "struct", "file": "tilemap", "name": "Tilemap", "keep": None},
        {"kind": "fn", "file": "tileset", "name": "from", "key": "TileSize::into_pair", "impl_of": "TileSize", "impl_filter": r"impl From<TileSize> for \(u32, u32\)", "impl_header": "From<TileSize> for (u32, u32)", "ret": "r"},
        {"kind": "verbatim", "text": """
/// spec side of `impl From<TileSize> for (u32, u32)` (annotation: the exec `from` above is checked against it)
impl vstd::std_specs::convert::FromSpecImpl<TileSize> for (u32, u32) {
    open spec fn obeys_from_spec() -> bool { true }
    open spec fn from_spec(sz: TileSize) -> Self { (sz.width as u32, sz.height as u32) }
}
pub open spec fn ceil_div(a: int, b: int) -> int { (a + b - 1) / b }
"""},
        {"kind": "fn", "file": "file", "name": "num_frames", "impl_of": "AsepriteFile", "ret": "r", "ensures": "        r == self.num_frames as u32,"},
        {"kind": "fn", "file": "file", "name": "width", "key": "AsepriteFile::width", "impl_of": "AsepriteFile", "ret": "r", "ensures": "        r == self.width as usize,"},
        {"kind": "fn", "file": "file", "name": "height", "key": "AsepriteFile::height", "impl_of": "AsepriteFile", "ret": "r", "ensures": "        r == self.height as usize,"},
        {"kind": "fn", "file": "file", "name": "size", "key": "AsepriteFile::size", "impl_of": "AsepriteFile", "ret": "r", "ensures": "        r == (self.width as usize, self.height as usize),"},
        {"kind": "fn", "file": "file", "name": "cel", "key": "AsepriteFile::cel", "impl_of": "AsepriteFile", "ret": "r",
         "requires": "        self.layers.layers.len() <= 65536, frame < self.num_frames as u32, (layer as int) < self.layers.layers.len(),",
         "ensures": "        r.cel_id.frame as u32 == frame, r.cel_id.layer as u32 == layer, r.file == self,"},
        {"kind": "fn", "file": "cel", "name": "raw_cel", "impl_of": "Cel", "impl_header": "<'a> Cel<'a>", "ret": "r",
         "requires": "        (self.cel_id.frame as int) < self.file.framedata.data.len(),",
         "ensures": ("        (r is Some) == (self.file.framedata.at(self.cel_id.frame as int, self.cel_id.layer as int) is Some),\n"
                     "        r is Some ==> *(r->0) == self.file.framedata.at(self.cel_id.frame as int, self.cel_id.layer as int)->0,")},
        {"kind": "fn", "file": "cel", "name": "is_tilemap", "key": "Cel::is_tilemap", "impl_of": "Cel", "impl_header": "<'a> Cel<'a>", "ret": "r",
         "requires": "        (self.cel_id.frame as int) < self.file.framedata.data.len(),",
         "ensures": "        r == (self.file.framedata.at(self.cel_id.frame as int, self.cel_id.layer as int) is Some && self.file.framedata.at(self.cel_id.frame as int, self.cel_id.layer as int)->0.content is Tilemap),"},
        {"kind": "fn", "file": "file", "name": "tilemap", "key": "AsepriteFile::tilemap", "impl_of": "AsepriteFile", "ret": "r", "rules": ["R1", "R6"],
         "hints": [("let h = (pixel_height + tile_height - 1) / tile_height;",
                    "                assert((1u32 << 16) == 65536u32) by (bit_vector);\n"
                    "                assert(((pixel_width + tile_width - 1) as int) / (tile_width as int) <= 65535) by (nonlinear_arith)\n"
                    "                    requires 0 <= (pixel_width as int) <= 65535, 1 <= (tile_width as int) <= 65535, (pixel_width + tile_width - 1) as int == pixel_width as int + tile_width as int - 1;\n"
                    "                assert(((pixel_height + tile_height - 1) as int) / (tile_height as int) <= 65535) by (nonlinear_arith)\n"
                    "                    requires 0 <= (pixel_height as int) <= 65535, 1 <= (tile_height as int) <= 65535, (pixel_height + tile_height - 1) as int == pixel_height as int + tile_height as int - 1;", "after")],
         "requires": ("        file_ok(self),\n"
                      "        // established when a tileset chunk is parsed (dec_tileset: tile size >= 1)\n"
                      "        forall|id: u32| self.tilesets.map().dom().contains(id) ==> (#[trigger] self.tilesets.map()[id]).tile_size.width >= 1 && self.tilesets.map()[id].tile_size.height >= 1,"),
         "ensures": ("        r is Some <==> ((layer_id as int) < self.layers.layers.len() && frame < self.num_frames as u32\n"
                     "            && self.layers.layers[layer_id as int].layer_type is Tilemap\n"
                     "            && self.tilesets.map().dom().contains(self.layers.layers[layer_id as int].layer_type->Tilemap_0)\n"
                     "            && self.framedata.at(frame as int, layer_id as int) is Some && self.framedata.at(frame as int, layer_id as int)->0.content is Tilemap),\n"
                     "        r is Some ==> ({ let ts = self.tilesets.map()[self.layers.layers[layer_id as int].layer_type->Tilemap_0];\n"
                     "            &&& *(r->0).tileset == ts && (r->0).cel.file == self && (r->0).cel.cel_id.frame as u32 == frame && (r->0).cel.cel_id.layer as u32 == layer_id\n"
                     "            // the logical size covers the whole canvas: ceil(canvas / tile size) tiles\n"
                     "            &&& (r->0).logical_size.0 as int == ceil_div(self.width as int, ts.tile_size.width as int)\n"
                     "            &&& (r->0).logical_size.1 as int == ceil_div(self.height as int, ts.tile_size.height as int) }),")},
        {"kind": "struct", "file": "file", "name": "Frame", "keep": None},
        {"kind": "fn", "file": "file", "name": "image", "key": "Frame::image", "impl_of": "Frame", "impl_header": "<'a> Frame<'a>", "ret": "r",
         "requires": "        file_ok(self.file), (self.index as int) < self.file.framedata.data.len(), self.index <= 65535,",
         "ensures": ("        // Frame::image is frame_image of this frame: the fold of its cels in layer order, hidden layers skipped\n"
                     "        r.w() == self.file.width, r.h() == self.file.height,\n"
                     "        forall|cx: int, cy: int| 0 <= cx < r.w() && 0 <= cy < r.h() ==>\n"
                     "            #[trigger] r.at(cx, cy) == frame_px(self.file, cels_of(self.file.framedata.data[self.index as int]@), cels_of(self.file.framedata.data[self.index as int]@).len() as int, cx, cy),")},
        {"kind": "fn", "file": "cel", "name": "image", "key": "Cel::image", "impl_of": "Cel", "impl_header": "<'a> Cel<'a>", "ret": "r",
         "requires": "        file_ok(self.file), (self.cel_id.frame as int) < self.file.framedata.data.len(),",
         "ensures": ("        r.w() == self.file.width, r.h() == self.file.height,\n"
                     "        forall|cx: int, cy: int| 0 <= cx < r.w() && 0 <= cy < r.h() ==>\n"
                     "            #[trigger] r.at(cx, cy) == (match self.file.framedata.at(self.cel_id.frame as int, self.cel_id.layer as int) {\n"
                     "                Some(c) => cel_px(self.file, &c, Rgba([0u8, 0u8, 0u8, 0u8]), cx, cy),\n"
                     "                None => Rgba([0u8, 0u8, 0u8, 0u8]),\n"
                     "            }),")},
        {"kind": "fn", "file": "tilemap", "name": "image", "key": "Tilemap::image", "impl_of": "Tilemap", "impl_header": "<'a> Tilemap<'a>", "ret": "r",
         "requires": "        file_ok(self.cel.file), (self.cel.cel_id.frame as int) < self.cel.file.framedata.data.len(),",
         "ensures": ("        // C19 / C08: a tilemap's image is the image of its cel\n        r.w() == self.cel.file.width, r.h() == self.cel.file.height,\n"
                     "        forall|cx: int, cy: int| 0 <= cx < r.w() && 0 <= cy < r.h() ==>\n"
                     "            #[trigger] r.at(cx, cy) == (match self.cel.file.framedata.at(self.cel.cel_id.frame as int, self.cel.cel_id.layer as int) {\n"
                     "                Some(c) => cel_px(self.cel.file, &c, Rgba([0u8, 0u8, 0u8, 0u8]), cx, cy),\n"
                     "                None => Rgba([0u8, 0u8, 0u8, 0u8]),\n"
                     "            }),")},
        {"kind": "fn", "file": "tilemap", "name": "width", "key": "Tilemap::width", "impl_of": "Tilemap", "impl_header": "<'a> Tilemap<'a>", "ret": "r", "ensures": "        r == self.logical_size.0 as u32,"},
        {"kind": "fn", "file": "tilemap", "name": "height", "key": "Tilemap::height", "impl_of": "Tilemap", "impl_header": "<'a> Tilemap<'a>", "ret": "r", "ensures": "        r == self.logical_size.1 as u32,"},
        {"kind": "fn", "file": "tilemap", "name": "tile_size", "key": "Tilemap::tile_size", "impl_of": "Tilemap", "impl_header": "<'a> Tilemap<'a>", "ret": "r",
         "ensures": "        r == (self.tileset.tile_size.width as u32, self.tileset.tile_size.height as u32),"},
    ],
}


# ------------------------------------------------------------------------------------------------
# Tileset::image / Tileset::tile_image (C05 for tilesets): on a tileset that loaded, neither panics and both have
# their documented dimensions and pixels. The precondition ts_wf is what Tileset::parse_chunk (unit dec_tileset)
# establishes and TilesetsById::validate (unit validate_tilesets: tileset_validated) preserves.
# ------------------------------------------------------------------------------------------------
TSI = {"impl_of": "Tileset", "impl_filter": r"impl\s+Tileset<Pixels>", "impl_header": "Tileset<Pixels>"}
UNITS["tileset_image"] = {
    "prelude_sections": ["errors", "arch", "rgba_only", "intmap", "utils_shims"],
    "items": [it for it in UNITS["pixels"]["items"]] + [
        {"kind": "struct", "file": "external_file", "name": "ExternalFileId", "keep": None, "attrs": "#[derive(Clone, Copy, PartialEq, Eq)]\n"},
        {"kind": "struct", "file": "tileset", "name": "ExternalTilesetReference", "keep": None},
        {"kind": "struct", "file": "tileset", "name": "TileSize", "keep": None, "attrs": "#[derive(Clone, Copy)]\n"},
        {"kind": "struct", "file": "tileset", "name": "Tileset", "keep": None},
        {"kind": "fn", "file": "tileset", "name": "width", "key": "TileSize::width", "impl_of": "TileSize", "ret": "r", "ensures": "        r == self.width,"},
        {"kind": "fn", "file": "tileset", "name": "height", "key": "TileSize::height", "impl_of": "TileSize", "ret": "r", "ensures": "        r == self.height,"},
        {"kind": "fn", "file": "tileset", "name": "pixels_per_tile", "key": "TileSize::pixels_per_tile", "impl_of": "TileSize", "ret": "r",
         "ensures": "        r as int == (self.width as int) * (self.height as int),",
         "hints": [("{", "        assert((self.width as int) * (self.height as int) <= 0xffff * 0xffff) by (nonlinear_arith)\n            requires 0 <= (self.width as int) <= 0xffff, 0 <= (self.height as int) <= 0xffff;", "after")]},
        {"kind": "fn", "file": "tileset", "name": "tile_count", "key": "Tileset::tile_count", "impl_of": "Tileset", "impl_filter": r"impl<P>\s+Tileset<P>", "impl_header": "<P> Tileset<P>", "ret": "r", "ensures": "        r == self.tile_count,"},
        {"kind": "verbatim", "text": """
/// the RGBA pixels of a validated pixel store, and the shims for the iterator chains over them
/// (TRUSTED: std iterator adapters; R19 / R20 name the replaced text; the chains are executed by Engine X)
#[verifier::external_body]
pub struct RgbaCow<'a> { _p: core::marker::PhantomData<&'a u8> }
impl<'a> RgbaCow<'a> {
    pub uninterp spec fn view(&self) -> Seq<Rgba<u8>>;
}
impl Pixels {
    pub open spec fn px_len(&self) -> nat {
        match self { Pixels::Rgba(d) => d@.len(), Pixels::Grayscale(d) => d@.len(), Pixels::Indexed { data, .. } => data@.len() }
    }
    pub uninterp spec fn rgba(&self) -> Seq<Rgba<u8>>;
    /// ASSUMED: one RGBA pixel per stored pixel, no panic on validated pixels (per-pixel conversions: unit pixels)
    #[verifier::external_body]
    pub fn clone_as_image_rgba(&self) -> (r: RgbaCow<'_>)
        ensures r.view() == self.rgba(), self.rgba().len() == self.px_len(),
    { unimplemented!() }
}
pub open spec fn imin(a: int, b: int) -> int { if a < b { a } else { b } }
/// R19: `C.iter().copied().skip(S).take(N).flat_map(|pixel| pixel.0).collect()` - the bytes of pixels S .. S+N (clipped)
#[verifier::external_body]
pub fn flat_window(c: &RgbaCow<'_>, skip: usize, take: usize) -> (r: Vec<u8>)
    ensures r@.len() == 4 * imin(take as int, if c.view().len() >= skip { c.view().len() - skip } else { 0 }),
        forall|i: int, k: int| 0 <= i && 0 <= k < 4 && 4 * i + k < r@.len() ==> #[trigger] r@[4 * i + k] == c.view()[skip + i].0@[k],
{ unimplemented!() }
/// R20: `C.iter().copied().flat_map(|pixel| pixel.0).collect()` - the bytes of all pixels
#[verifier::external_body]
pub fn flat_all(c: &RgbaCow<'_>) -> (r: Vec<u8>)
    ensures r@.len() == 4 * c.view().len(),
        forall|i: int, k: int| 0 <= i < c.view().len() && 0 <= k < 4 ==> #[trigger] r@[4 * i + k] == c.view()[i].0@[k],
{ unimplemented!() }
/// C05 for tilesets: what loading establishes (dec_tileset: ts_head_ok + pixel count; validate_tilesets: preserved)
pub open spec fn ts_wf(t: &Tileset<Pixels>) -> bool {
    &&& t.pixels is Some
    &&& t.tile_size.width >= 1 && t.tile_size.height >= 1
    &&& (t.tile_count as int) * (t.tile_size.height as int) <= 0xffff_ffff
    &&& t.pixels->0.px_len() == (t.tile_count as int) * (t.tile_size.height as int) * (t.tile_size.width as int)
}
"""},
        dict(TSI, kind="fn", file="tileset", name="image", key="Tileset::image", ret="r", rules=["R1", "R15"],
             body_rewrites=[(r"re:pixels\s*\.clone_as_image_rgba\(\)\s*\.iter\(\)\s*\.copied\(\)\s*\.flat_map\(\|(\w+)\| \1\.0\)\s*\.collect\(\)", "flat_all(&pixels.clone_as_image_rgba())")],
             requires="        ts_wf(self),",
             ensures=("        // documented: all tiles in one vertical strip, width = tile width, height = tile height * tile count\n"
                      "        r.w() == self.tile_size.width, r.h() == (self.tile_size.height as int) * (self.tile_count as int),\n"
                      "        r.raw().len() == 4 * self.pixels->0.px_len(),\n"
                      "        forall|i: int, k: int| 0 <= i < self.pixels->0.px_len() && 0 <= k < 4 ==> #[trigger] r.raw()[4 * i + k] == self.pixels->0.rgba()[i].0@[k],"),
             hints=[("let image_height =",
                     "        assert((self.tile_size.height as int) * (self.tile_count as int) == (self.tile_count as int) * (self.tile_size.height as int)) by (nonlinear_arith);", "before"),
                    ("RgbaImage::from_raw(",
                     "        assert(4 * (width as int) * (image_height as int) == 4 * ((self.tile_count as int) * (self.tile_size.height as int) * (self.tile_size.width as int))) by (nonlinear_arith)\n"
                     "            requires width as int == self.tile_size.width as int, image_height as int == (self.tile_size.height as int) * (self.tile_count as int);", "before")]),
        dict(TSI, kind="fn", file="tileset", name="tile_image", key="Tileset::tile_image", ret="r", rules=["R1", "R15"],
             body_rewrites=[(r"re:pixels\s*\.clone_as_image_rgba\(\)\s*\.iter\(\)\s*\.copied\(\)\s*\.skip\(([^()]+)\)\s*\.take\(([^()]+)\)\s*\.flat_map\(\|(\w+)\| \3\.0\)\s*\.collect\(\)",
                             r"flat_window(&pixels.clone_as_image_rgba(), \1, \2)")],
             requires="        ts_wf(self),\n        // documented panic: the tile index has to be in range\n        tile_index < self.tile_count,",
             ensures=("        r.w() == self.tile_size.width, r.h() == self.tile_size.height,\n"
                      "        // tile t is the t-th block of width * height pixels of the strip\n"
                      "        r.raw().len() == 4 * (self.tile_size.width as int) * (self.tile_size.height as int),\n"
                      "        forall|i: int, k: int| 0 <= i < (self.tile_size.width as int) * (self.tile_size.height as int) && 0 <= k < 4 ==>\n"
                      "            #[trigger] r.raw()[4 * i + k] == self.pixels->0.rgba()[(tile_index as int) * ((self.tile_size.width as int) * (self.tile_size.height as int)) + i].0@[k],"),
             hints=[("let pixels_per_tile =",
                     "        assert((width as int) * (height as int) <= 0xffff * 0xffff) by (nonlinear_arith)\n"
                     "            requires 0 <= (width as int) <= 0xffff, 0 <= (height as int) <= 0xffff;", "before"),
                    ("let start_ofs =",
                     "        let ghost wh = (width as int) * (height as int);\n"
                     "        assert((tile_index as int + 1) * wh <= (self.tile_count as int) * wh) by (nonlinear_arith)\n"
                     "            requires (tile_index as int) + 1 <= (self.tile_count as int), wh >= 0;\n"
                     "        assert((self.tile_count as int) * wh == (self.tile_count as int) * (self.tile_size.height as int) * (self.tile_size.width as int)) by (nonlinear_arith)\n"
                     "            requires wh == (self.tile_size.width as int) * (self.tile_size.height as int);\n"
                     "        assert((tile_index as int + 1) * wh == (tile_index as int) * wh + wh) by (nonlinear_arith);\n"
                     "        assert((tile_index as int) * wh >= 0) by (nonlinear_arith) requires tile_index >= 0, wh >= 0;\n"
                     "        assert((tile_index as int) * wh <= 0xffff_ffff * (0xffff * 0xffff)) by (nonlinear_arith) requires 0 <= (tile_index as int) <= 0xffff_ffff, 0 <= wh <= 0xffff * 0xffff;\n"
                     "        assert(pixels_per_tile as int == wh);", "before"),
                    ("RgbaImage::from_raw(",
                     "        assert(4 * (width as int) * (height as int) == 4 * wh) by (nonlinear_arith) requires wh == (width as int) * (height as int);", "before")]),
        {"kind": "verbatim", "fn_name": "strip_is_the_tiles_stacked", "text": """
/// byte k of pixel (x, y) of a row-major RGBA buffer that is w pixels wide
pub open spec fn px_byte(raw: Seq<u8>, w: int, x: int, y: int, k: int) -> u8 { raw[4 * (y * w + x) + k] }
/// C08 (last sentence) as a client of the two contracts: byte k of pixel (x, y) of tile t is byte k of pixel
/// (x, t * tile height + y) of the full image (both row-major, 4 bytes per pixel), and the tile image has the tile size
pub fn strip_is_the_tiles_stacked(ts: &Tileset<Pixels>, t: u32)
    requires ts_wf(ts), t < ts.tile_count,
{
    let full = ts.image();
    let tile = ts.tile_image(t);
    proof {
        let w = ts.tile_size.width as int;
        let h = ts.tile_size.height as int;
        let n = ts.tile_count as int;
        assert(tile.w() == w && tile.h() == h && full.w() == w && full.h() == h * n);
        assert forall|x: int, y: int, k: int| 0 <= x < w && 0 <= y < h && 0 <= k < 4 implies
            #[trigger] px_byte(tile.raw(), w, x, y, k) == px_byte(full.raw(), w, x, (t as int) * h + y, k) by {
            let i = y * w + x;
            assert(0 <= i < w * h) by (nonlinear_arith) requires 0 <= x < w, 0 <= y < h, i == y * w + x;
            assert(((t as int) * h + y) * w + x == (t as int) * (w * h) + i) by (nonlinear_arith) requires i == y * w + x;
            let j = (t as int) * (w * h) + i;
            assert(0 <= j < n * h * w) by (nonlinear_arith) requires 0 <= (t as int) < n, 0 <= i < w * h, j == (t as int) * (w * h) + i;
            assert(tile.raw()[4 * i + k] == ts.pixels->0.rgba()[j].0@[k]);
            assert(full.raw()[4 * j + k] == ts.pixels->0.rgba()[j].0@[k]);
        }
    }
}
"""},
    ],
}


# ------------------------------------------------------------------------------------------------
# The bulk readers and the pixel readers (C05 / C06 link "decoded pixel count == declared pixel count"; C07 / C13:
# exactly the declared number of bytes is consumed, fewer is an error): AseReader::{take_bytes, unzip, read_bytes},
# pixel::output_size, RawPixels::{from_bytes, from_raw, from_compressed}
# ------------------------------------------------------------------------------------------------
RDR = {"impl_of": "AseReader", "impl_filter": r"impl<T: Read>\s+AseReader<T>", "impl_header": "AseReader",
       }
UNITS["pixel_readers"] = {
    "prelude_sections": ["arch", "rgba_only"],
    "items": [
        {"kind": "verbatim", "text": """
pub struct IoErr { pub kind: u8 }
pub enum AsepriteParseError {
    InvalidInput(String),
    UnsupportedFeature(String),
    InternalError(String),
    IoError(IoErr),
}
pub type Result<T> = core::result::Result<T, AsepriteParseError>;
pub open spec fn imin(a: int, b: int) -> int { if a < b { a } else { b } }
/// TRUSTED model of a byte source (any `T: Read`, and flate2's ZlibDecoder over one): `rest()` = the bytes it still
/// delivers, `fails()` = it reports an I/O error instead of delivering them all. `take(n).read_to_end(buf)` has std's
/// documented semantics: appends the next min(n, rest) bytes; an I/O error is returned already converted by `?`
/// (`impl From<io::Error> for AsepriteParseError` is `IoError(e)`: k_error_mapping), which folds `?`'s conversion into the shim
#[verifier::external_body]
pub struct Input { _p: core::marker::PhantomData<u8> }
pub struct Take { pub src: Input, pub limit: u64 }
impl Input {
    pub uninterp spec fn rest(&self) -> Seq<u8>;
    pub uninterp spec fn fails(&self) -> bool;
    pub fn take(self, limit: u64) -> (r: Take)
        ensures r.src == self, r.limit == limit,
    { Take { src: self, limit } }
}
impl Input {
    /// R21: `X.by_ref().take(N).read_to_end(B)` (the source stays usable afterwards) -> `X.read_up_to(N, B)`
    #[verifier::external_body]
    pub fn read_up_to(&mut self, limit: u64, buf: &mut Vec<u8>) -> (r: Result<usize>)
        ensures
            !old(self).fails() ==> r is Ok,
            r is Err ==> r->Err_0 is IoError,
            final(self).fails() == old(self).fails(),
            r is Ok ==> ({ let n = imin(limit as int, old(self).rest().len() as int);
                &&& r->Ok_0 == n
                &&& final(buf)@ == old(buf)@ + old(self).rest().subrange(0, n)
                &&& final(self).rest() == old(self).rest().subrange(n, old(self).rest().len() as int) }),
    { unimplemented!() }
}
/// assumed contract of std's Result::and_then (vstd has the Option one only): Err passes through, Ok goes through the closure
pub assume_specification<T, E, U, F: FnOnce(T) -> core::result::Result<U, E>>[ core::result::Result::<T, E>::and_then ](res: core::result::Result<T, E>, f: F) -> (b: core::result::Result<U, E>)
    requires res is Ok ==> f.requires((res->Ok_0,)),
    ensures res is Err ==> b is Err && b->Err_0 == res->Err_0, res is Ok ==> f.ensures((res->Ok_0,), b),
;
impl Input {
    /// byteorder's read_u16::<LittleEndian> on the source (TRUSTED; `?` conversion folded in as for read_to_end)
    #[verifier::external_body]
    pub fn read_u16_le(&mut self) -> (r: Result<u16>)
        ensures final(self).fails() == old(self).fails(),
            (!old(self).fails() && old(self).rest().len() >= 2) ==> r is Ok,
            old(self).rest().len() < 2 ==> r is Err,
            r is Err ==> r->Err_0 is IoError,
            r is Ok ==> old(self).rest().len() >= 2 && r->Ok_0 as int == old(self).rest()[0] as int + 256 * (old(self).rest()[1] as int)
                && final(self).rest() == old(self).rest().subrange(2, old(self).rest().len() as int),
    { unimplemented!() }
    /// std::io::Read::read_exact (TRUSTED): fills the whole buffer with the next bytes or fails
    #[verifier::external_body]
    pub fn read_exact(&mut self, buf: &mut Vec<u8>) -> (r: Result<()>)
        ensures final(self).fails() == old(self).fails(), final(buf)@.len() == old(buf)@.len(),
            (!old(self).fails() && old(self).rest().len() >= old(buf)@.len()) ==> r is Ok,
            old(self).rest().len() < old(buf)@.len() ==> r is Err,
            r is Err ==> r->Err_0 is IoError,
            r is Ok ==> old(self).rest().len() >= old(buf)@.len() && final(buf)@ == old(self).rest().subrange(0, old(buf)@.len() as int)
                && final(self).rest() == old(self).rest().subrange(old(buf)@.len() as int, old(self).rest().len() as int),
    { unimplemented!() }
}
/// `vec![0_u8; n]` (R27): n zero bytes
#[verifier::external_body]
pub fn zeroed(n: usize) -> (r: Vec<u8>)
    ensures r@.len() == n,
{ vec![0_u8; n] }
/// String::from_utf8 followed by `?` (TRUSTED; the conversion `From<FromUtf8Error>` is InvalidInput): Ok iff the bytes are UTF-8
pub uninterp spec fn utf8_ok(b: Seq<u8>) -> bool;
pub uninterp spec fn utf8_text(b: Seq<u8>) -> Seq<char>;
#[verifier::external_body]
pub fn string_from_utf8(b: Vec<u8>) -> (r: Result<String>)
    ensures (r is Ok) == utf8_ok(b@), r is Ok ==> r->Ok_0@ == utf8_text(b@), r is Err ==> r->Err_0 is InvalidInput,
{ unimplemented!() }
/// `std::io::Error::from(std::io::ErrorKind::UnexpectedEof).into()` (R22)
pub fn io_eof() -> (r: AsepriteParseError)
    ensures r is IoError,
{ AsepriteParseError::IoError(IoErr { kind: 1 }) }
impl Take {
    #[verifier::external_body]
    pub fn read_to_end(&mut self, buf: &mut Vec<u8>) -> (r: Result<usize>)
        ensures
            !old(self).src.fails() ==> r is Ok,
            r is Err ==> r->Err_0 is IoError,
            r is Ok ==> ({ let n = imin(old(self).limit as int, old(self).src.rest().len() as int);
                &&& r->Ok_0 == n
                &&& final(buf)@ == old(buf)@ + old(self).src.rest().subrange(0, n)
                &&& final(self).src.rest() == old(self).src.rest().subrange(n, old(self).src.rest().len() as int) }),
    { unimplemented!() }
}
/// flate2::read::ZlibDecoder::new (TRUSTED): a byte source delivering the inflated stream; a corrupt stream is an I/O error
pub uninterp spec fn inflated(z: Seq<u8>) -> Seq<u8>;
pub uninterp spec fn zlib_corrupt(z: Seq<u8>) -> bool;
pub struct ZlibDecoder {}
impl ZlibDecoder {
    #[verifier::external_body]
    pub fn new(input: Input) -> (r: Input)
        ensures r.rest() == inflated(input.rest()), r.fails() == (input.fails() || zlib_corrupt(input.rest())),
    { unimplemented!() }
}
"""},
        {"kind": "struct", "file": "reader", "name": "AseReader", "keep": None, "header": "struct AseReader ", "rewrites": [("input: T", "input: Input")]},
        dict(RDR, kind="fn", file="reader", name="take_bytes", key="AseReader::take_bytes", ret="r", rules=["R1", "R6", "R11"],
             ensures=("        // exactly the declared number of bytes, or an error - never fewer, never more (C05 / C06 / C13)\n"
                      "        r is Ok ==> r->Ok_0@.len() == limit && r->Ok_0@ =~= self.input.rest().subrange(0, limit as int),\n"
                      "        r is Ok ==> self.input.rest().len() >= limit,\n"
                      "        // C07: bytes after the declared ones do not matter\n"
                      "        (!self.input.fails() && self.input.rest().len() >= limit) ==> r is Ok,")),
        dict(RDR, kind="fn", file="reader", name="read_bytes", key="AseReader::read_bytes", ret="r", rules=["R1", "R6", "R11"],
             body_rewrites=[(r"re:self\s*\.input\s*\.by_ref\(\)\s*\.take\(([^()]+)\)\s*\.read_to_end\(&mut (\w+)\)\?;", r"self.input.read_up_to(\1, &mut \2)?;"),
                            ("std::io::Error::from(std::io::ErrorKind::UnexpectedEof).into()", "io_eof()")],
             ensures=("        // C13: exactly `count` bytes or an error (a short read is the I/O error UnexpectedEof); C14: the I/O error is returned\n"
                      "        r is Ok ==> r->Ok_0@.len() == count && old(self).input.rest().len() >= count && r->Ok_0@ =~= old(self).input.rest().subrange(0, count as int),\n"
                      "        r is Ok ==> final(self).input.rest() == old(self).input.rest().subrange(count as int, old(self).input.rest().len() as int),\n"
                      "        r is Err ==> r->Err_0 is IoError,\n"
                      "        (!old(self).input.fails() && old(self).input.rest().len() >= count) ==> r is Ok,\n"
                      "        old(self).input.rest().len() < count ==> r is Err,")),
        dict(RDR, kind="fn", file="reader", name="string", key="AseReader::string", ret="r", rules=["R1", "R6", "R11"],
             body_rewrites=[("self.input.read_u16::<LittleEndian>()?", "self.input.read_u16_le()?"), ("vec![0_u8; str_len as usize]", "zeroed(str_len as usize)"),
                            ("String::from_utf8(str_bytes)?", "string_from_utf8(str_bytes)?")],
             prologue="        let ghost d0 = self.input.rest();",
             hints=[("let s =", "        assert(str_bytes@ =~= d0.subrange(2, 2 + (str_len as int)));\n        assert(self.input.rest() =~= d0.subrange(2 + (str_len as int), d0.len() as int));", "before")],
             ensures=("        // STRING = little-endian u16 length, then exactly that many bytes, which have to be UTF-8 (C01: names as stored)\n"
                      "        r is Ok ==> ({ let d = old(self).input.rest(); let n = d[0] as int + 256 * (d[1] as int);\n"
                      "            &&& d.len() >= 2 + n && utf8_ok(d.subrange(2, 2 + n)) && r->Ok_0@ == utf8_text(d.subrange(2, 2 + n))\n"
                      "            &&& final(self).input.rest() =~= d.subrange(2 + n, d.len() as int) }),\n"
                      "        // C13: fewer bytes than declared is an error; bytes that are not UTF-8 are InvalidInput\n"
                      "        old(self).input.rest().len() < 2 ==> r is Err,\n"
                      "        old(self).input.rest().len() >= 2 && old(self).input.rest().len() < 2 + old(self).input.rest()[0] as int + 256 * (old(self).input.rest()[1] as int) ==> r is Err,\n"
                      "        (!old(self).input.fails() && old(self).input.rest().len() >= 2 && ({ let d = old(self).input.rest(); let n = d[0] as int + 256 * (d[1] as int); d.len() >= 2 + n && utf8_ok(d.subrange(2, 2 + n)) })) ==> r is Ok,")),
        dict(RDR, kind="fn", file="reader", name="skip_reserved", key="AseReader::skip_reserved", ret="r", rules=["R1", "R6", "R11"],
             body_rewrites=[("vec![0_u8; count]", "zeroed(count)"), (".map_err(to_ase)", "")],
             ensures=("        // exactly `count` bytes are consumed, or the call fails\n"
                      "        r is Ok ==> old(self).input.rest().len() >= count && final(self).input.rest() == old(self).input.rest().subrange(count as int, old(self).input.rest().len() as int),\n"
                      "        old(self).input.rest().len() < count ==> r is Err,\n"
                      "        (!old(self).input.fails() && old(self).input.rest().len() >= count) ==> r is Ok,")),
        dict(RDR, kind="fn", file="reader", name="unzip", key="AseReader::unzip", ret="r", rules=["R1", "R6", "R11"],
             ensures=("        // the inflated stream has exactly the expected size, or the load fails\n"
                      "        r is Ok ==> r->Ok_0@.len() == expected_output_size && inflated(self.input.rest()).len() >= expected_output_size\n"
                      "            && r->Ok_0@ =~= inflated(self.input.rest()).subrange(0, expected_output_size as int),\n"
                      "        // ... and nothing follows it (one more byte is requested to see that; usize::MAX itself cannot be exceeded)\n"
                      "        (r is Ok && expected_output_size < usize::MAX) ==> inflated(self.input.rest()).len() == expected_output_size,\n"
                      "        (!self.input.fails() && !zlib_corrupt(self.input.rest()) && inflated(self.input.rest()).len() == expected_output_size) ==> r is Ok,")),
        {"kind": "enum", "file": "file", "name": "PixelFormat", "attrs": "#[derive(Clone, Copy)]\n"},
        {"kind": "fn", "file": "file", "name": "bytes_per_pixel", "impl_of": "PixelFormat", "ret": "r",
         "ensures": "        r == bpp(*self),"},
        {"kind": "struct", "file": "pixel", "name": "Grayscale", "keep": None, "attrs": "#[derive(Clone, Copy)]\n"},
        {"kind": "enum", "file": "pixel", "name": "RawPixels"},
        {"kind": "verbatim", "text": """
pub open spec fn bpp(f: PixelFormat) -> usize { match f { PixelFormat::Rgba => 4usize, PixelFormat::Grayscale => 2usize, PixelFormat::Indexed { .. } => 1usize } }
impl RawPixels {
    pub open spec fn px_len(&self) -> nat {
        match self { RawPixels::Rgba(d) => d@.len(), RawPixels::Grayscale(d) => d@.len(), RawPixels::Indexed(d) => d@.len() }
    }
}
/// C06: how stored bytes become pixels - RGBA verbatim (4 bytes), grayscale (value, alpha) pairs, indexed one byte each
pub open spec fn decodes(px: RawPixels, b: Seq<u8>, f: PixelFormat) -> bool {
    match f {
        PixelFormat::Rgba => px is Rgba && 4 * px->Rgba_0@.len() == b.len()
            && forall|i: int, k: int| 0 <= i < px->Rgba_0@.len() && 0 <= k < 4 ==> (#[trigger] px->Rgba_0@[i].0@[k]) == b[4 * i + k],
        PixelFormat::Grayscale => px is Grayscale && 2 * px->Grayscale_0@.len() == b.len()
            && forall|i: int| 0 <= i < px->Grayscale_0@.len() ==> (#[trigger] px->Grayscale_0@[i]).value == b[2 * i] && px->Grayscale_0@[i].alpha == b[2 * i + 1],
        PixelFormat::Indexed { .. } => px is Indexed && px->Indexed_0@ == b,
    }
}
/// R23 / R24: `B.chunks_exact(2).map(Grayscale::new).collect()` and `B.chunks_exact(4).map(read_rgba).collect()` (TRUSTED shims
/// for the iterator chains; the per-chunk constructors read 2 / 4 bytes in order: Kani k_from_bytes_*, k_gray_rgba)
#[verifier::external_body]
pub fn collect_gray(b: &Vec<u8>) -> (r: Result<Vec<Grayscale>>)
    ensures r is Ok, r->Ok_0@.len() == b@.len() / 2,
        forall|i: int| 0 <= i < r->Ok_0@.len() ==> (#[trigger] r->Ok_0@[i]).value == b@[2 * i] && r->Ok_0@[i].alpha == b@[2 * i + 1],
{ unimplemented!() }
#[verifier::external_body]
pub fn collect_rgba(b: &Vec<u8>) -> (r: Result<Vec<Rgba<u8>>>)
    ensures r is Ok, r->Ok_0@.len() == b@.len() / 4,
        forall|i: int, k: int| 0 <= i < r->Ok_0@.len() && 0 <= k < 4 ==> (#[trigger] r->Ok_0@[i].0@[k]) == b@[4 * i + k],
{ unimplemented!() }
"""},
        {"kind": "fn", "file": "pixel", "name": "output_size", "ret": "r",
         "requires": "        bpp(pixel_format) * expected_pixel_count <= usize::MAX,",
         "ensures": "        r == bpp(pixel_format) * expected_pixel_count,"},
        {"kind": "fn", "file": "pixel", "name": "from_bytes", "key": "RawPixels::from_bytes", "impl_of": "RawPixels", "ret": "r", "rules": ["R1", "R6", "R11"],
         "body_rewrites": [(r"re:bytes\s*\.chunks_exact\(2\)\s*\.map\(Grayscale::new\)\s*\.collect\(\)", "collect_gray(&bytes)"),
                           (r"re:bytes\s*\.chunks_exact\(4\)\s*\.map\(read_rgba\)\s*\.collect\(\)", "collect_rgba(&bytes)"),
                           ("pixels.map(Self::Grayscale)", "match pixels { Ok(v) => Ok(Self::Grayscale(v)), Err(e) => Err(e) }"),
                           ("pixels.map(Self::Rgba)", "match pixels { Ok(v) => Ok(Self::Rgba(v)), Err(e) => Err(e) }")],
         "ensures": ("        // a byte count that is not a whole number of pixels is refused, everything else decodes (C06)\n"
                     "        (r is Ok) == ((bytes@.len() as int) % (bpp(pixel_format) as int) == 0),\n"
                     "        r is Ok ==> decodes(r->Ok_0, bytes@, pixel_format) && r->Ok_0.px_len() == (bytes@.len() as int) / (bpp(pixel_format) as int),")},
        {"kind": "fn", "file": "pixel", "name": "from_raw", "key": "RawPixels::from_raw", "impl_of": "RawPixels", "ret": "r", "rules": ["R1", "R6", "R11"],
         "sig_rewrites": [("<T: Read>", ""), ("AseReader<T>", "AseReader")],
         "closures": [{"after": ".and_then(", "params": "bytes: Vec<u8>", "ret": "o: Result<RawPixels>",
                       "ensures": "(o is Ok) == ((bytes@.len() as int) % (bpp(pixel_format) as int) == 0), o is Ok ==> decodes(o->Ok_0, bytes@, pixel_format) && o->Ok_0.px_len() == (bytes@.len() as int) / (bpp(pixel_format) as int)"}],
         "prologue": (
                    "        assert(((bpp(pixel_format) as int) * (expected_pixel_count as int)) % (bpp(pixel_format) as int) == 0 && ((bpp(pixel_format) as int) * (expected_pixel_count as int)) / (bpp(pixel_format) as int) == expected_pixel_count as int) by (nonlinear_arith)\n"
                    "            requires 1 <= (bpp(pixel_format) as int) <= 4, 0 <= (expected_pixel_count as int);"),
         "requires": "        bpp(pixel_format) * expected_pixel_count <= usize::MAX,",
         "ensures": ("        // C05 / C06: a raw cel that loads has exactly the declared number of pixels, decoded from exactly the next bpp * count bytes\n"
                     "        r is Ok ==> r->Ok_0.px_len() == expected_pixel_count\n"
                     "            && reader.input.rest().len() >= bpp(pixel_format) * expected_pixel_count\n"
                     "            && decodes(r->Ok_0, reader.input.rest().subrange(0, bpp(pixel_format) * expected_pixel_count), pixel_format),\n"
                     "        // C07: bytes after the declared ones do not matter\n"
                     "        (!reader.input.fails() && reader.input.rest().len() >= bpp(pixel_format) * expected_pixel_count) ==> r is Ok,")},
        {"kind": "fn", "file": "pixel", "name": "from_compressed", "key": "RawPixels::from_compressed", "impl_of": "RawPixels", "ret": "r", "rules": ["R1", "R6", "R11"],
         "sig_rewrites": [("<T: Read>", ""), ("AseReader<T>", "AseReader")],
         "closures": [{"after": ".and_then(", "params": "bytes: Vec<u8>", "ret": "o: Result<RawPixels>",
                       "ensures": "(o is Ok) == ((bytes@.len() as int) % (bpp(pixel_format) as int) == 0), o is Ok ==> decodes(o->Ok_0, bytes@, pixel_format) && o->Ok_0.px_len() == (bytes@.len() as int) / (bpp(pixel_format) as int)"}],
         "prologue": (
                    "        assert(((bpp(pixel_format) as int) * (expected_pixel_count as int)) % (bpp(pixel_format) as int) == 0 && ((bpp(pixel_format) as int) * (expected_pixel_count as int)) / (bpp(pixel_format) as int) == expected_pixel_count as int) by (nonlinear_arith)\n"
                    "            requires 1 <= (bpp(pixel_format) as int) <= 4, 0 <= (expected_pixel_count as int);"),
         "requires": "        bpp(pixel_format) * expected_pixel_count <= usize::MAX,",
         "ensures": ("        // C05 / C06: compressed pixels that load are exactly the declared number of pixels, decoded from the inflated stream\n"
                     "        r is Ok ==> r->Ok_0.px_len() == expected_pixel_count\n"
                     "            && inflated(reader.input.rest()).len() >= bpp(pixel_format) * expected_pixel_count\n"
                     "            && decodes(r->Ok_0, inflated(reader.input.rest()).subrange(0, bpp(pixel_format) * expected_pixel_count), pixel_format),\n"
                     "        (!reader.input.fails() && !zlib_corrupt(reader.input.rest()) && inflated(reader.input.rest()).len() == bpp(pixel_format) * expected_pixel_count) ==> r is Ok,")},
        {"kind": "struct", "file": "tile", "name": "TileId", "keep": None, "attrs": "#[derive(Clone, Copy)]\n"},
        {"kind": "struct", "file": "tile", "name": "Tile", "keep": None},
        {"kind": "struct", "file": "tile", "name": "Tiles", "keep": None},
        {"kind": "struct", "file": "tilemap", "name": "TileBitmaskHeader", "keep": None},
        {"kind": "fn", "file": "tile", "name": "as_bool", "ret": "r", "ensures": "        r == (bitwise_and != 0),"},
        {"kind": "fn", "file": "tile", "name": "parse", "key": "Tile::parse", "impl_of": "Tile", "ret": "r",
         "ensures": ("        // C08: the tile id is the masked id bits; the flip / rotate flags are the masked flag bits\n"
                     "        r.id.0 == bits & header.tile_id, r.flip_x == (bits & header.x_flip != 0), r.flip_y == (bits & header.y_flip != 0), r.rotate_90cw == (bits & header.rotate_90cw != 0),")},
        {"kind": "verbatim", "text": """
pub open spec fn le32(b: Seq<u8>, o: int) -> u32 { (b[o] as u32) | ((b[o + 1] as u32) << 8) | ((b[o + 2] as u32) << 16) | ((b[o + 3] as u32) << 24) }
/// R25: `B.chunks_exact(4).map(|bytes| Tile::new(bytes, header)).collect()` (TRUSTED shim for the iterator chain; Tile::new reads one
/// little-endian dword and hands it to Tile::parse: Kani k_tile_parse)
#[verifier::external_body]
pub fn collect_tiles(b: &Vec<u8>, header: &TileBitmaskHeader) -> (r: Result<Vec<Tile>>)
    ensures r is Ok, r->Ok_0@.len() == b@.len() / 4,
        forall|i: int| 0 <= i < r->Ok_0@.len() ==> (#[trigger] r->Ok_0@[i]).id.0 == le32(b@, 4 * i) & header.tile_id,
{ unimplemented!() }
"""},
        {"kind": "fn", "file": "tile", "name": "unzip", "key": "Tiles::unzip", "impl_of": "Tiles", "ret": "r", "rules": ["R1", "R6", "R11"],
         "sig_rewrites": [("<T: Read>", ""), ("AseReader<T>", "AseReader")],
         "body_rewrites": [(r"re:bytes\s*\.chunks_exact\(4\)\s*\.map\(\|(\w+)\| Tile::new\(\1, header\)\)\s*\.collect\(\)", "collect_tiles(&bytes, header)")],
         "requires": "        4 * expected_tile_count <= usize::MAX,",
         "ensures": ("        // C05 / C08: a tilemap that loads has exactly the declared number of tiles, tile i from inflated bytes 4i .. 4i+4\n"
                     "        r is Ok ==> r->Ok_0.0@.len() == expected_tile_count && inflated(reader.input.rest()).len() >= 4 * expected_tile_count\n"
                     "            && forall|i: int| 0 <= i < expected_tile_count ==> (#[trigger] r->Ok_0.0@[i]).id.0 == le32(inflated(reader.input.rest()), 4 * i) & header.tile_id,")},
    ],
}


# ------------------------------------------------------------------------------------------------
# Lookups by name / optional lookups / iteration (C01, second sentence): layer_by_name returns the LOWEST-numbered match,
# LayersIter::next visits the layers once each in index order, get_tag is None out of range
# ------------------------------------------------------------------------------------------------
UNITS["lookups"] = {
    "prelude_sections": [],
    "items": [
        {"kind": "struct", "file": "layer", "name": "LayerData", "keep": ["name", "opacity"]},
        {"kind": "struct", "file": "layer", "name": "LayersData", "keep": ["layers"]},
        {"kind": "index_impl_check", "file": "layer", "type": "LayersData", "body": "{&self.layers[index as usize]}"},
        {"kind": "struct", "file": "tags", "name": "Tag", "keep": ["name", "from_frame", "to_frame"]},
        {"kind": "struct", "file": "file", "name": "AsepriteFile", "keep": ["layers", "tags"]},
        {"kind": "struct", "file": "layer", "name": "Layer", "keep": None},
        {"kind": "struct", "file": "file", "name": "LayersIter", "keep": None},
        {"kind": "verbatim", "text": """
/// `a == b` on two `&str` (R26): string equality is equality of the character sequences (TRUSTED: std's str PartialEq)
#[verifier::external_body]
pub fn str_eq(a: &str, b: &str) -> (r: bool)
    ensures r == (a@ == b@),
{ a == b }
"""},
        {"kind": "fn", "file": "file", "name": "num_layers", "impl_of": "AsepriteFile", "ret": "r",
         "requires": "        self.layers.layers.len() <= 65536,", "ensures": "        r as int == self.layers.layers.len(),"},
        {"kind": "fn", "file": "file", "name": "layer", "key": "AsepriteFile::layer", "impl_of": "AsepriteFile", "ret": "r",
         "requires": "        self.layers.layers.len() <= 65536, (id as int) < self.layers.layers.len(),",
         "ensures": "        r.layer_id == id, r.file == self,"},
        {"kind": "fn", "file": "layer", "name": "data", "key": "Layer::data", "impl_of": "Layer", "impl_header": "<'a> Layer<'a>", "ret": "r", "rules": ["R1", "R6", "R8"],
         "requires": "        (self.layer_id as int) < self.file.layers.layers.len(),", "ensures": "        *r == self.file.layers.layers[self.layer_id as int],"},
        {"kind": "fn", "file": "layer", "name": "name", "key": "Layer::name", "impl_of": "Layer", "impl_header": "<'a> Layer<'a>", "ret": "r",
         "requires": "        (self.layer_id as int) < self.file.layers.layers.len(),", "ensures": "        r@ == self.file.layers.layers[self.layer_id as int].name@,"},
        {"kind": "fn", "file": "file", "name": "layer_by_name", "impl_of": "AsepriteFile", "ret": "r",
         "body_rewrites": [("l.name() == name", "str_eq(l.name(), name)"), ("for layer_id in 0..self.num_layers() {", "for layer_id in it: 0..self.num_layers() {")],
         "requires": "        self.layers.layers.len() <= 65536,",
         "ensures": ("        // C01: Some exactly if a layer has that name, and then the one with the LOWEST id\n"
                     "        r is Some <==> exists|j: int| 0 <= j < self.layers.layers.len() && (#[trigger] self.layers.layers[j]).name@ == name@,\n"
                     "        r is Some ==> (r->0).file == self && ((r->0).layer_id as int) < self.layers.layers.len()\n"
                     "            && self.layers.layers[(r->0).layer_id as int].name@ == name@\n"
                     "            && forall|j: int| 0 <= j < (r->0).layer_id ==> (#[trigger] self.layers.layers[j]).name@ != name@,"),
         "loops": {1: ("            invariant\n"
                       "                self.layers.layers.len() <= 65536, it.snapshot@.remaining().len() == self.layers.layers.len(),\n"
                       "                forall|j: int| 0 <= j < it.index@ ==> (#[trigger] self.layers.layers[j]).name@ != name@,")}},
        {"kind": "fn", "file": "file", "name": "layers", "impl_of": "AsepriteFile", "ret": "r", "ensures": "        r.file == self, r.next == 0,"},
        {"kind": "fn", "file": "file", "name": "next", "key": "LayersIter::next", "impl_of": "LayersIter", "impl_filter": r"impl<'a>\s+Iterator\s+for\s+LayersIter<'a>", "impl_header": "<'a> LayersIter<'a>", "ret": "r",
         "sig_rewrites": [("Self::Item", "Layer<'a>")],
         "requires": "        old(self).file.layers.layers.len() <= 65536,",
         "ensures": ("        // C01: iteration visits layer 0, 1, .., n-1 once each, then ends - and stays ended\n"
                     "        final(self).file == old(self).file,\n"
                     "        (old(self).next as int) < old(self).file.layers.layers.len() ==> r is Some && (r->0).layer_id == old(self).next && (r->0).file == old(self).file && final(self).next == old(self).next + 1,\n"
                     "        (old(self).next as int) >= old(self).file.layers.layers.len() ==> r is None && final(self).next == old(self).next,")},
        {"kind": "fn", "file": "tags", "name": "name", "key": "Tag::name", "impl_of": "Tag", "ret": "r", "ensures": "        r@ == self.name@,"},
        {"kind": "fn", "file": "file", "name": "num_tags", "impl_of": "AsepriteFile", "ret": "r", "requires": "        self.tags.len() <= 0xffff_ffff,", "ensures": "        r as int == self.tags.len(),"},
        {"kind": "fn", "file": "file", "name": "get_tag", "impl_of": "AsepriteFile", "ret": "r",
         "ensures": "        (r is Some) == ((tag_id as int) < self.tags.len()), r is Some ==> *(r->0) == self.tags[tag_id as int],"},
    ],
}
