// Prelude for the generated Verus files. Sections are pulled in by name (verus/units.py).
// Everything here is TRUSTED (assumed contracts of types the extraction cannot carry) unless it is
// a spec function or a proof.

// @section errors
pub enum AsepriteParseError {
    InvalidInput(String),
    UnsupportedFeature(String),
    InternalError(String),
}
pub type Result<T> = core::result::Result<T, AsepriteParseError>;
// @end

// @section forest
/// C09: the parent of layer i is the nearest preceding layer with a smaller nesting level (none at level 0).
pub open spec fn is_parent_of(l: Seq<LayerData>, i: int, p: Option<u32>) -> bool {
    if l[i].child_level == 0 {
        p is None
    } else {
        &&& p is Some
        &&& 0 <= (p->0 as int) < i
        &&& l[p->0 as int].child_level < l[i].child_level
        &&& forall|k: int| (p->0 as int) < k < i ==> #[trigger] l[k].child_level >= l[i].child_level
    }
}
pub open spec fn parents_ok(l: Seq<LayerData>, r: Seq<Option<u32>>) -> bool {
    &&& r.len() == l.len()
    &&& forall|i: int| 0 <= i < l.len() ==> is_parent_of(l, i, #[trigger] r[i])
}
/// what loading must establish before parents are computed
pub open spec fn first_is_root(l: Seq<LayerData>) -> bool {
    l.len() > 0 ==> l[0].child_level == 0
}
// @end
