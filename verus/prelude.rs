// Prelude for the generated Verus files. Sections are pulled in by name (verus/units.py).
// Everything here is TRUSTED (assumed contracts of types the extraction cannot carry) unless it is
// a spec function or a proof.

// @section errors
pub enum AsepriteParseError {
    InvalidInput(String),
    UnsupportedFeature(String),
    InternalError(String),
}
pub type Result<T> = core::result::Result<T, AsepriteParseError>;
// @end

// @section forest
/// C09: the parent of layer i is the nearest preceding layer with a smaller nesting level (none at level 0).
pub open spec fn is_parent_of(l: Seq<LayerData>, i: int, p: Option<u32>) -> bool {
    if l[i].child_level == 0 {
        p is None
    } else {
        &&& p is Some
        &&& 0 <= (p->0 as int) < i
        &&& l[p->0 as int].child_level < l[i].child_level
        &&& forall|k: int| (p->0 as int) < k < i ==> #[trigger] l[k].child_level >= l[i].child_level
    }
}
pub open spec fn parents_ok(l: Seq<LayerData>, r: Seq<Option<u32>>) -> bool {
    &&& r.len() == l.len()
    &&& forall|i: int| 0 <= i < l.len() ==> is_parent_of(l, i, #[trigger] r[i])
}
/// what loading must establish before parents are computed
pub open spec fn first_is_root(l: Seq<LayerData>) -> bool {
    l.len() > 0 ==> l[0].child_level == 0
}
// @end

// @section image
/// shim for image::Rgba<u8> (R4)
#[derive(Clone, Copy, PartialEq, Eq)]
pub struct Rgba<T>(pub [T; 4]);

/// shim for image::RgbaImage (R4): abstract width, height and pixel function; the three methods the
/// rasterisers use carry the contracts of image::ImageBuffer (TRUSTED: assumed contract of a dependency).
#[verifier::external_body]
pub struct RgbaImage {
    _p: core::marker::PhantomData<u8>,
}

impl RgbaImage {
    pub uninterp spec fn w(&self) -> nat;
    pub uninterp spec fn h(&self) -> nat;
    pub uninterp spec fn at(&self, x: int, y: int) -> Rgba<u8>;

    #[verifier::external_body]
    pub fn dimensions(&self) -> (r: (u32, u32))
        ensures r.0 == self.w(), r.1 == self.h(),
    { unimplemented!() }

    #[verifier::external_body]
    pub fn width(&self) -> (r: u32)
        ensures r == self.w(),
    { unimplemented!() }

    #[verifier::external_body]
    pub fn height(&self) -> (r: u32)
        ensures r == self.h(),
    { unimplemented!() }

    #[verifier::external_body]
    pub fn get_pixel(&self, x: u32, y: u32) -> (r: &Rgba<u8>)
        requires x < self.w(), y < self.h(),
        ensures *r == self.at(x as int, y as int),
    { unimplemented!() }

    #[verifier::external_body]
    pub fn put_pixel(&mut self, x: u32, y: u32, p: Rgba<u8>)
        requires x < old(self).w(), y < old(self).h(),
        ensures
            final(self).w() == old(self).w(),
            final(self).h() == old(self).h(),
            forall|i: int, j: int| #![trigger final(self).at(i, j)]
                final(self).at(i, j) == (if i == x && j == y { p } else { old(self).at(i, j) }),
    { unimplemented!() }
}

/// the blend mode is passed through unchanged to the dispatch table (R3)
#[derive(Clone, Copy, PartialEq, Eq)]
pub struct BlendMode { pub id: u8 }

/// what blending (mode, backdrop, source, opacity) yields – pinned to Aseprite's functions by the
/// Kani obligations k_mode_* / k_normal_* and the dispatch table obligation x_mode_table
pub uninterp spec fn spec_blend(mode: BlendMode, backdrop: Rgba<u8>, src: Rgba<u8>, opacity: u8) -> Rgba<u8>;

pub struct BlendFn { pub mode: BlendMode }

#[verifier::external_body]
pub fn blend_mode_to_blend_fn(mode: BlendMode) -> (r: BlendFn)
    ensures r.mode == mode,
{ unimplemented!() }

impl BlendFn {
    #[verifier::external_body]
    pub fn call(&self, backdrop: Rgba<u8>, src: Rgba<u8>, opacity: u8) -> (r: Rgba<u8>)
        ensures r == spec_blend(self.mode, backdrop, src, opacity),
    { unimplemented!() }
}

/// 8-bit rounded product round(a*b/255)
pub open spec fn spec_round8(a: int, b: int) -> int {
    (2 * a * b + 255) / 510
}

/// blend::mul_un8 under its contract (PROVED by the Kani obligation k_mul_un8 on the real function;
/// assumed here so that the callers are checked against the contract, not the body)
#[verifier::external_body]
pub fn mul_un8(a: i32, b: i32) -> (r: u8)
    requires 0 <= a <= 255, 0 <= b <= 255,
    ensures r as int == spec_round8(a as int, b as int),
{ unimplemented!() }
// @end

// @section raster_spec
/// C02/C06: what compositing one raw cel onto a canvas must produce.
pub open spec fn in_rect(cx: int, cy: int, x0: int, y0: int, w: int, h: int) -> bool {
    x0 <= cx < x0 + w && y0 <= cy < y0 + h
}

pub open spec fn raw_px(b: Rgba<u8>, cel: &CelCommon, size: &ImageSize, pixels: Seq<Rgba<u8>>, mode: BlendMode, outer: u8, cx: int, cy: int) -> Rgba<u8> {
    if in_rect(cx, cy, cel.x as int, cel.y as int, size.width as int, size.height as int) {
        spec_blend(mode, b, pixels[(cy - cel.y) * size.width + (cx - cel.x)], spec_round8(outer as int, cel.opacity as int) as u8)
    } else {
        b
    }
}
pub open spec fn raw_cel_pixel(old_img: &RgbaImage, cel: &CelCommon, size: &ImageSize, pixels: Seq<Rgba<u8>>, mode: BlendMode, outer: u8, cx: int, cy: int) -> Rgba<u8> {
    raw_px(old_img.at(cx, cy), cel, size, pixels, mode, outer, cx, cy)
}
// @end

// @section arch
// ASSUMPTION: 64-bit target (usize is 8 bytes)
global size_of usize == 8;
// @end

// @section tilemap_spec
/// C05 R-pre for tilemap rendering: what validation must establish.
pub open spec fn tilemap_wf(tm: &TilemapData) -> bool {
    tm.tiles.0.len() == (tm.width as int) * (tm.height as int)
}
pub open spec fn tiles_in_tileset(tm: &TilemapData, ts: &Tileset, npixels: int) -> bool {
    forall|i: int| 0 <= i < tm.tiles.0.len() ==>
        ((#[trigger] tm.tiles.0[i]).id.0 as int + 1) * ((ts.tile_size.width as int) * (ts.tile_size.height as int)) <= npixels
}
// @end

// @section layer_flags
/// shim for the bitflags-generated LayerFlags (TRUSTED: `contains` is `(self & other) == other`, VISIBLE = 0x0001)
#[derive(Clone, Copy)]
pub struct LayerFlags { pub bits: u32 }
impl LayerFlags {
    pub const VISIBLE: LayerFlags = LayerFlags { bits: 1 };
    pub const MOVEMENT_LOCKED: LayerFlags = LayerFlags { bits: 4 };
    pub const BACKGROUND: LayerFlags = LayerFlags { bits: 8 };
    pub const BACKGROUND_LAYER: LayerFlags = LayerFlags { bits: 12 };
    /// bitflags-generated: keeps the seven defined bits 0x01..0x40 (TRUSTED)
    #[verifier::external_body]
    pub fn from_bits_truncate(bits: u32) -> (r: LayerFlags)
        ensures r.bits == bits & 0x7f,
    { unimplemented!() }
    pub fn contains(&self, other: LayerFlags) -> (r: bool)
        ensures r == ((self.bits & other.bits) == other.bits),
    {
        (self.bits & other.bits) == other.bits
    }
}
pub open spec fn visible_flag(f: LayerFlags) -> bool {
    (f.bits & 1u32) == 1u32
}
/// C09: a layer is visible exactly when its own visible flag and the flags of all its ancestors are set
pub open spec fn spec_visible(l: Seq<LayerData>, p: Seq<Option<u32>>, i: int) -> bool
    decreases i,
{
    if 0 <= i < l.len() && i < p.len() {
        visible_flag(l[i].flags) && match p[i] {
            Some(q) => if 0 <= (q as int) < i { spec_visible(l, p, q as int) } else { true },
            None => true,
        }
    } else {
        true
    }
}
// @end

// @section rgba_only
/// shim for image::Rgba<u8> (R4)
#[derive(Clone, Copy, PartialEq, Eq)]
pub struct Rgba<T>(pub [T; 4]);
// @end

// @section reader
/// File-format layout reads (mirror of overlay/spec/fmt.rs): little-endian values at an offset.
pub open spec fn le_u16(d: Seq<u8>, o: int) -> int { d[o] as int + 256 * (d[o + 1] as int) }
pub open spec fn le_u32(d: Seq<u8>, o: int) -> int {
    d[o] as int + 256 * (d[o + 1] as int) + 65536 * (d[o + 2] as int) + 16777216 * (d[o + 3] as int)
}
pub open spec fn as_i16(v: int) -> int { if v >= 32768 { v - 65536 } else { v } }
pub open spec fn as_i32(v: int) -> int { if v >= 2147483648 { v - 4294967296 } else { v } }
/// UTF-8 validity and decoding of a byte string (uninterpreted: the decoders only pass text through)
pub uninterp spec fn utf8_ok(b: Seq<u8>) -> bool;
pub uninterp spec fn utf8_text(b: Seq<u8>) -> Seq<char>;
/// STRING at offset o: WORD length n, then n bytes
pub open spec fn str_fits(d: Seq<u8>, o: int) -> bool { o + 2 <= d.len() && o + 2 + le_u16(d, o) <= d.len() }
pub open spec fn str_bytes(d: Seq<u8>, o: int) -> Seq<u8> { d.subrange(o + 2, o + 2 + le_u16(d, o)) }
pub open spec fn str_end(d: Seq<u8>, o: int) -> int { o + 2 + le_u16(d, o) }

/// shim for reader::AseReader over an in-memory cursor. Each primitive carries the contract that the Kani
/// obligations k_reader_prims_* / k_reader_string_* / k_reader_sequence establish for the real reader on
/// fixed-size cursors (ASSUMED here for every length): value = little-endian read at the cursor, cursor
/// advances by the width; Err iff fewer bytes remain (or, for strings, the text is not UTF-8).
#[verifier::external_body]
pub struct AseReader { _p: core::marker::PhantomData<u8> }
impl AseReader {
    pub uninterp spec fn data(&self) -> Seq<u8>;
    pub uninterp spec fn pos(&self) -> int;
    #[verifier::external_body]
    pub fn new(data: &[u8]) -> (r: AseReader)
        ensures r.data() == data@, r.pos() == 0,
    { unimplemented!() }
    #[verifier::external_body]
    pub fn byte(&mut self) -> (r: Result<u8>)
        ensures final(self).data() == old(self).data(), 0 <= old(self).pos() <= old(self).data().len(),
            r is Ok <==> old(self).pos() + 1 <= old(self).data().len(),
            r is Ok ==> r->Ok_0 == old(self).data()[old(self).pos()] && final(self).pos() == old(self).pos() + 1,
    { unimplemented!() }
    #[verifier::external_body]
    pub fn word(&mut self) -> (r: Result<u16>)
        ensures final(self).data() == old(self).data(), 0 <= old(self).pos() <= old(self).data().len(),
            r is Ok <==> old(self).pos() + 2 <= old(self).data().len(),
            r is Ok ==> r->Ok_0 as int == le_u16(old(self).data(), old(self).pos()) && final(self).pos() == old(self).pos() + 2,
    { unimplemented!() }
    #[verifier::external_body]
    pub fn short(&mut self) -> (r: Result<i16>)
        ensures final(self).data() == old(self).data(), 0 <= old(self).pos() <= old(self).data().len(),
            r is Ok <==> old(self).pos() + 2 <= old(self).data().len(),
            r is Ok ==> r->Ok_0 as int == as_i16(le_u16(old(self).data(), old(self).pos())) && final(self).pos() == old(self).pos() + 2,
    { unimplemented!() }
    #[verifier::external_body]
    pub fn dword(&mut self) -> (r: Result<u32>)
        ensures final(self).data() == old(self).data(), 0 <= old(self).pos() <= old(self).data().len(),
            r is Ok <==> old(self).pos() + 4 <= old(self).data().len(),
            r is Ok ==> r->Ok_0 as int == le_u32(old(self).data(), old(self).pos()) && final(self).pos() == old(self).pos() + 4,
    { unimplemented!() }
    #[verifier::external_body]
    pub fn long(&mut self) -> (r: Result<i32>)
        ensures final(self).data() == old(self).data(), 0 <= old(self).pos() <= old(self).data().len(),
            r is Ok <==> old(self).pos() + 4 <= old(self).data().len(),
            r is Ok ==> r->Ok_0 as int == as_i32(le_u32(old(self).data(), old(self).pos())) && final(self).pos() == old(self).pos() + 4,
    { unimplemented!() }
    #[verifier::external_body]
    pub fn skip_reserved(&mut self, count: usize) -> (r: Result<()>)
        ensures final(self).data() == old(self).data(), 0 <= old(self).pos() <= old(self).data().len(),
            r is Ok <==> old(self).pos() + count <= old(self).data().len(),
            r is Ok ==> final(self).pos() == old(self).pos() + count,
    { unimplemented!() }
    #[verifier::external_body]
    pub fn string(&mut self) -> (r: Result<String>)
        ensures final(self).data() == old(self).data(), 0 <= old(self).pos() <= old(self).data().len(),
            r is Ok <==> (str_fits(old(self).data(), old(self).pos()) && utf8_ok(str_bytes(old(self).data(), old(self).pos()))),
            r is Ok ==> r->Ok_0@ == utf8_text(str_bytes(old(self).data(), old(self).pos())) && final(self).pos() == str_end(old(self).data(), old(self).pos()),
    { unimplemented!() }
}
// @end

// @section layer_flags_only
/// shim for the bitflags-generated LayerFlags (TRUSTED)
#[derive(Clone, Copy)]
pub struct LayerFlags { pub bits: u32 }
impl LayerFlags {
    /// keeps the seven defined bits 0x01..0x40
    #[verifier::external_body]
    pub fn from_bits_truncate(bits: u32) -> (r: LayerFlags)
        ensures r.bits == bits & 0x7f,
    { unimplemented!() }
}
// @end

// @section std_extra
/// assumed contract of std's Option::filter (vstd has none): the result is the argument, and only if the predicate said yes
pub assume_specification<T, P>[ core::option::Option::<T>::filter ](o: Option<T>, p: P) -> (r: Option<T>)
    where P: core::ops::FnOnce(&T) -> bool + core::marker::Destruct, T: core::marker::Destruct,
    requires o is Some ==> p.requires((&o->0,)),
    ensures r is Some ==> r == o && p.ensures((&o->0,), true),
;
// @end

// @section intmap
/// shim for nohash::IntMap<u32, V> (a HashMap): abstract view as a map; contracts of default / insert / get / len (TRUSTED)
#[verifier::external_body]
#[verifier::reject_recursive_types(K)]
#[verifier::reject_recursive_types(V)]
pub struct IntMap<K, V> { _p: core::marker::PhantomData<(K, V)> }
impl<V> IntMap<u32, V> {
    pub uninterp spec fn view(&self) -> Map<u32, V>;
    #[verifier::external_body]
    pub fn default() -> (r: Self)
        ensures r@ == Map::<u32, V>::empty(),
    { unimplemented!() }
    #[verifier::external_body]
    pub fn insert(&mut self, k: u32, v: V) -> (r: Option<V>)
        ensures final(self)@ == old(self)@.insert(k, v),
    { unimplemented!() }
    #[verifier::external_body]
    pub fn len(&self) -> (r: usize)
        ensures r == self@.dom().len(),
    { unimplemented!() }
    #[verifier::external_body]
    pub fn get(&self, k: &u32) -> (r: Option<&V>)
        ensures (r is Some) == self@.contains_key(*k), r is Some ==> *(r->0) == self@[*k],
    { unimplemented!() }
    /// HashMap::iter: every (key, value) pair exactly once, in an unspecified order (TRUSTED iterator shim)
    #[verifier::external_body]
    pub fn iter(&self) -> (r: IntMapIter<'_, V>)
        ensures enumerates_ref(intmap_iter_rem(r), self@),
    { unimplemented!() }
}
#[verifier::external_body]
#[verifier::reject_recursive_types(V)]
pub struct IntMapIter<'a, V> { _p: core::marker::PhantomData<&'a V> }
pub uninterp spec fn intmap_iter_rem<'a, V>(it: IntMapIter<'a, V>) -> Seq<(&'a u32, &'a V)>;
impl<'a, V> Iterator for IntMapIter<'a, V> {
    type Item = (&'a u32, &'a V);
    #[verifier::external_body]
    fn next(&mut self) -> Option<(&'a u32, &'a V)> { unimplemented!() }
}
impl<'a, V> vstd::std_specs::iter::IteratorSpecImpl for IntMapIter<'a, V> {
    open spec fn obeys_prophetic_iter_laws(&self) -> bool { true }
    open spec fn remaining(&self) -> Seq<(&'a u32, &'a V)> { intmap_iter_rem(*self) }
    open spec fn will_return_none(&self) -> bool { true }
    open spec fn decrease(&self) -> Option<nat> { Some(intmap_iter_rem(*self).len()) }
    open spec fn peek(&self, i: int) -> Option<(&'a u32, &'a V)> {
        if 0 <= i < intmap_iter_rem(*self).len() { Some(intmap_iter_rem(*self)[i]) } else { None }
    }
}
pub open spec fn enumerates_ref<V>(pairs: Seq<(&u32, &V)>, m: Map<u32, V>) -> bool {
    &&& forall|i: int| 0 <= i < pairs.len() ==> m.contains_key(*(#[trigger] pairs[i]).0) && m[*pairs[i].0] == *pairs[i].1
    &&& forall|k: u32| m.contains_key(k) ==> exists|i: int| 0 <= i < pairs.len() && *(#[trigger] pairs[i]).0 == k
}
// @end

// @section vec_extra
/// assumed contract of std's Vec::resize_with (vstd has none): new length; the common prefix is kept; every
/// added element is a result of the closure
pub assume_specification<T, A: std::alloc::Allocator, F: core::ops::FnMut() -> T>[ Vec::<T, A>::resize_with ](v: &mut Vec<T, A>, new_len: usize, f: F)
    ensures
        final(v)@.len() == new_len,
        forall|i: int| 0 <= i < new_len && i < old(v)@.len() ==> final(v)@[i] == old(v)@[i],
        forall|i: int| old(v)@.len() <= i < new_len ==> f.ensures((), #[trigger] final(v)@[i]),
;
// @end

// @section tilemap_raster_spec
/// C08/C02: what compositing one tilemap cel onto a canvas must produce: the canvas pixel (cx, cy) that lies
/// `d = (cx - cel.x, cy - cel.y)` into the tile grid shows pixel `d % tile size` of the tile whose id is stored at
/// grid position `d / tile size`, blended over the old canvas pixel; every other canvas pixel is unchanged.
/// (Tile transform flags are documented as unsupported and are ignored by the library.)
pub open spec fn tm_covered(cel: &CelCommon, tm: &TilemapData, ts: &Tileset, cx: int, cy: int) -> bool {
    let tw = ts.tile_size.width as int;
    let th = ts.tile_size.height as int;
    tw > 0 && th > 0 && 0 <= cx - cel.x < tw * (tm.width as int) && 0 <= cy - cel.y < th * (tm.height as int)
}
pub open spec fn tm_src_index(cel: &CelCommon, tm: &TilemapData, ts: &Tileset, cx: int, cy: int) -> int {
    let tw = ts.tile_size.width as int;
    let th = ts.tile_size.height as int;
    let dx = cx - cel.x;
    let dy = cy - cel.y;
    (tm.tiles.0[(dy / th) * (tm.width as int) + dx / tw].id.0 as int) * (tw * th) + (dy % th) * tw + dx % tw
}
pub open spec fn tm_px(b: Rgba<u8>, cel: &CelCommon, tm: &TilemapData, ts: &Tileset, pixels: Seq<Rgba<u8>>, mode: BlendMode, outer: u8, cx: int, cy: int) -> Rgba<u8> {
    if tm_covered(cel, tm, ts, cx, cy) {
        spec_blend(mode, b, pixels[tm_src_index(cel, tm, ts, cx, cy)], spec_round8(outer as int, cel.opacity as int) as u8)
    } else {
        b
    }
}
pub open spec fn tm_cel_pixel(old_img: &RgbaImage, cel: &CelCommon, tm: &TilemapData, ts: &Tileset, pixels: Seq<Rgba<u8>>, mode: BlendMode, outer: u8, cx: int, cy: int) -> Rgba<u8> {
    tm_px(old_img.at(cx, cy), cel, tm, ts, pixels, mode, outer, cx, cy)
}
/// loop bookkeeping: has the rasteriser already passed canvas pixel (cx, cy) when it stands at
/// tile row ty, tile column tx, pixel row py, pixel column px (lexicographic order of the four loops)?
pub open spec fn tm_done(cel: &CelCommon, tm: &TilemapData, ts: &Tileset, cx: int, cy: int, ty: int, tx: int, py: int, px: int) -> bool {
    let tw = ts.tile_size.width as int;
    let th = ts.tile_size.height as int;
    let dx = cx - cel.x;
    let dy = cy - cel.y;
    tm_covered(cel, tm, ts, cx, cy) && (
        dy / th < ty || (dy / th == ty && (
            dx / tw < tx || (dx / tw == tx && (
                dy % th < py || (dy % th == py && dx % tw < px))))))
}
pub proof fn lemma_tm_pos(d: int, t: int, p: int, n: int)
    requires 0 < d, 0 <= p < d, 0 <= t < n,
    ensures (t * d + p) / d == t, (t * d + p) % d == p, 0 <= t * d + p < d * n,
{
    vstd::arithmetic::div_mod::lemma_fundamental_div_mod_converse(t * d + p, d, t, p);
    assert(t * d + p < d * n) by (nonlinear_arith) requires 0 < d, 0 <= p < d, 0 <= t < n;
    assert(0 <= t * d + p) by (nonlinear_arith) requires 0 < d, 0 <= p, 0 <= t;
}
pub proof fn lemma_tm_unpos(x: int, d: int, n: int)
    requires 0 < d, 0 <= x < d * n,
    ensures x == (x / d) * d + x % d, 0 <= x % d < d, 0 <= x / d < n,
{
    vstd::arithmetic::div_mod::lemma_fundamental_div_mod(x, d);
    vstd::arithmetic::div_mod::lemma_mod_bound(x, d);
    assert(d * (x / d) == (x / d) * d) by (nonlinear_arith);
    assert(0 <= x / d < n) by (nonlinear_arith) requires 0 < d, 0 <= x < d * n, x == d * (x / d) + x % d, 0 <= x % d < d;
}
/// one step of the innermost loop marks exactly the canvas pixel it writes
pub proof fn lemma_tm_step(cel: &CelCommon, tm: &TilemapData, ts: &Tileset, cx: int, cy: int, ty: int, tx: int, py: int, px: int)
    requires
        0 <= ty < tm.height, 0 <= tx < tm.width, 0 <= py < ts.tile_size.height, 0 <= px < ts.tile_size.width,
    ensures
        tm_done(cel, tm, ts, cx, cy, ty, tx, py, px + 1) == (tm_done(cel, tm, ts, cx, cy, ty, tx, py, px)
            || (cx == tx * (ts.tile_size.width as int) + px + cel.x && cy == ty * (ts.tile_size.height as int) + py + cel.y)),
        (cx == tx * (ts.tile_size.width as int) + px + cel.x && cy == ty * (ts.tile_size.height as int) + py + cel.y) ==> {
            &&& !tm_done(cel, tm, ts, cx, cy, ty, tx, py, px)
            &&& tm_covered(cel, tm, ts, cx, cy)
            &&& (cx - cel.x) / (ts.tile_size.width as int) == tx && (cx - cel.x) % (ts.tile_size.width as int) == px
            &&& (cy - cel.y) / (ts.tile_size.height as int) == ty && (cy - cel.y) % (ts.tile_size.height as int) == py
        },
{
    let tw = ts.tile_size.width as int;
    let th = ts.tile_size.height as int;
    lemma_tm_pos(tw, tx, px, tm.width as int);
    lemma_tm_pos(th, ty, py, tm.height as int);
    if tm_covered(cel, tm, ts, cx, cy) {
        lemma_tm_unpos(cx - cel.x, tw, tm.width as int);
        lemma_tm_unpos(cy - cel.y, th, tm.height as int);
    }
}
/// leaving a loop: the position (.., n) of the inner loop is the position (.. + 1, 0) of the outer one
pub proof fn lemma_tm_carry(cel: &CelCommon, tm: &TilemapData, ts: &Tileset, cx: int, cy: int, ty: int, tx: int, py: int)
    ensures
        tm_done(cel, tm, ts, cx, cy, ty, tx, py, ts.tile_size.width as int) == tm_done(cel, tm, ts, cx, cy, ty, tx, py + 1, 0),
        tm_done(cel, tm, ts, cx, cy, ty, tx, ts.tile_size.height as int, 0) == tm_done(cel, tm, ts, cx, cy, ty, tx + 1, 0, 0),
        tm_done(cel, tm, ts, cx, cy, ty, tm.width as int, 0, 0) == tm_done(cel, tm, ts, cx, cy, ty + 1, 0, 0, 0),
        !tm_done(cel, tm, ts, cx, cy, 0, 0, 0, 0),
        tm_done(cel, tm, ts, cx, cy, tm.height as int, 0, 0, 0) == tm_covered(cel, tm, ts, cx, cy),
{
    let tw = ts.tile_size.width as int;
    let th = ts.tile_size.height as int;
    if tm_covered(cel, tm, ts, cx, cy) {
        lemma_tm_unpos(cx - cel.x, tw, tm.width as int);
        lemma_tm_unpos(cy - cel.y, th, tm.height as int);
    }
}
pub proof fn lemma_tm_step_all(cel: &CelCommon, tm: &TilemapData, ts: &Tileset, ty: int, tx: int, py: int, px: int)
    requires
        0 <= ty < tm.height, 0 <= tx < tm.width, 0 <= py < ts.tile_size.height, 0 <= px < ts.tile_size.width,
    ensures
        forall|cx: int, cy: int| #![trigger tm_done(cel, tm, ts, cx, cy, ty, tx, py, px + 1)]
            tm_done(cel, tm, ts, cx, cy, ty, tx, py, px + 1) == (tm_done(cel, tm, ts, cx, cy, ty, tx, py, px)
                || (cx == tx * (ts.tile_size.width as int) + px + cel.x && cy == ty * (ts.tile_size.height as int) + py + cel.y)),
        ({
            let cx = tx * (ts.tile_size.width as int) + px + cel.x;
            let cy = ty * (ts.tile_size.height as int) + py + cel.y;
            &&& !tm_done(cel, tm, ts, cx, cy, ty, tx, py, px)
            &&& tm_covered(cel, tm, ts, cx, cy)
            &&& (cx - cel.x) / (ts.tile_size.width as int) == tx && (cx - cel.x) % (ts.tile_size.width as int) == px
            &&& (cy - cel.y) / (ts.tile_size.height as int) == ty && (cy - cel.y) % (ts.tile_size.height as int) == py
        }),
{
    assert forall|cx: int, cy: int| #![trigger tm_done(cel, tm, ts, cx, cy, ty, tx, py, px + 1)]
        tm_done(cel, tm, ts, cx, cy, ty, tx, py, px + 1) == (tm_done(cel, tm, ts, cx, cy, ty, tx, py, px)
            || (cx == tx * (ts.tile_size.width as int) + px + cel.x && cy == ty * (ts.tile_size.height as int) + py + cel.y)) by {
        lemma_tm_step(cel, tm, ts, cx, cy, ty, tx, py, px);
    }
    lemma_tm_step(cel, tm, ts, tx * (ts.tile_size.width as int) + px + cel.x, ty * (ts.tile_size.height as int) + py + cel.y, ty, tx, py, px);
}
pub proof fn lemma_tm_carry_all(cel: &CelCommon, tm: &TilemapData, ts: &Tileset, ty: int, tx: int, py: int)
    ensures
        forall|cx: int, cy: int| #![trigger tm_done(cel, tm, ts, cx, cy, ty, tx, py + 1, 0)]
            tm_done(cel, tm, ts, cx, cy, ty, tx, py, ts.tile_size.width as int) == tm_done(cel, tm, ts, cx, cy, ty, tx, py + 1, 0),
        forall|cx: int, cy: int| #![trigger tm_done(cel, tm, ts, cx, cy, ty, tx + 1, 0, 0)]
            tm_done(cel, tm, ts, cx, cy, ty, tx, ts.tile_size.height as int, 0) == tm_done(cel, tm, ts, cx, cy, ty, tx + 1, 0, 0),
        forall|cx: int, cy: int| #![trigger tm_done(cel, tm, ts, cx, cy, ty + 1, 0, 0, 0)]
            tm_done(cel, tm, ts, cx, cy, ty, tm.width as int, 0, 0) == tm_done(cel, tm, ts, cx, cy, ty + 1, 0, 0, 0),
        forall|cx: int, cy: int| !(#[trigger] tm_done(cel, tm, ts, cx, cy, 0, 0, 0, 0)),
        forall|cx: int, cy: int| #[trigger] tm_done(cel, tm, ts, cx, cy, tm.height as int, 0, 0, 0) == tm_covered(cel, tm, ts, cx, cy),
{
    assert forall|cx: int, cy: int| #![trigger tm_done(cel, tm, ts, cx, cy, ty, tx, py + 1, 0)]
        tm_done(cel, tm, ts, cx, cy, ty, tx, py, ts.tile_size.width as int) == tm_done(cel, tm, ts, cx, cy, ty, tx, py + 1, 0) by { lemma_tm_carry(cel, tm, ts, cx, cy, ty, tx, py); }
    assert forall|cx: int, cy: int| #![trigger tm_done(cel, tm, ts, cx, cy, ty, tx + 1, 0, 0)]
        tm_done(cel, tm, ts, cx, cy, ty, tx, ts.tile_size.height as int, 0) == tm_done(cel, tm, ts, cx, cy, ty, tx + 1, 0, 0) by { lemma_tm_carry(cel, tm, ts, cx, cy, ty, tx, py); }
    assert forall|cx: int, cy: int| #![trigger tm_done(cel, tm, ts, cx, cy, ty + 1, 0, 0, 0)]
        tm_done(cel, tm, ts, cx, cy, ty, tm.width as int, 0, 0) == tm_done(cel, tm, ts, cx, cy, ty + 1, 0, 0, 0) by { lemma_tm_carry(cel, tm, ts, cx, cy, ty, tx, py); }
    assert forall|cx: int, cy: int| !(#[trigger] tm_done(cel, tm, ts, cx, cy, 0, 0, 0, 0)) by { lemma_tm_carry(cel, tm, ts, cx, cy, ty, tx, py); }
    assert forall|cx: int, cy: int| #[trigger] tm_done(cel, tm, ts, cx, cy, tm.height as int, 0, 0, 0) == tm_covered(cel, tm, ts, cx, cy) by { lemma_tm_carry(cel, tm, ts, cx, cy, ty, tx, py); }
}
// @end

// @section compose_shims
/// shim for pixel::Pixels: opaque here; `rgba()` is the RGBA sequence that clone_as_image_rgba returns
/// (ASSUMED contract: clone_as_image_rgba is a function of self and does not panic – the per-pixel conversions it
/// maps over are the Verus obligations v_indexed_as_rgba / v_gray_into_rgba, validation is v_validate_indexed;
/// the iterator chain itself is executed by the bounded obligation x_frames_vs_spec)
#[verifier::external_body]
pub struct Pixels { _p: core::marker::PhantomData<u8> }
#[verifier::external_body]
pub struct RgbaCow<'a> { _p: core::marker::PhantomData<&'a u8> }
impl<'a> RgbaCow<'a> {
    pub uninterp spec fn view(&self) -> Seq<Rgba<u8>>;
    /// Cow<Vec<Rgba<u8>>>::as_ref, followed by the deref coercion &Vec<T> -> &[T] at the call site
    #[verifier::external_body]
    pub fn as_ref(&self) -> (r: &[Rgba<u8>])
        ensures r@ == self.view(),
    { unimplemented!() }
}
impl Pixels {
    pub uninterp spec fn rgba(&self) -> Seq<Rgba<u8>>;
    #[verifier::external_body]
    pub fn clone_as_image_rgba(&self) -> (r: RgbaCow<'_>)
        ensures r.view() == self.rgba(),
    { unimplemented!() }
}
/// shim for TilesetsById (a HashMap newtype): `get` is a map lookup (ASSUMED contract of std HashMap)
#[verifier::external_body]
pub struct TilesetsById { _p: core::marker::PhantomData<u8> }
impl TilesetsById {
    pub uninterp spec fn map(&self) -> Map<u32, Tileset>;
    #[verifier::external_body]
    pub fn get(&self, id: u32) -> (r: Option<&Tileset>)
        ensures
            (r is Some) == self.map().dom().contains(id),
            r is Some ==> *(r->0) == self.map()[id],
    { unimplemented!() }
}
impl RgbaImage {
    /// image::ImageBuffer::new: zero-initialised buffer of the given size (ASSUMED contract of a dependency)
    #[verifier::external_body]
    pub fn new(width: u32, height: u32) -> (r: RgbaImage)
        ensures r.w() == width, r.h() == height,
            forall|x: int, y: int| #[trigger] r.at(x, y) == Rgba([0u8, 0u8, 0u8, 0u8]),
    { unimplemented!() }
}
// @end

// @section compose_spec
impl CelsData {
    pub open spec fn at(&self, f: int, l: int) -> Option<RawCel> {
        if 0 <= f < self.data.len() && 0 <= l <= 65535 && self.data[f]@.contains_key(l as u16) { Some(self.data[f]@[l as u16]) } else { None }
    }
}
/// the cels of one frame in increasing layer order, each with its layer id: what CelsData::frame_cels yields
/// (the rows are maps from layer index to cel; `cels_upto(m, n)` lists the layers below n)
pub open spec fn cels_upto(m: Map<u16, RawCel>, n: int) -> Seq<(u32, RawCel)>
    decreases n,
{
    if n <= 0 {
        Seq::empty()
    } else {
        let rest = cels_upto(m, n - 1);
        if n - 1 <= 65535 && m.contains_key((n - 1) as u16) { rest.push(((n - 1) as u32, m[(n - 1) as u16])) } else { rest }
    }
}
pub open spec fn cels_of(m: Map<u16, RawCel>) -> Seq<(u32, RawCel)> { cels_upto(m, 65536) }
pub proof fn lemma_cels_upto(m: Map<u16, RawCel>, n: int)
    requires 0 <= n <= 65536,
    ensures forall|k: int| 0 <= k < cels_upto(m, n).len() ==> {
        let e = #[trigger] cels_upto(m, n)[k];
        0 <= (e.0 as int) < n && m.contains_key(e.0 as u16) && m[e.0 as u16] == e.1
    },
    decreases n,
{
    if n > 0 {
        lemma_cels_upto(m, n - 1);
        assert forall|k: int| 0 <= k < cels_upto(m, n).len() implies {
            let e = #[trigger] cels_upto(m, n)[k];
            0 <= (e.0 as int) < n && m.contains_key(e.0 as u16) && m[e.0 as u16] == e.1
        } by {
            let rest = cels_upto(m, n - 1);
            if k < rest.len() {
                assert(cels_upto(m, n)[k] == rest[k]);
            }
        }
    }
}
pub proof fn lemma_cels_of(m: Map<u16, RawCel>)
    ensures forall|k: int| 0 <= k < cels_of(m).len() ==> {
        let e = #[trigger] cels_of(m)[k];
        0 <= (e.0 as int) <= 65535 && m.contains_key(e.0 as u16) && m[e.0 as u16] == e.1
    },
{
    lemma_cels_upto(m, 65536);
}
/// iterator returned by CelsData::frame_cels (TRUSTED shim for `self.data[frame].iter().map(..)` over a BTreeMap row:
/// yields exactly cels_of(row) in order; executed against this spec by the bounded obligation x_frame_cels_contract)
#[verifier::external_body]
pub struct FrameCels<'a> { _p: core::marker::PhantomData<&'a u8> }
pub uninterp spec fn frame_cels_rem<'a>(it: FrameCels<'a>) -> Seq<(u32, &'a RawCel)>;
impl<'a> Iterator for FrameCels<'a> {
    type Item = (u32, &'a RawCel);
    #[verifier::external_body]
    fn next(&mut self) -> Option<(u32, &'a RawCel)> { unimplemented!() }
}
impl<'a> vstd::std_specs::iter::IteratorSpecImpl for FrameCels<'a> {
    open spec fn obeys_prophetic_iter_laws(&self) -> bool { true }
    open spec fn remaining(&self) -> Seq<(u32, &'a RawCel)> { frame_cels_rem(*self) }
    open spec fn will_return_none(&self) -> bool { true }
    open spec fn decrease(&self) -> Option<nat> { Some(frame_cels_rem(*self).len()) }
    open spec fn peek(&self, i: int) -> Option<(u32, &'a RawCel)> {
        if 0 <= i < frame_cels_rem(*self).len() { Some(frame_cels_rem(*self)[i]) } else { None }
    }
}
pub open spec fn fc_matches(rem: Seq<(u32, &RawCel)>, cels: Seq<(u32, RawCel)>) -> bool {
    rem.len() == cels.len() && forall|k: int| 0 <= k < rem.len() ==> (#[trigger] rem[k]).0 == cels[k].0 && *rem[k].1 == cels[k].1
}
impl CelsData {
    #[verifier::external_body]
    pub fn frame_cels(&self, frame_id: u16) -> (r: FrameCels<'_>)
        requires (frame_id as int) < self.data.len(),
        ensures fc_matches(frame_cels_rem(r), cels_of(self.data[frame_id as int]@)),
    { unimplemented!() }
}

/// R-pre: what CelsData::validate / TilesetsById::validate / LayersData::validate establish for one non-linked cel
pub open spec fn content_ok(f: &AsepriteFile, c: &RawCel) -> bool {
    &&& (c.data.layer_index as int) < f.layers.layers.len()
    &&& match c.content {
        CelContent::Raw(ic) => ic.pixels.rgba().len() == (ic.size.width as int) * (ic.size.height as int),
        CelContent::Tilemap(tm) => match f.layers.layers[c.data.layer_index as int].layer_type {
            LayerType::Tilemap(id) => {
                &&& f.tilesets.map().dom().contains(id)
                &&& f.tilesets.map()[id].pixels is Some
                &&& tilemap_wf(&tm)
                &&& tiles_in_tileset(&tm, &f.tilesets.map()[id], f.tilesets.map()[id].pixels->0.rgba().len() as int)
            },
            _ => false,
        },
        CelContent::Linked(fr) => true,
    }
}
/// ... and for any cel: a link stays inside the frame table and never points at another link
pub open spec fn cel_ok(f: &AsepriteFile, c: &RawCel) -> bool {
    &&& content_ok(f, c)
    &&& match c.content {
        CelContent::Linked(fr) => (fr as int) < f.framedata.data.len() && match f.framedata.at(fr as int, c.data.layer_index as int) {
            Some(t) => !(t.content is Linked) && content_ok(f, &t),
            None => true,
        },
        _ => true,
    }
}
pub open spec fn file_ok(f: &AsepriteFile) -> bool {
    &&& f.framedata.data.len() == f.num_frames as int
    &&& f.layers.layers.len() <= 65536
    &&& parents_ok(f.layers.layers@, f.layers.parents@)
    &&& forall|fr: int, l: int| (#[trigger] f.framedata.at(fr, l)) is Some ==> {
            &&& l < f.layers.layers.len()
            &&& f.framedata.at(fr, l)->0.data.layer_index as int == l
            &&& cel_ok(f, &f.framedata.at(fr, l)->0)
        }
}
/// one non-linked cel over backdrop pixel b
pub open spec fn content_px(f: &AsepriteFile, c: &RawCel, b: Rgba<u8>, cx: int, cy: int) -> Rgba<u8> {
    let layer = f.layers.layers[c.data.layer_index as int];
    match c.content {
        CelContent::Raw(ic) => raw_px(b, &c.data, &ic.size, ic.pixels.rgba(), layer.blend_mode, layer.opacity, cx, cy),
        CelContent::Tilemap(tm) => match layer.layer_type {
            LayerType::Tilemap(id) => tm_px(b, &c.data, &tm, &f.tilesets.map()[id], f.tilesets.map()[id].pixels->0.rgba(), layer.blend_mode, layer.opacity, cx, cy),
            _ => b,
        },
        CelContent::Linked(fr) => b,
    }
}
/// C02/C19: one cel over backdrop pixel b; a linked cel shows the cel it links to (same layer, linked frame)
pub open spec fn cel_px(f: &AsepriteFile, c: &RawCel, b: Rgba<u8>, cx: int, cy: int) -> Rgba<u8> {
    match c.content {
        CelContent::Linked(fr) => match f.framedata.at(fr as int, c.data.layer_index as int) {
            Some(t) => content_px(f, &t, b, cx, cy),
            None => b,
        },
        _ => content_px(f, c, b, cx, cy),
    }
}
/// C02/C09: the first k cels of a frame (bottom to top), composited over a transparent canvas; cels of layers
/// that are hidden directly or through an ancestor contribute nothing
pub open spec fn frame_px(f: &AsepriteFile, cels: Seq<(u32, RawCel)>, k: int, cx: int, cy: int) -> Rgba<u8>
    decreases k,
{
    if k <= 0 {
        Rgba([0u8, 0u8, 0u8, 0u8])
    } else {
        let prev = frame_px(f, cels, k - 1, cx, cy);
        if spec_visible(f.layers.layers@, f.layers.parents@, cels[k - 1].0 as int) {
            cel_px(f, &cels[k - 1].1, prev, cx, cy)
        } else {
            prev
        }
    }
}
/// no cel of a visible layer among the first n: the canvas is still transparent black
pub proof fn lemma_none_visible(f: &AsepriteFile, cels: Seq<(u32, RawCel)>, n: int, cx: int, cy: int)
    requires 0 <= n <= cels.len(),
        forall|j: int| 0 <= j < n ==> !spec_visible(f.layers.layers@, f.layers.parents@, (#[trigger] cels[j]).0 as int),
    ensures frame_px(f, cels, n, cx, cy) == Rgba([0u8, 0u8, 0u8, 0u8]),
    decreases n,
{
    if n > 0 {
        lemma_none_visible(f, cels, n - 1, cx, cy);
        assert(!spec_visible(f.layers.layers@, f.layers.parents@, cels[n - 1].0 as int));
    }
}
/// C19: a frame in which exactly one cel (the k0-th) belongs to a visible layer shows exactly that cel over transparent black
pub proof fn lemma_single_visible(f: &AsepriteFile, cels: Seq<(u32, RawCel)>, n: int, k0: int, cx: int, cy: int)
    requires 0 <= k0 < n <= cels.len(),
        forall|j: int| 0 <= j < n ==> (spec_visible(f.layers.layers@, f.layers.parents@, (#[trigger] cels[j]).0 as int) <==> j == k0),
    ensures frame_px(f, cels, n, cx, cy) == cel_px(f, &cels[k0].1, Rgba([0u8, 0u8, 0u8, 0u8]), cx, cy),
    decreases n,
{
    if n - 1 > k0 {
        lemma_single_visible(f, cels, n - 1, k0, cx, cy);
        assert(!spec_visible(f.layers.layers@, f.layers.parents@, cels[n - 1].0 as int));
    } else {
        lemma_none_visible(f, cels, k0, cx, cy);
        assert(spec_visible(f.layers.layers@, f.layers.parents@, cels[k0].0 as int));
    }
}
// @end

// @section validate_shims
/// shim for TilesetsById<P> (a HashMap newtype): `get` is a map lookup (ASSUMED contract of std HashMap)
#[verifier::external_body]
#[verifier::reject_recursive_types(P)]
pub struct TilesetsById<P = Pixels> { _p: core::marker::PhantomData<P> }
impl<P> TilesetsById<P> {
    pub uninterp spec fn map(&self) -> Map<u32, Tileset<P>>;
    #[verifier::external_body]
    pub fn get(&self, id: u32) -> (r: Option<&Tileset<P>>)
        ensures
            (r is Some) == self.map().dom().contains(id),
            r is Some ==> *(r->0) == self.map()[id],
    { unimplemented!() }
}
impl Tiles {
    /// TRUSTED shim for `self.0.iter().map(|tile| tile.id.0).max()` (std iterator maximum)
    #[verifier::external_body]
    pub fn max_id(&self) -> (r: Option<u32>)
        ensures
            (r is None) == (self.0@.len() == 0),
            r is Some ==> (forall|i: int| 0 <= i < self.0@.len() ==> (#[trigger] self.0@[i]).id.0 <= r->0)
                && (exists|i: int| 0 <= i < self.0@.len() && (#[trigger] self.0@[i]).id.0 == r->0),
    { unimplemented!() }
}
/// assumed contract of std's Option::map_or (vstd has none): the default for None, else what the closure returns
pub assume_specification<T, U, F>[ core::option::Option::<T>::map_or ](o: Option<T>, d: U, f: F) -> (r: U)
    where F: core::ops::FnOnce(T) -> U + core::marker::Destruct, U: core::marker::Destruct,
    requires o is Some ==> f.requires((o->0,)),
    ensures o is None ==> r == d, o is Some ==> f.ensures((o->0,), r),
;
/// every tile id of the map is below n (what RawCel::validate must establish against the tileset's tile count)
pub open spec fn tiles_below(tm: &TilemapData, n: int) -> bool {
    forall|i: int| 0 <= i < tm.tiles.0@.len() ==> ((#[trigger] tm.tiles.0@[i]).id.0 as int) < n
}
// @end

// @section validate_spec
/// TRUSTED shim for `v.into_iter().enumerate()` on a Vec (R16): yields (0, v[0]), (1, v[1]), ... by value
#[verifier::external_body]
#[verifier::reject_recursive_types(T)]
pub struct EnumIntoIter<T> { _p: core::marker::PhantomData<T> }
pub uninterp spec fn enum_rem<T>(it: EnumIntoIter<T>) -> Seq<(usize, T)>;
impl<T> Iterator for EnumIntoIter<T> {
    type Item = (usize, T);
    #[verifier::external_body]
    fn next(&mut self) -> Option<(usize, T)> { unimplemented!() }
}
impl<T> vstd::std_specs::iter::IteratorSpecImpl for EnumIntoIter<T> {
    open spec fn obeys_prophetic_iter_laws(&self) -> bool { true }
    open spec fn remaining(&self) -> Seq<(usize, T)> { enum_rem(*self) }
    open spec fn will_return_none(&self) -> bool { true }
    open spec fn decrease(&self) -> Option<nat> { Some(enum_rem(*self).len()) }
    open spec fn peek(&self, i: int) -> Option<(usize, T)> {
        if 0 <= i < enum_rem(*self).len() { Some(enum_rem(*self)[i]) } else { None }
    }
}
#[verifier::external_body]
pub fn vec_into_iter_enumerate<T>(v: Vec<T>) -> (r: EnumIntoIter<T>)
    ensures
        enum_rem(r).len() == v@.len(),
        forall|i: int| 0 <= i < v@.len() ==> #[trigger] enum_rem(r)[i] == (i as usize, v@[i]),
{ unimplemented!() }

impl<P> CelsData<P> {
    pub open spec fn at(&self, f: int, l: int) -> Option<RawCel<P>> {
        if 0 <= f < self.data.len() && 0 <= l <= 65535 && self.data[f]@.contains_key(l as u16) { Some(self.data[f]@[l as u16]) } else { None }
    }
}
/// RawPixels::validate's verdict: same data; indexed pixels all have a palette entry
pub open spec fn pixels_validated(src: RawPixels, dst: Pixels) -> bool {
    match src {
        RawPixels::Rgba(data) => dst is Rgba && dst->Rgba_0@ == data@,
        RawPixels::Grayscale(data) => dst is Grayscale && dst->Grayscale_0@ == data@,
        RawPixels::Indexed(data) => dst is Indexed && dst->Indexed_data@ == data@
            && forall|i: int| 0 <= i < data@.len() ==> (*dst->Indexed_palette).entries@.contains_key(#[trigger] data@[i] as u32),
    }
}
/// RawCel::validate's verdict on the cel stored for layer `layer`
pub open spec fn cel_validated(src: RawCel<RawPixels>, dst: RawCel<Pixels>, layer: int, layers: &LayersData, tilesets: &TilesetsById) -> bool {
    dst.data == src.data && dst.user_data == src.user_data && match src.content {
        CelContent::Raw(ic) => dst.content is Raw && dst.content->Raw_0.size == ic.size && pixels_validated(ic.pixels, dst.content->Raw_0.pixels),
        CelContent::Linked(fr) => dst.content == CelContent::<Pixels>::Linked(fr),
        // a tilemap cel is accepted only in a tilemap layer and if every tile id exists in that layer's tileset
        CelContent::Tilemap(tm) => dst.content == CelContent::<Pixels>::Tilemap(tm)
            && layers.layers[layer].layer_type is Tilemap
            && ({ let id = layers.layers[layer].layer_type->Tilemap_0;
                  tiles_below(&tm, if tilesets.map().dom().contains(id) { tilesets.map()[id].tile_count as int } else { 0 }) }),
    }
}
/// a cel that may be the target of a link: it exists and holds pixel data itself
pub open spec fn linkable(cd: &CelsData<RawPixels>, f: int, l: int) -> bool {
    cd.at(f, l) is Some && cd.at(f, l)->0.content is Raw
}
/// the link table built by CelsData::validate: `rows` complete rows of `nl` entries and `extra` entries of the next row;
/// entry f*nl + l says whether (frame f, layer l) may be the target of a link (layer ids above 65535 cannot be named by a cel)
pub open spec fn link_table_ok(cd: &CelsData<RawPixels>, t: Seq<bool>, nl: int, rows: int, extra: int) -> bool {
    &&& t.len() == rows * nl + extra
    &&& forall|f: int, l: int| 0 <= f && 0 <= l < nl && l <= 65535 && (f < rows || (f == rows && l < extra))
            ==> (#[trigger] linkable(cd, f, l)) == t[f * nl + l]
}
pub proof fn lemma_row_index(f: int, l: int, nl: int, rows: int, extra: int)
    requires 0 <= f, 0 <= l < nl, 0 <= extra <= nl, f < rows || (f == rows && l < extra),
    ensures 0 <= f * nl + l < rows * nl + extra,
{
    assert(0 <= f * nl) by (nonlinear_arith) requires 0 <= f, 0 <= nl;
    if f < rows {
        assert(f * nl + nl <= rows * nl) by (nonlinear_arith) requires f + 1 <= rows, 0 <= nl;
    }
}
/// CelsData::validate's verdict on one slot of the cel table
pub open spec fn cell_ok(cd: &CelsData<RawPixels>, src: Option<RawCel<RawPixels>>, dst: Option<RawCel<Pixels>>, l: int, layers: &LayersData, tilesets: &TilesetsById) -> bool {
    match src {
        None => dst is None,
        // every cel sits in an existing layer, passed RawCel::validate, and a link points at an existing raw cel of the same layer
        Some(c) => l < layers.layers@.len() && dst is Some && cel_validated(c, dst->0, l, layers, tilesets)
            && (c.content is Linked ==> (c.content->Linked_0 as int) < cd.num_frames && linkable(cd, c.content->Linked_0 as int, l)),
    }
}
/// a whole row (map from layer index to cel): same layers before and after, every cel validated
pub open spec fn row_ok(cd: &CelsData<RawPixels>, src: Map<u16, RawCel<RawPixels>>, dst: Map<u16, RawCel<Pixels>>, layers: &LayersData, tilesets: &TilesetsById) -> bool {
    &&& forall|l: u16| #[trigger] dst.contains_key(l) <==> src.contains_key(l)
    &&& forall|l: u16| src.contains_key(l) ==> cell_ok(cd, Some(src[l]), Some(#[trigger] dst[l]), l as int, layers, tilesets)
}
/// ... and the first k entries of a row that is being processed in key order
pub open spec fn row_part(cd: &CelsData<RawPixels>, pairs: Seq<(u16, RawCel<RawPixels>)>, k: int, dst: Map<u16, RawCel<Pixels>>, layers: &LayersData, tilesets: &TilesetsById) -> bool {
    &&& forall|l: u16| #[trigger] dst.contains_key(l) <==> exists|i: int| 0 <= i < k && (#[trigger] pairs[i]).0 == l
    &&& forall|i: int| 0 <= i < k ==> cell_ok(cd, Some((#[trigger] pairs[i]).1), Some(dst[pairs[i].0]), pairs[i].0 as int, layers, tilesets)
}
pub proof fn lemma_row_done(cd: &CelsData<RawPixels>, pairs: Seq<(u16, RawCel<RawPixels>)>, src: Map<u16, RawCel<RawPixels>>, dst: Map<u16, RawCel<Pixels>>, layers: &LayersData, tilesets: &TilesetsById)
    requires lists_sorted(pairs, src), row_part(cd, pairs, pairs.len() as int, dst, layers, tilesets),
    ensures row_ok(cd, src, dst, layers, tilesets),
{
    assert forall|l: u16| #[trigger] dst.contains_key(l) <==> src.contains_key(l) by {
        if src.contains_key(l) {
            let i = choose|i: int| 0 <= i < pairs.len() && (#[trigger] pairs[i]).0 == l;
            assert(pairs[i].0 == l);
        }
    }
    assert forall|l: u16| src.contains_key(l) implies cell_ok(cd, Some(src[l]), Some(#[trigger] dst[l]), l as int, layers, tilesets) by {
        let i = choose|i: int| 0 <= i < pairs.len() && (#[trigger] pairs[i]).0 == l;
        assert(pairs[i].0 == l && src[l] == pairs[i].1);
    }
}
// @end

// @section hashmap_shim
/// shim for std::collections::HashMap: abstract view as a map (ASSUMED contracts of with_capacity / capacity / insert / get);
/// into_iter yields every (key, value) pair exactly once in an unspecified order (TRUSTED iterator shim)
#[verifier::external_body]
#[verifier::reject_recursive_types(K)]
#[verifier::reject_recursive_types(V)]
pub struct HashMap<K, V> { _p: core::marker::PhantomData<(K, V)> }
#[verifier::external_body]
#[verifier::reject_recursive_types(K)]
#[verifier::reject_recursive_types(V)]
pub struct MapIntoIter<K, V> { _p: core::marker::PhantomData<(K, V)> }
pub uninterp spec fn map_iter_rem<K, V>(it: MapIntoIter<K, V>) -> Seq<(K, V)>;
impl<K, V> Iterator for MapIntoIter<K, V> {
    type Item = (K, V);
    #[verifier::external_body]
    fn next(&mut self) -> Option<(K, V)> { unimplemented!() }
}
impl<K, V> vstd::std_specs::iter::IteratorSpecImpl for MapIntoIter<K, V> {
    open spec fn obeys_prophetic_iter_laws(&self) -> bool { true }
    open spec fn remaining(&self) -> Seq<(K, V)> { map_iter_rem(*self) }
    open spec fn will_return_none(&self) -> bool { true }
    open spec fn decrease(&self) -> Option<nat> { Some(map_iter_rem(*self).len()) }
    open spec fn peek(&self, i: int) -> Option<(K, V)> {
        if 0 <= i < map_iter_rem(*self).len() { Some(map_iter_rem(*self)[i]) } else { None }
    }
}
/// `pairs` enumerates the map: every pair is an entry, every key occurs, no key occurs twice
pub open spec fn enumerates<K, V>(pairs: Seq<(K, V)>, m: Map<K, V>) -> bool {
    &&& forall|i: int| 0 <= i < pairs.len() ==> m.contains_key((#[trigger] pairs[i]).0) && m[pairs[i].0] == pairs[i].1
    &&& forall|k: K| m.contains_key(k) ==> exists|i: int| 0 <= i < pairs.len() && (#[trigger] pairs[i]).0 == k
    &&& forall|i: int, j: int| 0 <= i < j < pairs.len() ==> (#[trigger] pairs[i]).0 != (#[trigger] pairs[j]).0
}
impl<K, V> HashMap<K, V> {
    pub uninterp spec fn view(&self) -> Map<K, V>;
    #[verifier::external_body]
    pub fn with_capacity(n: usize) -> (r: Self)
        ensures r@ == Map::<K, V>::empty(),
    { unimplemented!() }
    #[verifier::external_body]
    pub fn capacity(&self) -> (r: usize)
    { unimplemented!() }
    #[verifier::external_body]
    pub fn new() -> (r: Self)
        ensures r@ == Map::<K, V>::empty(),
    { unimplemented!() }
    #[verifier::external_body]
    pub fn get(&self, k: &K) -> (r: Option<&V>)
        ensures (r is Some) == self@.contains_key(*k), r is Some ==> *(r->0) == self@[*k],
    { unimplemented!() }
    #[verifier::external_body]
    pub fn len(&self) -> (r: usize)
        ensures r == self@.dom().len(),
    { unimplemented!() }
    #[verifier::external_body]
    pub fn is_empty(&self) -> (r: bool)
        ensures r == (self@.dom().len() == 0),
    { unimplemented!() }
    #[verifier::external_body]
    pub fn insert(&mut self, k: K, v: V) -> (r: Option<V>)
        ensures final(self)@ == old(self)@.insert(k, v),
    { unimplemented!() }
    #[verifier::external_body]
    pub fn into_iter(self) -> (r: MapIntoIter<K, V>)
        ensures enumerates(map_iter_rem(r), self@),
    { unimplemented!() }
}
// @end

// @section option_extra
/// assumed contract of std's Option::map_or_else (vstd has none; and_then has one): the default closure for None,
/// else what the closure returns for the content
pub assume_specification<T, U, D, F>[ core::option::Option::<T>::map_or_else ](o: Option<T>, d: D, f: F) -> (r: U)
    where D: core::ops::FnOnce() -> U + core::marker::Destruct, F: core::ops::FnOnce(T) -> U + core::marker::Destruct,
    requires o is None ==> d.requires(()), o is Some ==> f.requires((o->0,)),
    ensures o is None ==> d.ensures((), r), o is Some ==> f.ensures((o->0,), r),
;
// @end

// @section reader_exact
impl AseReader {
    /// AseReader::read_bytes(count) (`take(count).read_to_end(..)` + length check; the buffer grows with the bytes that
    /// arrive - nothing is reserved from the declared size). This is the contract that unit `pixel_readers` PROVES for the
    /// real function over the trusted model of a byte source (v_read_bytes), restated in this unit's data() / pos() vocabulary
    /// (rest() == data().subrange(pos(), len)). Kani cannot execute std's read_to_end symbolically (CBMC runs out of memory
    /// on a 4-byte cursor); the bounded obligations x_truncation / x_readers / x_total_load execute it
    #[verifier::external_body]
    pub fn read_bytes(&mut self, count: usize) -> (r: Result<Vec<u8>>)
        ensures final(self).data() == old(self).data(), 0 <= old(self).pos() <= old(self).data().len(),
            r is Ok <==> old(self).pos() + count <= old(self).data().len(),
            r is Ok ==> r->Ok_0@ == old(self).data().subrange(old(self).pos(), old(self).pos() + count)
                && final(self).pos() == old(self).pos() + count,
    { unimplemented!() }
    /// AseReader::read_exact(&mut [u8]) (std::io::Read::read_exact on the cursor; the call site passes `&mut Vec<u8>`):
    /// fills the whole buffer with the next bytes or fails; same ASSUMED reader contract as the primitives
    #[verifier::external_body]
    pub fn read_exact(&mut self, buf: &mut Vec<u8>) -> (r: Result<()>)
        ensures final(self).data() == old(self).data(), 0 <= old(self).pos() <= old(self).data().len(),
            final(buf)@.len() == old(buf)@.len(),
            r is Ok <==> old(self).pos() + old(buf)@.len() <= old(self).data().len(),
            r is Ok ==> final(buf)@ == old(self).data().subrange(old(self).pos(), old(self).pos() + old(buf)@.len())
                && final(self).pos() == old(self).pos() + old(buf)@.len(),
    { unimplemented!() }
}
// @end

// @section utils_shims
/// shim for image::RgbaImage as util.rs uses it: raw RGBA bytes, row-major (ASSUMED contracts of a dependency)
#[verifier::external_body]
pub struct RgbaImage { _p: core::marker::PhantomData<u8> }
impl RgbaImage {
    pub uninterp spec fn w(&self) -> nat;
    pub uninterp spec fn h(&self) -> nat;
    pub uninterp spec fn raw(&self) -> Seq<u8>;
    #[verifier::external_body]
    pub fn dimensions(&self) -> (r: (u32, u32))
        ensures r.0 == self.w(), r.1 == self.h(),
    { unimplemented!() }
    /// ImageBuffer::as_raw (a &Vec<u8>; the call sites only slice it)
    #[verifier::external_body]
    pub fn as_raw(&self) -> (r: &[u8])
        ensures r@ == self.raw(), r@.len() == 4 * self.w() * self.h(),
    { unimplemented!() }
    /// ImageBuffer::from_raw: Some iff the buffer is large enough
    #[verifier::external_body]
    pub fn from_raw(width: u32, height: u32, buf: Vec<u8>) -> (r: Option<RgbaImage>)
        ensures (r is Some) == (buf@.len() >= 4 * (width as int) * (height as int)),
            r is Some ==> (r->0).w() == width && (r->0).h() == height && (r->0).raw() == buf@,
    { unimplemented!() }
}
/// TRUSTED shim for `once(0).chain(0..h).chain(once(h - 1))` (R18): the rows 0, 0, 1, .., h-1, h-1
#[verifier::external_body]
pub struct BorderRows { _p: core::marker::PhantomData<u8> }
pub uninterp spec fn border_rows_rem(it: BorderRows) -> Seq<usize>;
impl Iterator for BorderRows {
    type Item = usize;
    #[verifier::external_body]
    fn next(&mut self) -> Option<usize> { unimplemented!() }
}
impl vstd::std_specs::iter::IteratorSpecImpl for BorderRows {
    open spec fn obeys_prophetic_iter_laws(&self) -> bool { true }
    open spec fn remaining(&self) -> Seq<usize> { border_rows_rem(*self) }
    open spec fn will_return_none(&self) -> bool { true }
    open spec fn decrease(&self) -> Option<nat> { Some(border_rows_rem(*self).len()) }
    open spec fn peek(&self, i: int) -> Option<usize> {
        if 0 <= i < border_rows_rem(*self).len() { Some(border_rows_rem(*self)[i]) } else { None }
    }
}
pub open spec fn clamp_m1(i: int, n: int) -> int { if i - 1 < 0 { 0 } else if i - 1 > n - 1 { n - 1 } else { i - 1 } }
#[verifier::external_body]
pub fn border_rows(first: usize, h: usize, last: usize) -> (r: BorderRows)
    ensures border_rows_rem(r).len() == h + 2,
        border_rows_rem(r)[0] == first, border_rows_rem(r)[h as int + 1] == last,
        forall|i: int| 1 <= i <= h ==> #[trigger] border_rows_rem(r)[i] == (i - 1) as usize,
{ unimplemented!() }
// @end

// @section utils_spec
/// the source row of every output row: 0, 0, 1, .., h-1, h-1
pub open spec fn bseq(h: int) -> Seq<usize> { Seq::new((h + 2) as nat, |i: int| clamp_m1(i, h) as usize) }
/// one output row of extrude_border: source row r with its first and last pixel duplicated
pub open spec fn ext_row(src: Seq<u8>, w: int, r: int) -> Seq<u8> {
    src.subrange(r * 4 * w, r * 4 * w + 4) + src.subrange(r * 4 * w, r * 4 * w + 4 * w) + src.subrange(r * 4 * w + 4 * w - 4, r * 4 * w + 4 * w)
}
/// the first k output rows
pub open spec fn ext_rows(src: Seq<u8>, w: int, rows: Seq<usize>, k: int) -> Seq<u8>
    decreases k,
{
    if k <= 0 { Seq::empty() } else { ext_rows(src, w, rows, k - 1) + ext_row(src, w, rows[k - 1] as int) }
}
pub proof fn lemma_ext_rows_len(src: Seq<u8>, w: int, h: int, rows: Seq<usize>, k: int)
    requires w >= 1, h >= 1, src.len() == 4 * w * h, 0 <= k <= rows.len(), forall|i: int| 0 <= i < rows.len() ==> 0 <= #[trigger] rows[i] < h,
    ensures ext_rows(src, w, rows, k).len() == k * (4 * (w + 2)),
    decreases k,
{
    if k > 0 {
        lemma_ext_rows_len(src, w, h, rows, k - 1);
        let r = rows[k - 1] as int;
        assert(0 <= r * 4 * w && r * 4 * w + 4 * w <= 4 * w * h) by (nonlinear_arith) requires 0 <= r < h, w >= 1;
        assert(ext_row(src, w, r).len() == 4 * (w + 2));
        assert(ext_rows(src, w, rows, k) == ext_rows(src, w, rows, k - 1) + ext_row(src, w, r));
        assert(k * (4 * (w + 2)) == (k - 1) * (4 * (w + 2)) + 4 * (w + 2)) by (nonlinear_arith);
    } else {
        assert(k * (4 * (w + 2)) == 0) by (nonlinear_arith) requires k == 0;
    }
}
/// byte c of output pixel (x, y) is byte c of source pixel (clamp(x-1), row y)
pub proof fn lemma_ext_rows_index(src: Seq<u8>, w: int, h: int, rows: Seq<usize>, k: int, x: int, y: int, c: int)
    requires w >= 1, h >= 1, src.len() == 4 * w * h, 0 <= k <= rows.len(), forall|i: int| 0 <= i < rows.len() ==> 0 <= #[trigger] rows[i] < h,
        0 <= y < k, 0 <= x < w + 2, 0 <= c < 4,
    ensures
        0 <= (y * (w + 2) + x) * 4 + c < ext_rows(src, w, rows, k).len(),
        0 <= ((rows[y] as int) * w + clamp_m1(x, w)) * 4 + c < src.len(),
        ext_rows(src, w, rows, k)[(y * (w + 2) + x) * 4 + c] == src[((rows[y] as int) * w + clamp_m1(x, w)) * 4 + c],
    decreases k,
{
    lemma_ext_rows_len(src, w, h, rows, k);
    lemma_ext_rows_len(src, w, h, rows, k - 1);
    let i = (y * (w + 2) + x) * 4 + c;
    assert(i == y * (4 * (w + 2)) + 4 * x + c) by (nonlinear_arith) requires i == (y * (w + 2) + x) * 4 + c;
    assert(y * (4 * (w + 2)) + 4 * (w + 2) <= k * (4 * (w + 2))) by (nonlinear_arith) requires y + 1 <= k, w >= 1;
    assert(0 <= y * (4 * (w + 2))) by (nonlinear_arith) requires 0 <= y, w >= 1;
    let r = rows[y] as int;
    assert(0 <= r * 4 * w && r * 4 * w + 4 * w <= 4 * w * h) by (nonlinear_arith) requires 0 <= r < h, w >= 1;
    assert((r * w + clamp_m1(x, w)) * 4 + c == r * 4 * w + 4 * clamp_m1(x, w) + c) by (nonlinear_arith);
    if y < k - 1 {
        lemma_ext_rows_index(src, w, h, rows, k - 1, x, y, c);
    } else {
        let prev = ext_rows(src, w, rows, k - 1);
        let row = ext_row(src, w, r);
        assert(row.len() == 4 * (w + 2));
        assert(prev.len() == y * (4 * (w + 2)));
        assert(ext_rows(src, w, rows, k) == prev + row);
        assert(0 <= 4 * x + c < 4 * (w + 2));
        assert((prev + row)[i] == row[4 * x + c]);
    }
}
// @end

// @section btreemap_shim
/// shim for std::collections::BTreeMap<u16, V> (the sparse rows of the cel table): abstract view as a map;
/// ASSUMED contracts of new / contains_key / insert / get / get_mut; into_iter yields every pair exactly once in
/// INCREASING key order (TRUSTED iterator shim - std documents the order)
#[verifier::external_body]
#[verifier::reject_recursive_types(K)]
#[verifier::reject_recursive_types(V)]
pub struct BTreeMap<K, V> { _p: core::marker::PhantomData<(K, V)> }
#[verifier::external_body]
#[verifier::reject_recursive_types(V)]
pub struct BTreeIntoIter<V> { _p: core::marker::PhantomData<V> }
pub uninterp spec fn btree_iter_rem<V>(it: BTreeIntoIter<V>) -> Seq<(u16, V)>;
impl<V> Iterator for BTreeIntoIter<V> {
    type Item = (u16, V);
    #[verifier::external_body]
    fn next(&mut self) -> Option<(u16, V)> { unimplemented!() }
}
impl<V> vstd::std_specs::iter::IteratorSpecImpl for BTreeIntoIter<V> {
    open spec fn obeys_prophetic_iter_laws(&self) -> bool { true }
    open spec fn remaining(&self) -> Seq<(u16, V)> { btree_iter_rem(*self) }
    open spec fn will_return_none(&self) -> bool { true }
    open spec fn decrease(&self) -> Option<nat> { Some(btree_iter_rem(*self).len()) }
    open spec fn peek(&self, i: int) -> Option<(u16, V)> {
        if 0 <= i < btree_iter_rem(*self).len() { Some(btree_iter_rem(*self)[i]) } else { None }
    }
}
/// `pairs` lists the map in increasing key order: every pair is an entry, every key occurs, keys strictly increase
pub open spec fn lists_sorted<V>(pairs: Seq<(u16, V)>, m: Map<u16, V>) -> bool {
    &&& forall|i: int| 0 <= i < pairs.len() ==> m.contains_key((#[trigger] pairs[i]).0) && m[pairs[i].0] == pairs[i].1
    &&& forall|k: u16| m.contains_key(k) ==> exists|i: int| 0 <= i < pairs.len() && (#[trigger] pairs[i]).0 == k
    &&& forall|i: int, j: int| 0 <= i < j < pairs.len() ==> (#[trigger] pairs[i]).0 < (#[trigger] pairs[j]).0
}
impl<V> BTreeMap<u16, V> {
    pub uninterp spec fn view(&self) -> Map<u16, V>;
    #[verifier::external_body]
    pub fn new() -> (r: Self)
        ensures r@ == Map::<u16, V>::empty(),
    { unimplemented!() }
    #[verifier::external_body]
    pub fn contains_key(&self, k: &u16) -> (r: bool)
        ensures r == self@.contains_key(*k),
    { unimplemented!() }
    #[verifier::external_body]
    pub fn insert(&mut self, k: u16, v: V) -> (r: Option<V>)
        ensures final(self)@ == old(self)@.insert(k, v),
    { unimplemented!() }
    #[verifier::external_body]
    pub fn get(&self, k: &u16) -> (r: Option<&V>)
        ensures (r is Some) == self@.contains_key(*k), r is Some ==> *(r->0) == self@[*k],
    { unimplemented!() }
    #[verifier::external_body]
    pub fn get_mut(&mut self, k: &u16) -> (r: Option<&mut V>)
        ensures
            match r {
                Some(c) => old(self)@.contains_key(*k) && *c == old(self)@[*k] && final(self)@ == old(self)@.insert(*k, *final(c)),
                None => !old(self)@.contains_key(*k) && final(self)@ == old(self)@,
            },
    { unimplemented!() }
    #[verifier::external_body]
    pub fn into_iter(self) -> (r: BTreeIntoIter<V>)
        ensures lists_sorted(btree_iter_rem(r), self@),
    { unimplemented!() }
}
// @end
