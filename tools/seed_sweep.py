#!/usr/bin/env python3
"""Run every seeded change against the quick check of the property it breaks (scratch worktree, VERIF_REPO) and
record which obligations fail.  Output: seeded/RESULTS.md + seeded/results.json.  Never touches /repo's tree."""
import json, os, subprocess, sys, time
V = os.path.dirname(os.path.dirname(os.path.abspath(__file__)))
only = sys.argv[1:]
rows = []
for sid in sorted(os.listdir(os.path.join(V, "seeded"))):
    d = os.path.join(V, "seeded", sid)
    if not os.path.isdir(d) or (only and sid not in only):
        continue
    meta = json.load(open(os.path.join(d, "meta.json")))
    import re
    prop = meta.get("check_with") or re.search(r"C\d\d", meta["breaks_property"]).group(0)
    wt = "/var/tmp/sweepwt.%d" % os.getpid()
    subprocess.run(["git", "-C", "/repo", "worktree", "add", "-q", "--detach", wt, "HEAD"], check=True)
    try:
        ap = subprocess.run(["git", "apply", os.path.join(d, "patch.diff")], cwd=wt, capture_output=True, text=True)
        if ap.returncode != 0:
            ap = subprocess.run(["git", "apply", "-3", os.path.join(d, "patch.diff")], cwd=wt, capture_output=True, text=True)
        if ap.returncode != 0:
            rows.append({"seed": sid, "property": prop, "rc": -1, "seconds": 0, "failed": [], "undecided": [], "violation_lines": [],
                         "note": "patch no longer applies to /repo HEAD (the code it changes was touched by a later fix: commit)"})
            print(sid, prop, "PATCH DOES NOT APPLY", flush=True)
            continue
        t0 = time.time()
        alt = "/var/tmp/verif-alt.%d" % os.getpid()      # own evidence / replay directory: parallel parts must not read each other's evidence
        env = dict(os.environ, VERIF_REPO=wt, VERIF_EVIDENCE_DIR=alt + "/evidence", VERIF_REPLAY_DIR=alt + "/replays")
        p = subprocess.run([os.path.join(V, "bin", "check"), prop, "--tier", "quick"], env=env, capture_output=True, text=True)
        secs = time.time() - t0
        ev = json.load(open(alt + "/evidence/%s.json" % prop))
        tab = ev["coverage"]["obligation_table"]
        failed = [(o["id"], o["engine"], o["label"]) for o in tab if o["status"] == "failed"]
        undec = [o["id"] for o in tab if o["status"] == "undecided"]
        rows.append({"seed": sid, "property": prop, "rc": p.returncode, "seconds": round(secs), "failed": failed, "undecided": undec,
                     "violation_lines": [l for l in p.stdout.splitlines() if l.startswith("VIOLATION")]})
        print(sid, prop, "rc=%d" % p.returncode, "%ds" % secs, "failed:", ",".join(f[0] for f in failed), "| undecided:", len(undec), flush=True)
    finally:
        subprocess.run(["git", "-C", "/repo", "worktree", "remove", "--force", wt])
if os.environ.get("SWEEP_PART"):
    # one of several parallel parts: only dump this part's rows; tools/seed_merge.py merges them afterwards
    json.dump(rows, open(os.environ["SWEEP_PART"], "w"), indent=1)
    sys.exit(0)
if only:
    # partial sweep: merge the new rows into the recorded results (replace rows of the same seed, keep the others)
    old = json.load(open(os.path.join(V, "seeded", "results.json")))
    new_ids = {r["seed"] for r in rows}
    rows = sorted([r for r in old if r["seed"] not in new_ids] + rows, key=lambda r: r["seed"])
if True:
    json.dump(rows, open(os.path.join(V, "seeded", "results.json"), "w"), indent=1)
    with open(os.path.join(V, "seeded", "RESULTS.md"), "w") as f:
        f.write("| seed | property | exit | obligations that fail (engine, label) | undecided (lost anchor / unsupported) |\n|---|---|---|---|---|\n")
        for r in rows:
            f.write("| %s | %s | %d | %s | %s |\n" % (r["seed"], r["property"], r["rc"],
                    ", ".join("`%s` (%s, %s)" % tuple(x) for x in r["failed"]) or "-", ", ".join("`%s`" % u for u in r["undecided"]) or "-"))
