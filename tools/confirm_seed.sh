#!/bin/bash
# usage: tools/confirm_seed.sh <patch.diff> <demo.rs> <testname>
# Confirms in a scratch worktree: demo passes on HEAD; with the patch: crate compiles, stock suite passes, demo fails.
PATCH=$1; DEMO=$2; NAME=$3
WT=/var/tmp/confirmwt.$$
git -C /repo worktree add -q --detach $WT HEAD || exit 3
cp "$DEMO" $WT/tests/$NAME.rs
cd $WT
export CARGO_TARGET_DIR=/var/tmp/confirm-target
r0=$(cargo test --offline $FEATURES --test $NAME 2>&1 | grep -E "^test result" | head -1)
git apply "$PATCH" || { echo "APPLY-FAILED"; cd /; git -C /repo worktree remove --force $WT; exit 3; }
r1=$(cargo test --offline --lib 2>&1 | grep -E "^test result|^error" | head -2)
r2=$(cargo test --offline --doc 2>&1 | grep -E "^test result|^error" | head -1)
r3=$(cargo test --offline $FEATURES --test $NAME 2>&1 | grep -E "^test result|^error" | head -1)
echo "demo on HEAD:        $r0"
echo "stock lib with patch: $r1"
echo "stock doc with patch: $r2"
echo "demo with patch:      $r3"
cd /
git -C /repo worktree remove --force $WT
