import sys; sys.path.insert(0,'/verif/lib')
import common, verus_engine, re
unit=sys.argv[1]; fns=sys.argv[2:]
s=common.Scratch("vp")
units=verus_engine.load_units()
res=verus_engine.run_unit(s,unit,units[unit])
d=res["diag"]
d=re.sub(r"warning: Verus does not \(yet\) support autoderive.*?\n\n","",d,flags=re.S)
print(d[:6000])
print(res["counts"], res["secs"])
for f in fns: print(f, verus_engine.classify(unit,res,f)[:3])
open('/tmp/%s_gen.rs'%unit,'w').write(res["text"])
