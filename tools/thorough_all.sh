#!/bin/bash
# runs every property's thorough command once, sequentially; prints rc and time per property (used via `vp run`)
cd "$(dirname "$0")/.."
bin/setup > /dev/null 2>&1
for p in ${THOROUGH_PROPS:-C09 C18 C19 C02 C07 C10 C13 C14 C15 C16 C08 C05 C11 C06 C17 C03 C01 C04}; do
  s=$(date +%s)
  out=$(bin/check $p --tier thorough 2>&1); rc=$?
  e=$(date +%s)
  echo "$p thorough rc=$rc $((e-s))s :: $(echo "$out" | tail -n 1)"
  echo "$out" | grep -E "VIOLATION|UNDECIDED|KNOWN-FINDING" | cut -c1-300 | head -5
done
echo THOROUGH-ALL-DONE
