import sys, os
sys.path.insert(0,'/verif/lib')
import common, verus_engine
from concurrent.futures import ThreadPoolExecutor
units=verus_engine.load_units()
def run(name):
    s=common.Scratch("au_"+name)
    try:
        res=verus_engine.run_unit(s,name,units[name])
    except common.Undecided as ex:
        # whole-unit loss (e.g. a sliced struct field was renamed): every obligation of the unit is undecided, never an alarm
        return name,0.0,{"<unit>":str(ex)},[("<whole unit>","undecided",str(ex)[:200])]
    bad=[]
    for it in units[name]["items"]:
        key = it.get("key") or it.get("fn_name") or (it.get("name") if it.get("kind")=="fn" else None)
        if not key: continue
        c=verus_engine.classify(name,res,key)
        if c[0]!="discharged": bad.append((key,c[0],c[1][:200]))
    return name,res["secs"],res["counts"].get("_lost"),bad
with ThreadPoolExecutor(6) as ex:
    for name,secs,lost,bad in ex.map(run, list(units)):
        print(name, "%.1fs"%secs, "LOST" if lost else "", bad if bad else "ok", flush=True)
