#!/bin/bash
# Run every Verus unit against each behaviour-preserving edit under benign/ (scratch worktree, VERIF_REPO; never touches /repo's tree).
# Expected: no line with 'failed' (an alarm on code where the property holds); 'undecided' for ONE function is tolerated.
cd /verif
for d in benign/*.diff; do
  wt=/var/tmp/benign_wt.$$
  git -C /repo worktree add -q --detach $wt HEAD
  (cd $wt && git apply /verif/$d) || echo "APPLY FAILED $d"
  echo "=== $d: $(grep '^+++' $d | head -1)"
  VERIF_REPO=$wt python3 tools/all_units.py 2>&1 | grep -v "^WARNING" | grep -v " ok$"
  git -C /repo worktree remove --force $wt
done
echo BENIGN-DONE
