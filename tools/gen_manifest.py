#!/usr/bin/env python3
"""Regenerate MANIFEST.json from the obligation registry (so that the manifest never drifts from the checks)."""
import os, sys, json
ROOT = os.path.dirname(os.path.dirname(os.path.abspath(__file__)))
sys.path.insert(0, os.path.join(ROOT, "lib"))
import registry

TECH = {
    "C01": "Kani contracts on every chunk decoder and reader primitive (field-by-field vs. the file-format layout) + bounded-exec round trip",
    "C02": "Verus functional contract on the real raw-cel rasteriser (unbounded) + Kani contracts (mul_un8, cel table) + bounded-exec frames vs composition spec",
    "C03": "Kani function contracts: leaves vs Aseprite macros over full domains, mode wrappers modulo uninterpreted callees; f64 kernels bounded-exec",
    "C04": "Verus (compute_parents / from_vec) + Kani totality contracts per decoder + fault enumeration in an isolated child process",
    "C05": "Verus renderer preconditions (assume/guarantee) + fault enumeration: every loadable mutant through every accessor",
    "C06": "Kani contracts on pixel conversions and cel decode + Verus rasteriser contract + bounded-exec cel images",
    "C07": "bounded-exec over encoding-choice vectors; Kani contracts for ignorable chunk codes and trailing bytes",
    "C08": "Verus contracts on tile lookup / slicing / rasteriser + Kani tile word decode + bounded-exec view agreement",
    "C09": "Verus proof of compute_parents on the extracted real text (unbounded) + exhaustive execution of all forests <= 6/8 layers",
    "C10": "Verus contracts on the real ParseInfo attachment state machine (add_user_data etc., unbounded) + exhaustive bounded exploration of chunk sequences for the parse_frame glue; Kani contract on the user-data decoder",
    "C11": "Kani contracts on palette decoders and 6-bit scaling + bounded-exec precedence / validation",
    "C13": "Kani contracts on reader primitives (error iff short) + every cut offset executed",
    "C14": "Kani contract on error mapping + bounded-exec scripted readers and injected I/O errors",
    "C15": "Kani contracts on every refusing branch over its whole code domain + bounded-exec refusals at every position",
    "C16": "rustc trait solver (Send+Sync) + overflow obligations of the Verus/Kani contracts + determinism/thread sanity runs",
    "C17": "Kani: laws proved per mode from the contracts of normal/merge (callees uninterpreted) + leaf range contracts",
    "C18": "bounded-exec of the utilities against their documented behaviour",
    "C19": "Verus contracts on the three cel constructors and the cel accessors (real text) + bounded-exec comparison of images / user data",
}
LEVEL_TEXT = {
    "proof": "Contract-based deductive verification of the real code: each listed obligation is a pre/postcondition (or loop invariant) on a function of /repo discharged for all inputs of its stated domain by Verus (Z3) on mechanically extracted text or by Kani (CBMC) on the compiled crate; callers are checked against callee contracts (stubs / uninterpreted functions). Obligations labelled bounded-sym (fixed payload shape, symbolic contents) or bounded-exec (executed family) are listed with their bounds in the evidence and are NOT counted as proved.",
    "exploration": "The deciding step for the top-level statement is a bounded stand-in that executes the real code on an enumerated / seeded family (the glue functions cannot be brought within reach of Kani or Verus, see DESIGN.md section 3); the leaf functions it relies on are under Kani contracts, reported separately in the evidence.",
    "other": "Type-level proof by rustc's trait solver (Send + Sync), overflow-freedom obligations collected from the Verus and Kani contracts, and determinism sanity runs; thread interleavings are not explored.",
}
NOTE = ("Trusted: rustc, Kani/CBMC/SAT, Verus/Z3/vstd; the spec functions in overlay/spec (file-format layout, Aseprite blend transcription, composition spec); "
        "verus/prelude.rs shims for image::Rgba/RgbaImage and for the Box<dyn Fn> dispatch; std::io / byteorder / flate2 / image internals; 64-bit target. "
        "Every evidence file lists the assumptions and a mechanical scan for assume/external_body/stub.")

def main():
    props = [json.loads(l) for l in open(os.path.join(ROOT, "properties.jsonl"))]
    checks, na = [], []
    for p in props:
        pid = p["id"]
        if pid not in registry.PROPS:
            continue
        spec = registry.PROPS[pid]
        obls = registry.obligations_of(pid)
        n_by = {}
        for o in obls:
            n_by[o.label] = n_by.get(o.label, 0) + 1
        checks.append({
            "property_id": pid,
            "quick_cmd": "bin/check %s --tier quick" % pid,
            "thorough_cmd": "bin/check %s --tier thorough" % pid,
            "evidence_file": "/verif/evidence/%s.json" % pid,
            "replay_cmd_template": "bin/check %s --replay {path}" % pid,
            "engine": "+".join(sorted({o.engine for o in obls})),
            "level_claimed": {"category": spec["level"],
                              "text": LEVEL_TEXT[spec["level"]] + " For this property: " + spec["explanation"] + " Obligations: %s." % ", ".join("%d %s" % (v, k) for k, v in sorted(n_by.items())),
                              "design_ref": "DESIGN.md section 5 (%s) and section 10 (as built)" % pid},
            "level_note": NOTE,
            "technique": TECH[pid],
        })
    na.append({"property_id": "C12", "reason": "Peak live heap of a whole load is an allocator-observed quantity: Kani's allocator is unmetered and whole-load symbolic execution does not terminate; vstd has no heap-size model and extraction cannot reach flate2/std::io. No contract within reach can express or decide the bound (DESIGN.md section 5, C12). The reservation-from-declared-size defects found while reading were fixed under C04."})
    m = {
        "version": 1,
        "setup_cmd": "bin/setup",
        "hooks": {"guard": "asefile_verif",
                  "enable": "no source commits: every check copies /repo's working tree to a scratch dir outside /repo and /verif and appends `#[cfg(any(kani, asefile_verif))] #[path=...] pub(crate) mod verif_overlay;` lines (add-only, asserted) there; builds use RUSTFLAGS=--cfg asefile_verif or cargo kani (cfg kani)",
                  "baseline_off_cmd": "cd /repo && cargo test --workspace --no-fail-fast --offline",
                  "source_commits": [], "add_only": True},
        "engines": [
            {"name": "kani", "path": "/verif/overlay/kani", "serves_properties": sorted({p for p in registry.PROPS if p.startswith("C") and len(p) == 3 and any(o.engine == "kani" for o in registry.obligations_of(p))}), "kind_free_text": "Kani 0.68 function-contract style harnesses (pre/post as assume/assert, callees stubbed by contracts or uninterpreted functions) on the real compiled crate"},
            {"name": "verus", "path": "/verif/verus", "serves_properties": sorted({p for p in registry.PROPS if p.startswith("C") and len(p) == 3 and any(o.engine == "verus" for o in registry.obligations_of(p))}), "kind_free_text": "Verus on function text extracted mechanically from the working tree on every run; requires/ensures/invariants spliced from verus/units.py"},
            {"name": "exec", "path": "/verif/overlay/exec", "serves_properties": sorted({p for p in registry.PROPS if p.startswith("C") and len(p) == 3 and any(o.engine == "exec" for o in registry.obligations_of(p))}), "kind_free_text": "bounded stand-ins executing the real code (in-crate tests under --cfg asefile_verif); never counted as proved"},
        ],
        "checks": checks,
        "not_applicable": na,
        "notes": "One driver: bin/check <property> [--tier quick|thorough] [--replay file]. Exit 0 held, 1 violation (VIOLATION line), 2 undecided (tool limit / lost anchor; never an alarm). Genuine defects found and fixed are recorded in known_findings.json.",
    }
    json.dump(m, open(os.path.join(ROOT, "MANIFEST.json"), "w"), indent=1)
    print("checks:", len(checks), "n/a:", len(na))

main()
