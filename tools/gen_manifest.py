#!/usr/bin/env python3
"""Regenerate MANIFEST.json from the obligation registry (so that the manifest never drifts from the checks)."""
import os, sys, json
ROOT = os.path.dirname(os.path.dirname(os.path.abspath(__file__)))
sys.path.insert(0, os.path.join(ROOT, "lib"))
import registry

TECH = {
    "C01": "Verus contracts on the real text of every chunk decoder, the chunk framing (Chunk::read / read_all), the file header and the public accessors (unbounded payloads, field-by-field vs the file-format layout); Kani contracts on reader primitives and fixed-shape decoders; bounded-exec round trip; Verus contracts on layer_by_name (lowest-numbered match), the layer iterator, get_tag, add_external_files and AseReader::string",
    "C02": "Verus functional contracts on the real frame_image / write_cel / both rasterisers (frame = fold of the cels in layer order over transparent black, hidden layers skipped; unbounded) and on CelsData::add_cel; Kani contract for mul_un8; bounded-exec frames vs an independent composition spec",
    "C03": "Kani function contracts: leaves vs Aseprite's macros over full domains, mode wrappers modulo uninterpreted callees; f64 HSL kernels bounded-exec",
    "C04": "Verus contracts (Ok iff well-formed, no overflow / index error / panic site reachable) on the real decoders, chunk framing, header, frame dispatch and validation stage; Kani totality contracts per fixed shape; fault enumeration in an isolated child process",
    "C05": "Verus assume/guarantee chain on the real text: the validation stage (ParseInfo::validate, CelsData::validate, RawCel::validate, LayersData::validate, TilesetsById::validate) delivers what the renderer (frame_image, write_cel, layer_image, rasterisers, tile lookups) requires, whose panic / expect sites are proved unreachable; fault enumeration through every accessor as the end-to-end stand-in; Verus contracts on the bulk readers (take_bytes / unzip) and the pixel / tile readers (from_raw, from_compressed, Tiles::unzip, parse_raw_cel, parse_compressed_cel, Tileset::parse_chunk): exactly the declared number of pixels / tiles, preserved by validation (lemma), under which Tileset::image / tile_image are proved panic-free with their documented sizes",
    "C06": "Verus contracts on the per-pixel conversion rules, RawPixels::validate, the cel decoders and the raw rasteriser; Kani contracts on cel payload shapes; bounded-exec cel images; Verus contracts on RawPixels::from_bytes / from_raw / from_compressed and the per-pixel constructors (how stored bytes become pixels, for every length)",
    "C07": "Verus contracts for the encoding-independent facts (CelsData::add_cel touches exactly one slot; old/new chunk count in parse_frame); Kani contracts for ignorable chunk codes and trailing bytes; bounded-exec over encoding-choice vectors; Verus: take_bytes / from_raw succeed whatever follows the declared bytes",
    "C08": "Verus functional contract on the real tilemap rasteriser (every canvas pixel written exactly once with the right tileset pixel), tile lookup / slicing / offsets and the tileset decoder; Kani tile word decode; bounded-exec view agreement; Verus contracts on Tileset::image / tile_image and a client lemma for 'the full image is the tile images stacked in index order'; Verus contract on Tiles::unzip",
    "C09": "Verus proofs on the real compute_parents / from_vec / Layer::is_visible / Layer::parent / frame_image (visibility gate) (unbounded) + exhaustive execution of all forests <= 6/8 layers",
    "C10": "Verus contracts on the real ParseInfo attachment state machine and parse_frame (fold over the chunk sequence, unbounded) + exhaustive bounded exploration of chunk sequences; Verus/Kani contract on the user-data decoder",
    "C11": "Verus contracts on the real new and legacy (0x0004 / 0x0011) palette decoders, 6-bit scaling, validate_indexed_pixels and RawPixels::validate (unbounded); Kani shapes; bounded-exec precedence / validation",
    "C13": "Verus contracts: reader-contract based 'Ok iff every declared byte is present' for chunk framing, decoders and header; Kani contracts on the reader primitives (error iff short); every cut offset executed; Verus contracts on read_bytes / take_bytes / unzip / string / skip_reserved over a trusted model of Read: fewer bytes than declared is an error",
    "C14": "Kani: AseReader primitives over a scripted reader for every split into read() sizes and every Interrupted placement, hard error anywhere; Kani contract on error mapping; bounded-exec scripted readers on whole files; Verus contract on read_bytes: every Err is the I/O error",
    "C15": "Verus / Kani contracts on every refusing branch over its whole code domain (pixel ratio and colour depth in read_aseprite, chunk type, layer type, blend mode, cel type, animation direction, colour profile, bits per tile, tileset without pixels) + bounded-exec refusals at every position",
    "C16": "rustc trait solver (Send+Sync) + overflow-freedom obligations of the Verus/Kani contracts (no result depends on wrapping) + determinism / thread sanity runs incl. the palette mapper",
    "C17": "Kani: laws proved per mode from the contracts of normal/merge (callees uninterpreted) + leaf range contracts; Verus: both rasterisers hand pixels and the opacity product to the blend function unchanged",
    "C18": "Verus contracts on the real extrude_border, PaletteMapper::new and PaletteMapper::lookup (unbounded; iterator chain / map iteration as trusted shims) + bounded-exec of all utilities incl. to_indexed_image",
    "C19": "Verus contracts on the three cel constructors, the cel accessors and layer_image / write_cel / frame_image (real text) + bounded-exec comparison of images / user data",
}
LEVEL_TEXT = {
    "proof": "Contract-based deductive verification of the real code: each listed obligation is a pre/postcondition (or loop invariant) on a function of /repo discharged for all inputs of its stated domain by Verus (Z3) on mechanically extracted text or by Kani (CBMC) on the compiled crate; callers are checked against callee contracts (stubs / uninterpreted functions). Obligations labelled bounded-sym (fixed payload shape, symbolic contents) or bounded-exec (executed family) are listed with their bounds in the evidence and are NOT counted as proved.",
    "exploration": "The deciding step for the top-level statement is a bounded stand-in that executes the real code on an enumerated / seeded family (the glue functions cannot be brought within reach of Kani or Verus, see DESIGN.md section 3); the leaf functions it relies on are under Kani contracts, reported separately in the evidence.",
    "other": "Type-level proof by rustc's trait solver (Send + Sync), overflow-freedom obligations collected from the Verus and Kani contracts, and determinism sanity runs; thread interleavings are not explored.",
}
NOTE = ("Trusted: rustc, Kani/CBMC/SAT, Verus/Z3/vstd; the spec functions in overlay/spec (file-format layout, Aseprite blend transcription, composition spec); "
        "verus/prelude.rs shims for image::Rgba/RgbaImage and for the Box<dyn Fn> dispatch; std::io / byteorder / flate2 / image internals; 64-bit target. "
        "Every evidence file lists the assumptions and a mechanical scan for assume/external_body/stub.")

def main():
    props = [json.loads(l) for l in open(os.path.join(ROOT, "properties.jsonl"))]
    checks, na = [], []
    for p in props:
        pid = p["id"]
        if pid not in registry.PROPS:
            continue
        spec = registry.PROPS[pid]
        obls = registry.obligations_of(pid)
        n_by = {}
        for o in obls:
            n_by[o.label] = n_by.get(o.label, 0) + 1
        checks.append({
            "property_id": pid,
            "quick_cmd": "bin/check %s --tier quick" % pid,
            "thorough_cmd": "bin/check %s --tier thorough" % pid,
            "evidence_file": "/verif/evidence/%s.json" % pid,
            "replay_cmd_template": "bin/check %s --replay {path}" % pid,
            "engine": "+".join(sorted({o.engine for o in obls})),
            "level_claimed": {"category": spec["level"],
                              "text": LEVEL_TEXT[spec["level"]] + " For this property: " + spec["explanation"] + " Obligations: %s." % ", ".join("%d %s" % (v, k) for k, v in sorted(n_by.items())),
                              "design_ref": "DESIGN.md section 5 (%s) and section 10 (as built)" % pid},
            "level_note": NOTE,
            "technique": TECH[pid],
        })
    na.append({"property_id": "C12", "reason": "Peak live heap of a whole load is an allocator-observed quantity: Kani's allocator is unmetered and whole-load symbolic execution does not terminate; vstd has no heap-size model and extraction cannot reach flate2/std::io. No contract within reach can express or decide the bound (DESIGN.md section 5, C12). The reservation-from-declared-size defects found while reading were fixed under C04."})
    m = {
        "version": 1,
        "setup_cmd": "bin/setup",
        "hooks": {"guard": "asefile_verif",
                  "enable": "no source commits: every check copies /repo's working tree to a scratch dir outside /repo and /verif and appends `#[cfg(any(kani, asefile_verif))] #[path=...] pub(crate) mod verif_overlay;` lines (add-only, asserted) there; builds use RUSTFLAGS=--cfg asefile_verif or cargo kani (cfg kani)",
                  "baseline_off_cmd": "cd /repo && cargo test --workspace --no-fail-fast --offline",
                  "source_commits": [], "add_only": True},
        "engines": [
            {"name": "kani", "path": "/verif/overlay/kani", "serves_properties": sorted({p for p in registry.PROPS if p.startswith("C") and len(p) == 3 and any(o.engine == "kani" for o in registry.obligations_of(p))}), "kind_free_text": "Kani 0.68 function-contract style harnesses (pre/post as assume/assert, callees stubbed by contracts or uninterpreted functions) on the real compiled crate"},
            {"name": "verus", "path": "/verif/verus", "serves_properties": sorted({p for p in registry.PROPS if p.startswith("C") and len(p) == 3 and any(o.engine == "verus" for o in registry.obligations_of(p))}), "kind_free_text": "Verus on function text extracted mechanically from the working tree on every run; requires/ensures/invariants spliced from verus/units.py"},
            {"name": "exec", "path": "/verif/overlay/exec", "serves_properties": sorted({p for p in registry.PROPS if p.startswith("C") and len(p) == 3 and any(o.engine == "exec" for o in registry.obligations_of(p))}), "kind_free_text": "bounded stand-ins executing the real code (in-crate tests under --cfg asefile_verif); never counted as proved"},
        ],
        "checks": checks,
        "not_applicable": na,
        "notes": "One driver: bin/check <property> [--tier quick|thorough] [--replay file]. Exit 0 held, 1 violation (VIOLATION line), 2 undecided (tool limit / lost anchor; never an alarm). Genuine defects found and fixed are recorded in known_findings.json.",
    }
    json.dump(m, open(os.path.join(ROOT, "MANIFEST.json"), "w"), indent=1)
    print("checks:", len(checks), "n/a:", len(na))

main()
