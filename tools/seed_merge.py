#!/usr/bin/env python3
"""Merge the row files written by parallel `SWEEP_PART=<file> tools/seed_sweep.py <ids...>` runs into seeded/results.json + RESULTS.md."""
import json, os, sys
V = os.path.dirname(os.path.dirname(os.path.abspath(__file__)))
old = json.load(open(os.path.join(V, "seeded", "results.json")))
new = []
for f in sys.argv[1:]:
    new += json.load(open(f))
ids = {r["seed"] for r in new}
rows = sorted([r for r in old if r["seed"] not in ids] + new, key=lambda r: r["seed"])
json.dump(rows, open(os.path.join(V, "seeded", "results.json"), "w"), indent=1)
with open(os.path.join(V, "seeded", "RESULTS.md"), "w") as f:
    f.write("| seed | property | exit | obligations that fail (engine, label) | undecided (lost anchor / unsupported) |\n|---|---|---|---|---|\n")
    for r in rows:
        f.write("| %s | %s | %d | %s | %s |\n" % (r["seed"], r["property"], r["rc"],
                ", ".join("`%s` (%s, %s)" % tuple(x) for x in r["failed"]) or "-", ", ".join("`%s`" % u for u in r["undecided"]) or "-"))
print(len(rows), "rows;", sum(1 for r in rows if r["rc"] == 1), "reported;", sum(1 for r in rows if r["rc"] == 0), "MISSED;", sum(1 for r in rows if r["rc"] == 2), "undecided only")
