#!/bin/bash
# usage: tools/try_seed.sh <patch.diff> <prop> [<prop>...]   – run checks against /repo HEAD + patch in a scratch worktree
set -u
PATCH=$1; shift
WT=/var/tmp/seedwt.$$
git -C /repo worktree add -q --detach $WT HEAD || exit 3
( cd $WT && git apply "$PATCH" ) || { echo "patch does not apply"; git -C /repo worktree remove --force $WT; exit 3; }
for p in "$@"; do
  s=$(date +%s)
  out=$(VERIF_REPO=$WT /verif/bin/check $p --tier ${TIER:-quick} ${ONLY:+--only $ONLY} 2>&1)
  rc=$?
  e=$(date +%s)
  echo "== $p rc=$rc $((e-s))s"
  echo "$out" | grep -E "VIOLATION|KNOWN-FINDING|UNDECIDED" | cut -c1-400 | head -8
done
git -C /repo worktree remove --force $WT
