#!/bin/bash
# usage: tools/import_seed.sh <agent-worktree> <n> <seed-id> <prop>[,<prop>...]   – confirm an agent's changeN and file it under seeded/<seed-id>
WT=$1; N=$2; ID=$3; PROPS=$4
D=/verif/seeded/$ID
mkdir -p $D
cp $WT/change$N.diff $D/patch.diff
cp $WT/demo$N.rs $D/demo.rs
cp $WT/NOTES.md $D/agent_notes.md
FEAT=""
grep -q "features utils" $D/demo.rs && FEAT="--features utils"
out=$(FEATURES="$FEAT" /verif/tools/confirm_seed.sh $D/patch.diff $D/demo.rs seed_demo_$$ 2>&1)
echo "$out"
echo "$out" > $D/confirm.txt
