def run(ctx, obls):
    raise NotImplementedError


def scan_assumptions():
    return []
