"""Static obligations: rustc's trait solver (Send + Sync) and mechanical scans reported as assumptions."""
import os, re
import common
from common import Undecided, VERIF, REPO


def run(ctx, obls):
    out = {}
    for o in obls:
        if o.id == "s_send_sync":
            out[o.id] = _send_sync(ctx, o)
        else:
            raise Undecided("unknown static obligation %s" % o.id)
    return out


def _send_sync(ctx, o):
    """Compile overlay/exec/send_sync.rs (cfg asefile_verif_sendsync): one `ok::<T>()` per public type.
    E0277 about Send/Sync => the named obligation is violated; any other build error => undecided."""
    scratch = ctx["scratch"]
    env = {"RUSTFLAGS": "--cfg asefile_verif --cfg asefile_verif_sendsync",
           "CARGO_TARGET_DIR": os.path.join(scratch.root, "target-sendsync")}
    rc, txt, secs = common.run(["cargo", "check", "--offline", "--lib", "--tests", "--features", "utils"], cwd=scratch.repo, env=env, timeout=900)
    oc = {"seconds": round(secs, 1), "backend": "rustc trait solver (cargo check)"}
    if rc == 0:
        oc["status"] = "discharged"
        return oc
    errs = [m.group(0) for m in re.finditer(r"^error(\[E\d+\])?:[^\n]*(\n[^\n]*){0,12}", txt, re.M)]
    ss = [e for e in errs if re.search(r"cannot be (sent|shared) between threads safely", e)]
    if ss and all("could not compile" in e or e in ss or "aborting due to" in e for e in errs):
        first = ss[0]
        oc.update({"status": "failed", "reason": "rustc: " + first.splitlines()[0], "failed_check": first[:1500], "input_found": False,
                   "fingerprint": re.sub(r"\s+", " ", first.splitlines()[0])[:160], "verifier_output": "\n".join(ss)[:3000]})
        return oc
    oc.update({"status": "undecided", "reason": "cargo check failed for another reason: %s" % ("\n".join(errs[:2])[:800])})
    return oc


_SCAN = [("unsafe", r"\bunsafe\b"), ("static mut", r"\bstatic\s+mut\b"), ("thread_local", r"thread_local!"),
         ("interior mutability (Cell/RefCell/OnceCell/Mutex/RwLock/Atomic*)", r"\b(RefCell|Cell<|OnceCell|OnceLock|Mutex|RwLock|Atomic[A-Z]\w*)"),
         ("wrapping/unchecked arithmetic", r"\b(wrapping_|overflowing_|unchecked_)\w+")]


def scan_assumptions():
    """Mechanical scans of /repo/src and of /verif, reported in every evidence file."""
    res = []
    src = os.path.join(REPO, "src")
    for name, pat in _SCAN:
        hits = []
        for fn in sorted(os.listdir(src)):
            if not fn.endswith(".rs") or fn == "tests.rs":
                continue
            for i, line in enumerate(open(os.path.join(src, fn), errors="replace"), 1):
                code = line.split("//")[0]
                if re.search(pat, code):
                    hits.append("%s:%d" % (fn, i))
        res.append("scan /repo/src for %s: %s" % (name, ", ".join(hits[:8]) if hits else "none"))
    # assumption-introducing constructs in /verif
    counts = {}
    for root, dirs, files in os.walk(VERIF):
        if ".git" in root or ".cache" in root or "replays" in root or "evidence" in root or "seeded" in root:
            continue
        for fn in files:
            if not (fn.endswith(".rs") or fn.endswith(".py")) or fn == "static_engine.py":
                continue
            t = open(os.path.join(root, fn), errors="replace").read()
            for k in ("external_body", "assume_specification", "kani::assume", "kani::stub", "admit(", "assume(false"):
                n = t.count(k)
                if n:
                    counts[k] = counts.get(k, 0) + n
    res.append("scan /verif for assumption-introducing constructs: %s" % ", ".join("%s x%d" % kv for kv in sorted(counts.items())))
    return res
