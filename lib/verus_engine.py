"""Engine V: extract the CURRENT text of the named functions from the scratch copy, splice contract
clauses (requires / ensures / invariant / decreases / proof hints) from /verif/verus/units.py, wrap
with the prelude in one verus!{} file and run `verus file.rs --output-json --time`.

Rewrite rules (each application is counted and reported):
  R1 assert!(e)/debug_assert!(e)   -> if !(e) { assert(false); }      (strengthens: can-never-fire becomes an obligation)
  R2 `if C { continue; }` as first statement of a `for` body -> `if !(C) { rest }`   (Verus: no continue in for)
  R3 blend_fn(a,b,c) through Box<dyn Fn> -> blend_fn.call(a,b,c)      (prelude shim, trusted spec == spec_blend(mode,..))
  R6 format!(...) -> String::new()                                     (message text is not part of any property)
  R7 (a..b).contains(&x) -> (a <= x && x < b)                          (integer ranges only)
  R8 `&X[i]` / `X[i]` through a one-line `impl Index` whose body is `&self.0[index]` -> `X.0[i]`  (body text is checked)
  R11 "literal".into() / .to_string() / .to_owned() -> String::new()   (error-message text only)
  R12 `call(..).map(Type::Ctor)` on a Result -> `match call(..) { Ok(v) => Ok(Type::Ctor(v)), Err(e) => Err(e) }`   (same value)
  R13 `debug!(..);` (log crate) statements are dropped
  R14 panic!(..) -> return vstd::pervasive::unreached()                      (strengthens: "never reached" becomes an obligation)
  R15 .expect("literal") -> .unwrap()                                  (same value / same panic condition; message dropped)
  closures: parameter types, a named return and requires/ensures are ADDED to a closure; its body text is kept verbatim
  R10 `&s[a..b]` on a slice -> vstd::slice::slice_subrange(s, a, b)   (same value; Verus has no range-index syntax)
  R9 `..` rest patterns / field shorthands are kept; `as usize`/`as i32` casts are kept (Verus checks them)
Anything else unsupported => Undecided (exit 2), never an alarm."""
import os, re, json, importlib.util
import rsx
import common
from common import log, Undecided, VERIF

_SEMANTIC = re.compile(r"postcondition not satisfied|precondition not satisfied|invariant not satisfied|"
                       r"possible arithmetic underflow/overflow|assertion failed|possible division by zero|"
                       r"possible bit shift underflow/overflow|decreases not satisfied|"
                       r"recommendation not met|index out of bounds|loop invariant not satisfied|"
                       r"invariant not satisfied (before|at end of) loop|unable to prove post-condition of closure|requires not satisfied")


def load_units():
    p = os.environ.get("VERIF_UNITS") or os.path.join(VERIF, "verus", "units.py")
    spec = importlib.util.spec_from_file_location("verus_units", p)
    mod = importlib.util.module_from_spec(spec)
    spec.loader.exec_module(mod)
    return mod.UNITS


def _rewrite(body, rules, counts):
    def cnt(k, n):
        if n:
            counts[k] = counts.get(k, 0) + n
    if "R1" in rules:
        # assert!(C [, msg..]) / debug_assert!(..)  ->  if !(C) { assert(false); }   (the condition may call exec
        # functions, so it stays executable; "the assertion can never fire" becomes the obligation assert(false))
        out, i, n = "", 0, 0
        while True:
            m = re.search(r"\b(?:debug_)?assert!\s*\(", body[i:])
            if not m:
                out += body[i:]
                break
            s = i + m.start()
            o = i + m.end() - 1
            mk = rsx.mask(body)
            c = rsx.match_brace(mk, o, "(", ")")
            inner, inner_m = body[o + 1:c], mk[o + 1:c]
            depth, cut = 0, len(inner)
            for k, ch in enumerate(inner_m):
                if ch in "([{":
                    depth += 1
                elif ch in ")]}":
                    depth -= 1
                elif ch == "," and depth == 0:
                    cut = k
                    break
            cond = inner[:cut].strip()
            out += body[i:s] + "if !(%s) { assert(false); }" % cond
            i = c + 1
            # swallow the statement's semicolon
            if body[i:i + 1] == ";":
                i += 1
            n += 1
        body = out
        cnt("R1", n)
    if "R6" in rules:
        # format!( ... ) with balanced parens -> String::new()
        out, i, n = "", 0, 0
        while True:
            m = re.search(r"\bformat!\s*\(", body[i:])
            if not m:
                out += body[i:]
                break
            s = i + m.start()
            o = i + m.end() - 1
            c = rsx.match_brace(rsx.mask(body), o, "(", ")")
            out += body[i:s] + "String::new()"
            i = c + 1
            n += 1
        body = out
        cnt("R6", n)
    if "R11" in rules:
        # string literal `.into()` / `.to_string()` / `.to_owned()` used only as error-message text
        body, n = re.subn(r'"(?:[^"\\\\]|\\\\.)*"\s*\.(?:into|to_string|to_owned)\(\)', "String::new()", body)
        cnt("R11", n)
    if "R12" in rules:
        # `reader.prim().map(Path::Ctor)` (a datatype constructor used as a function value) -> explicit match
        body, n = re.subn(r"\b((?:\w+(?:::\w+)*)(?:\.\w+)?\([^()]*\))\.map\(\s*([A-Z]\w*(?:::\w+)+)\s*\)",
                          r"(match \1 { Ok(v) => Ok(\2(v)), Err(e) => Err(e) })", body)
        cnt("R12", n)
    if "R13" in rules:
        # log::debug!(..) statements have no effect on any property
        body, n = re.subn(r"\bdebug!\((?:[^()]|\((?:[^()]|\([^()]*\))*\))*\);", "", body)
        cnt("R13", n)
    if "R14" in rules:
        # panic!(msg..) -> return vstd::pervasive::unreached()   (requires false: "this panic can never be reached" becomes
        # the obligation; the message text is dropped)
        out, i, n = "", 0, 0
        while True:
            m = re.search(r"\bpanic!\s*\(", body[i:])
            if not m:
                out += body[i:]
                break
            s = i + m.start()
            o = i + m.end() - 1
            c = rsx.match_brace(rsx.mask(body), o, "(", ")")
            # `return <expr>` has type `!` like panic!, and the type of unreached() is then the function's return type
            out += body[i:s] + "return vstd::pervasive::unreached()"
            i = c + 1
            n += 1
        body = out
        cnt("R14", n)
    if "R15" in rules:
        # opt.expect("literal") -> opt.unwrap()   (same value and same panic condition; Verus then demands `is Some`)
        body, n = re.subn(r'\.expect\(\s*"(?:[^"\\\\]|\\\\.)*"\s*,?\s*\)', ".unwrap()", body)
        cnt("R15", n)
    if "R7" in rules:
        # inclusive form first: (a..=b).contains(&x)  ->  (a <= x && x <= b)
        body, n0 = re.subn(r"\(\s*([^()]+?)\s*\.\.=\s*(\w+|\([^()]+(?:\([^()]*\)[^()]*)*\))\s*\)\s*\.contains\(\s*&\s*(\w+)\s*\)",
                           r"((\1) <= \3 && \3 <= (\2))", body)
        cnt("R7", n0)
        body, n = re.subn(r"\(\s*([^()]+?)\s*\.\.\s*\(([^()]+(?:\([^()]*\)[^()]*)*)\)\s*\)\s*\.contains\(\s*&\s*(\w+)\s*\)",
                          r"((\1) <= \3 && \3 < (\2))", body)
        cnt("R7", n)
    if "R8" in rules:
        # `<path>.layers[i]` through `impl Index<u32> for LayersData` (body text checked by index_impl_check) -> the Vec field
        body, n = re.subn(r"(?<!\.layers)\.layers\[([^\[\]]+)\]", r".layers.layers[(\1) as usize]", body)
        cnt("R8", n)
    if "R10" in rules:
        # bounds may be arithmetic expressions over identifiers (no nested indexing / ranges / field access)
        body, n = re.subn(r"&(\w+)\[([^\[\]\.]+?)\.\.([^\[\]\.]+?)\]", r"slice_subrange(\1, \2, \3)", body)
        cnt("R10", n)
    if "R3" in rules:
        body, n = re.subn(r"\bblend_fn\(", "blend_fn.call(", body)
        cnt("R3", n)
    return body


def _apply_r2(body, counts):
    """`for ... { if C { continue; } REST }` -> `for ... { if !(C) { REST } }` (only as FIRST statement)."""
    changed = True
    while changed:
        changed = False
        m = rsx.mask(body)
        for (kw_i, open_i, kw) in rsx.loops(m):
            if kw != "for":
                continue
            close_i = rsx.match_brace(m, open_i)
            inner = body[open_i + 1:close_i]
            # comments before the `if` are skipped (matched on the masked text, where they are blanks)
            im = re.match(r"(\s*)if\s+(.+?)\s*\{\s*continue;\s*\}", m[open_i + 1:close_i], re.S)
            if not im:
                continue
            cond = inner[im.start(2):im.end(2)]
            if "{" in cond:
                continue
            rest = inner[im.end():]
            body = body[:open_i + 1] + "%sif !(%s) {%s}\n" % (inner[im.start(1):im.end(1)], cond, rest) + body[close_i:]
            counts["R2"] = counts.get("R2", 0) + 1
            changed = True
            break
    return body


PROOF_MARK = "// @proof-step"


def _mark(text):
    """tag every line of proof text that the machinery splices INTO a body (hints, loop_begins / loop_ends, prologue): a
    diagnostic on such a line is a failed proof step of the machinery, not a failed clause of the function's contract"""
    return "\n".join((l + "  " + PROOF_MARK) if l.strip() else l for l in text.split("\n"))


def _splice_fn(src_text, f, counts):
    info = rsx.find_fn(src_text, f["name"], f.get("impl_of"), f.get("impl_filter"))
    sig = info["sig"]
    body = info["body"]
    sig = re.sub(r"^pub(\([^)]*\))?\s+", "", sig)
    if f.get("ret"):
        sm = re.search(r"->\s*(.+?)\s*(where\b.*)?$", sig, re.S)
        if not sm:
            raise Undecided("fn %s: no return type to name" % f["name"])
        sig = sig[:sm.start()] + "-> (%s: %s)" % (f["ret"], sm.group(1).strip()) + (" " + sm.group(2) if sm.group(2) else "")
    for (a, b) in f.get("sig_rewrites", []):
        if a not in sig:
            raise Undecided("lost anchor in signature of %s: %r" % (f["name"], a))
        sig = sig.replace(a, b)
    rules = f.get("rules", ["R1", "R6"])
    body = _rewrite(body, rules, counts)
    if "R2" in rules:
        body = _apply_r2(body, counts)
    for (a, b) in f.get("body_rewrites", []):
        if a.startswith("re:"):
            # pattern form: whitespace / a closure parameter's name may vary; the replacement may refer to groups
            body, n = re.subn(a[3:], b, body)
            if n != 1:
                raise Undecided("lost anchor in body of %s: pattern %r matches %d times" % (f["name"], a[3:], n))
        else:
            if a not in body:
                raise Undecided("lost anchor in body of %s: %r" % (f["name"], a))
            body = body.replace(a, b)
        counts["custom"] = counts.get("custom", 0) + 1
    # closure contracts: annotation only. {"after": text that precedes the closure, "params": typed parameter list,
    # "ret": "name: Type", "requires"/"ensures": clauses}. The closure's BODY TEXT IS KEPT VERBATIM (an expression body is
    # wrapped in braces, which Verus needs before it accepts clauses).
    for c in f.get("closures", []):
        body = _annotate_closure(body, c, f["name"], counts)
    # loop clauses, keyed by ordinal (1-based, source order) – insert from the last to the first
    lp = rsx.loops(rsx.mask(body))
    want = f.get("loops", {})
    if want and max(want) > len(lp):
        raise Undecided("lost anchor: fn %s has %d loops, clause for loop %d" % (f["name"], len(lp), max(want)))
    ends = f.get("loop_ends", {})
    if ends and max(ends) > len(lp):
        raise Undecided("lost anchor: fn %s has %d loops, end-of-body proof for loop %d" % (f["name"], len(lp), max(ends)))
    mb = rsx.mask(body)
    # insertion points (offset, text): loop clauses before the `{` of loop k, proof text before the `}` that closes it
    ins = [(lp[k - 1][1], "\n" + want[k].rstrip() + "\n") for k in want]
    ins += [(rsx.match_brace(mb, lp[k - 1][1]), "\n" + _mark(ends[k].rstrip()) + "\n") for k in ends]
    # `loop_begins`: proof text right after the brace that OPENS loop k's body (independent of what the body's first line is)
    begins = f.get("loop_begins", {})
    if begins and max(begins) > len(lp):
        raise Undecided("lost anchor: fn %s has %d loops, begin-of-body proof for loop %d" % (f["name"], len(lp), max(begins)))
    ins += [(lp[k - 1][1] + 1, "\n" + _mark(begins[k].rstrip()) + "\n") for k in begins]
    for (off, txt) in sorted(ins, key=lambda x: -x[0]):
        body = body[:off] + txt + body[off:]
    for (anchor, text, *where) in f.get("hints", []):
        # anchor = a short substring identifying ONE line of the body; the hint goes before / after that line
        lines = body.split("\n")
        hits = [i for i, l in enumerate(lines) if anchor in l]
        if len(hits) != 1:
            raise Undecided("lost anchor: hint anchor %r occurs on %d lines in %s" % (anchor, len(hits), f["name"]))
        i = hits[0]
        if where and where[0] == "before":
            lines.insert(i, _mark(text))
        else:
            lines.insert(i + 1, _mark(text))
        body = "\n".join(lines)
    # `prologue`: proof text right after the brace that opens the function body (independent of what the first statement is)
    if f.get("prologue"):
        ob = body.index("{")
        body = body[:ob + 1] + "\n" + _mark(f["prologue"].rstrip()) + "\n" + body[ob + 1:]
    clauses = ""
    if f.get("requires"):
        clauses += "\n    requires\n" + f["requires"].rstrip().rstrip(",") + ","
    if f.get("ensures"):
        clauses += "\n    ensures\n" + f["ensures"].rstrip().rstrip(",") + ","
    if f.get("decreases"):
        clauses += "\n    decreases " + f["decreases"] + ","
    attrs = "".join("%s\n" % a for a in f.get("attrs", []))
    return attrs + sig + clauses + "\n" + body + "\n"


def _stub_fn(src_text, f):
    """signature + contract clauses of a function whose body can no longer be spliced; None if even the signature is gone"""
    try:
        info = rsx.find_fn(src_text, f["name"], f.get("impl_of"), f.get("impl_filter"))
    except Undecided:
        return None
    sig = re.sub(r"^pub(\([^)]*\))?\s+", "", info["sig"])
    if f.get("ret"):
        sm = re.search(r"->\s*(.+?)\s*(where\b.*)?$", sig, re.S)
        if not sm:
            return None
        sig = sig[:sm.start()] + "-> (%s: %s)" % (f["ret"], sm.group(1).strip()) + (" " + sm.group(2) if sm.group(2) else "")
    for (a, b) in f.get("sig_rewrites", []):
        if a not in sig:
            return None
        sig = sig.replace(a, b)
    clauses = ""
    if f.get("requires"):
        clauses += "\n    requires\n" + f["requires"].rstrip().rstrip(",") + ","
    if f.get("ensures"):
        clauses += "\n    ensures\n" + f["ensures"].rstrip().rstrip(",") + ","
    return "#[verifier::external_body]\n" + sig + clauses + "\n{ unimplemented!() }\n"


def _annotate_closure(body, c, fname, counts):
    m = rsx.mask(body)
    a = body.find(c["after"])
    if a < 0 or body.find(c["after"], a + 1) >= 0:
        raise Undecided("lost anchor: closure anchor %r in %s" % (c["after"], fname))
    i = a + len(c["after"])
    while i < len(m) and m[i].isspace():
        i += 1
    if i >= len(m) or m[i] != "|":
        raise Undecided("lost anchor: no closure after %r in %s" % (c["after"], fname))
    j = m.index("|", i + 1)          # end of the parameter list (patterns with `|` are not used by this crate's closures)
    k = j + 1
    while k < len(m) and m[k].isspace():
        k += 1
    if m[k] == "{":
        e = rsx.match_brace(m, k) + 1
        inner = body[k:e]
    else:
        depth, e = 0, k
        while e < len(m):
            ch = m[e]
            if ch in "([{":
                depth += 1
            elif ch in ")]}":
                if depth == 0:
                    break
                depth -= 1
            elif ch == "," and depth == 0:
                break
            e += 1
        inner = "{ " + body[k:e].strip() + " }"
    head = "|%s| -> (%s)" % (c["params"], c["ret"])
    if c.get("requires"):
        head += " requires " + c["requires"]
    if c.get("ensures"):
        head += " ensures " + c["ensures"]
    counts["closure"] = counts.get("closure", 0) + 1
    return body[:i] + head + " " + inner + body[e:]


def _splice_struct(src_text, s, counts):
    st = rsx.find_struct(src_text, s["name"])
    if s.get("keep") is None:
        m = rsx.mask(st)
        if "{" in m:
            s = dict(s)
            s["keep"] = [n for (_, n, _) in rsx.struct_fields(st)]   # all fields, made pub below
        else:
            # tuple struct: make every field pub
            o = m.index("(", re.search(r"struct\s+\w+", m).end())
            c = rsx.match_brace(m, o, "(", ")")
            inner = st[o + 1:c]
            parts, depth, cur = [], 0, ""
            for ch in inner:
                if ch in "<([":
                    depth += 1
                elif ch in ">)]":
                    depth -= 1
                if ch == "," and depth == 0:
                    parts.append(cur)
                    cur = ""
                else:
                    cur += ch
            if cur.strip():
                parts.append(cur)
            parts = ["pub " + re.sub(r"^pub(\([^)]*\))?\s+", "", x.strip()) for x in parts]
            # keep the generic parameter list of the tuple struct (`struct Name<P = X>(...)`)
            name = re.search(r"struct\s+(\w+\s*(?:<[^(]*>)?)", st).group(1).strip()
            return s.get("attrs", "") + "pub struct %s(%s);\n" % (name, ", ".join(parts))
    fields = rsx.struct_fields(st)
    keep = s["keep"]
    names = [n for (_, n, _) in fields]
    for k in keep:
        if k not in names:
            raise Undecided("lost anchor: field %s of struct %s" % (k, s["name"]))
    dropped = [n for n in names if n not in keep]
    counts["R5"] = counts.get("R5", 0) + len(dropped)
    body = "".join("    pub %s: %s,\n" % (n, t) for (_, n, t) in fields if n in keep)
    for (a, b) in s.get("rewrites", []):
        if a not in body:
            raise Undecided("lost anchor in struct %s: %r" % (s["name"], a))
        body = body.replace(a, b)
    hdr = s.get("header") or re.match(r"(?:pub(?:\([^)]*\))?\s+)?(struct\s+\w+[^{]*)\{", st, re.S).group(1)
    return s.get("attrs", "") + "pub " + hdr + "{\n" + body + "}\n"


def build_unit(scratch, name, unit, force_stub=None):
    counts = {}
    force_stub = force_stub or {}
    parts = ["// GENERATED on every run by /verif/lib/verus_engine.py from the working tree – do not edit\n",
             "#![feature(allocator_api)]\n#![allow(unused_imports, dead_code, unused_variables, unused_mut, unused_parens)]\n",
             "use vstd::prelude::*;\n", "use vstd::slice::slice_subrange;\n", "use std::sync::Arc;\n", "use vstd::std_specs::iter::IteratorSpec;\n", "verus! {\n"]
    prelude = open(os.environ.get("VERIF_PRELUDE") or os.path.join(VERIF, "verus", "prelude.rs")).read()
    for sec in unit.get("prelude_sections", []):
        sm = re.search(r"//\s*@section %s\n(.*?)//\s*@end" % re.escape(sec), prelude, re.S)
        if not sm:
            raise Undecided("prelude section %s missing" % sec)
        parts.append(sm.group(1))
    if unit.get("pre"):
        parts.append(unit["pre"])
    fn_lines = {}
    lost = {}
    for it in unit["items"]:
        src = open(os.path.join(scratch.repo, "src", it["file"] + ".rs")).read() if it.get("file") else ""
        if it["kind"] == "struct":
            parts.append(_splice_struct(src, it, counts))
        elif it["kind"] == "fn":
            try:
                if (it.get("key") or it["name"]) in force_stub:
                    raise Undecided(force_stub[it.get("key") or it["name"]])
                txt = _splice_fn(src, it, counts)
            except Undecided as e:
                # a lost anchor INSIDE one function (rewritten body, vanished hint line, different loop structure) must
                # not take the rest of the unit down: that function becomes a stub carrying its contract (its own
                # obligation is undecided), every other function of the unit is still checked - against that contract
                txt = _stub_fn(src, it)
                lost[it.get("key") or it["name"]] = str(e)
                if txt is None:
                    # the function itself is gone (inlined into its caller, renamed): leave it out. Its obligation is
                    # undecided; callers that still name it fail in the front end and are stubbed by the retry in run_unit
                    continue
            if it.get("impl_of"):
                txt = "impl %s {\n%s}\n" % (it.get("impl_header", it["impl_of"]), txt)
            start = sum(p.count("\n") for p in parts) + 1
            parts.append(txt)
            fn_lines[it.get("key") or (it["impl_of"] + "::" + it["name"] if it.get("impl_of") and it["name"] in fn_lines else it["name"])] = (start, start + txt.count("\n"))
        elif it["kind"] == "enum":
            et = rsx.find_enum(src, it["name"])
            et = re.sub(r"^(pub(\([^)]*\))?\s+)?enum", "pub enum", et)
            for (a, b) in it.get("rewrites", []):
                if a not in et:
                    raise Undecided("lost anchor in enum %s: %r" % (it["name"], a))
                et = et.replace(a, b)
            parts.append(it.get("attrs", "") + et + "\n")
        elif it["kind"] == "const":
            cm = re.search(r"^[ \t]*(?:pub(?:\([^)]*\))?\s+)?const\s+%s\s*:[^;]*;" % re.escape(it["name"]), rsx.mask(src), re.M)
            if not cm:
                raise Undecided("lost anchor: const %s" % it["name"])
            parts.append(re.sub(r"^[ \t]*(pub(\([^)]*\))?\s+)?", "pub ", src[cm.start():cm.end()]) + "\n")
        elif it["kind"] == "verbatim":
            # a verbatim item may be a CLIENT lemma written here (not extracted): `fn_name` makes it an obligation of its own
            if it.get("fn_name"):
                start = sum(p.count("\n") for p in parts) + 1
                fn_lines[it["fn_name"]] = (start, start + it["text"].count("\n"))
            parts.append(it["text"])
        elif it["kind"] == "index_impl_check":
            # R8: the Index impl we bypass must be exactly `&self.0[index]`
            info = rsx.find_fn(src, "index", it["type"], it.get("impl_filter"))
            want = it.get("body", "{&self.0[index]}")
            if re.sub(r"\s+", "", info["body"]) != re.sub(r"\s+", "", want):
                raise Undecided("R8: impl Index for %s is no longer `%s`" % (it["type"], want))
            counts["R8"] = counts.get("R8", 0) + 1
    if unit.get("post"):
        parts.append(unit["post"])
    parts.append("} // verus!\nfn main() {}\n")
    counts["_lost"] = lost
    return "".join(parts), counts, fn_lines


def run_unit(scratch, name, unit, timeout=600):
    """Runs the unit. If the Rust / Verus FRONT END rejects the text (type error, unsupported construct) and every such
    error lies inside extracted functions, those functions are replaced by stubs carrying their contracts (their own
    obligations become undecided) and the unit is run again, so that one edited function does not hide the others."""
    force = {}
    res = None
    for _attempt in range(4):
        res = _run_unit_once(scratch, name, unit, timeout, force)
        js = res["json"] or {}
        vr = js.get("verification-results", {})
        front_end = (res["json"] is None) or vr.get("encountered-vir-error") or (not vr.get("success") and not vr.get("verified") and not vr.get("errors"))
        if not front_end:
            break
        culprits = {}
        ok = True
        for em in re.finditer(r"^(error[^\n]*)\n\s*-->\s*[^:\n]+:(\d+):(\d+)", res["diag"], re.M):
            ln = int(em.group(2))
            owner = [k for k, (lo, hi) in res["fn_lines"].items() if lo <= ln <= hi]
            if not owner:
                ok = False
                break
            culprits[owner[0]] = "front-end error in the extracted text of this function: %s" % em.group(1)[:160]
        if not ok or not culprits or all(k in force for k in culprits):
            break
        force.update(culprits)
    return res


def _run_unit_once(scratch, name, unit, timeout, force):
    text, counts, fn_lines = build_unit(scratch, name, unit, force)
    d = os.path.join(scratch.root, "verus")
    os.makedirs(d, exist_ok=True)
    path = os.path.join(d, name + ".rs")
    open(path, "w").write(text)
    cmd = ["verus", path, "--output-json", "--time", "--crate-name", "u_" + name]
    cmd += unit.get("verus_args", [])
    rc, out, secs = common.run(cmd, cwd=d, timeout=timeout)
    # stdout = JSON, stderr = diagnostics; they are interleaved in `out` – find the JSON object
    jm = re.search(r"^\{\n.*^\}\s*$", out, re.S | re.M)
    js = None
    if jm:
        try:
            js = json.loads(jm.group(0))
        except ValueError:
            js = None
    diag = out[:jm.start()] + out[jm.end():] if jm else out
    return {"rc": rc, "json": js, "diag": diag, "text": text, "counts": counts, "fn_lines": fn_lines, "path": path, "secs": secs}


def classify(unit_name, res, fn_name):
    """Status of one function under contract inside a unit run."""
    js = res["json"]
    diag = res["diag"]
    if res["rc"] == -9:
        return "undecided", "verus timeout", 0.0, None
    if js is None:
        return "undecided", "verus produced no JSON: %s" % diag[-600:], 0.0, None
    vr = js.get("verification-results", {})
    if vr.get("encountered-vir-error"):
        return "undecided", "verus front-end error (unsupported construct / type error): %s" % diag[:500], 0.0, None
    fb = {}
    try:
        for mod in js["times-ms"]["smt"]["smt-run-module-times"]:
            for f in mod.get("function-breakdown", []):
                fb[f["function"].split("::")[-1]] = f
    except KeyError:
        pass
    # map diagnostics to functions by line number
    if fn_name in res["counts"].get("_lost", {}):
        return "undecided", "lost anchor inside %s (replaced by a stub with its contract so that the rest of the unit is still decided): %s" % (fn_name, res["counts"]["_lost"][fn_name]), 0.0, None
    (lo, hi) = res["fn_lines"].get(fn_name, (0, 0))
    errs = []
    for em in re.finditer(r"^(error[^\n]*)\n\s*-->\s*[^:\n]+:(\d+):(\d+)", diag, re.M):
        ln = int(em.group(2))
        if lo <= ln <= hi:
            errs.append((em.group(1), ln))
    short = fn_name.split("::")[-1]
    ent = fb.get(short) if sum(1 for k in res["fn_lines"] if k.split("::")[-1] == short) == 1 else None
    secs = (ent or {}).get("time-micros", 0) / 1e6
    if fn_name not in res["fn_lines"]:
        return "undecided", "function %s is not part of unit %s" % (fn_name, unit_name), 0.0, None
    if not vr.get("success") and not fb and not errs:
        return "undecided", "verus failed before verification: %s" % diag[:500], 0.0, None
    if errs:
        sem = [e for e in errs if _SEMANTIC.search(e[0])]
        if sem and len(sem) == len(errs):
            tl = res["text"].splitlines()
            detail = "; ".join("%s (generated line %d: %s)" % (e[0], e[1], tl[e[1] - 1].replace(PROOF_MARK, "").strip()[:120]) for e in sem[:4])
            # every diagnostic sits on proof text that the machinery spliced in (a hint), none on a clause of the contract,
            # on an invariant or on the code: the PROOF broke, the contract was not refuted (decided further by the caller)
            if all(PROOF_MARK in tl[e[1] - 1] for e in sem):
                return "failed-proof-step", detail, secs, diag
            return "failed", detail, secs, diag
        return "undecided", "verus error that is not a failed obligation: %s" % "; ".join(e[0] for e in errs[:3]), secs, None
    if re.search(r"rlimit|Resource limit|timed out", diag):
        return "undecided", "solver resource limit", secs, None
    # no diagnostic inside this function's line range and the run reached verification: discharged
    # (a failure of ANOTHER function of the unit does not taint this one; every function is checked)
    if vr.get("success") or (isinstance(vr.get("verified"), int) and vr.get("verified") > 0):
        if ent is not None and not ent.get("success"):
            return "failed", "verus reports failure for %s: %s" % (fn_name, diag[:800]), secs, diag
        return "discharged", "", secs, None
    return "undecided", "function not reported by verus", 0.0, None


UNIT_TRUSTS = {}


def trusted_items(text):
    """every assumption the generated unit text contains: external_body functions / types (trusted shims, assumed contracts
    of dependencies, contracts proved in another unit) and assume_specification targets (assumed std contracts)"""
    items = []
    m = rsx.mask(text)
    for em in re.finditer(r"#\[verifier::external_body\]", m):
        tail = m[em.end():em.end() + 400]
        km = re.search(r"\b(fn|struct)\s+(\w+)", tail)
        if not km:
            continue
        name = km.group(2)
        if km.group(1) == "fn":
            # enclosing impl / mod, if any (nearest preceding `impl ... {` or `mod x {` at brace depth 1 of verus!{})
            head = m[:em.start()]
            im = None
            for cand in re.finditer(r"^(?:pub\s+)?(?:impl(?:<[^>]*>)?\s+([^{]+?)|mod\s+(\w+))\s*\{", head, re.M):
                o = cand.end() - 1
                try:
                    c = rsx.match_brace(m, o)
                except Undecided:
                    continue
                if c > em.start():
                    im = (cand.group(1) or cand.group(2)).strip()
            items.append("fn %s%s" % ((im + "::") if im else "", name))
        else:
            items.append("type %s" % name)
    for am in re.finditer(r"assume_specification\s*(?:<[^\[]*>)?\s*\[\s*([^\]]+?)\s*\]", text):
        items.append("std contract %s" % " ".join(am.group(1).split()))
    seen, out = set(), []
    for i in items:
        if i not in seen:
            seen.add(i)
            out.append(i)
    return out


def run(ctx, obls):
    """obls: registry obligations with extra['unit'] and extra['fn']. One verus run per unit."""
    units = load_units()
    scratch = ctx["scratch"]
    out = {}
    by_unit = {}
    for o in obls:
        by_unit.setdefault(o.extra["unit"], []).append(o)
    for uname, os_ in by_unit.items():
        if uname not in units:
            raise Undecided("unknown verus unit %s" % uname)
        try:
            res = run_unit(scratch, uname, units[uname])
        except Undecided as ex:
            # lost anchor / construct outside the subset after an edit of /repo: undecided for this unit only
            for o in os_:
                out[o.id] = {"status": "undecided", "reason": "unit %s: %s" % (uname, ex), "backend": "verus 0.2026.09.13 / z3"}
            continue
        trusted = trusted_items(res["text"])
        UNIT_TRUSTS[uname] = trusted
        for o in os_:
            st, reason, secs, diag = classify(uname, res, o.extra["fn"])
            oc = {"status": st, "reason": reason, "seconds": round(secs, 3), "backend": "verus 0.2026.09.13 / z3",
                  "rules_applied": res["counts"], "verus_functions": sorted(res["fn_lines"]), "unit": uname}
            proof_step = (st == "failed-proof-step")
            if proof_step:
                st = oc["status"] = "failed"
            if st == "failed":
                oc["failed_check"] = reason
                oc["verifier_output"] = (diag or "")[:3000]
                oc["fingerprint"] = re.sub(r"generated line \d+", "", reason)[:160]
                oc["input_found"] = False
                w = None
                if o.witness:
                    import exec_engine
                    cache = ctx.setdefault("witness_cache", {})
                    wkey = o.witness if isinstance(o.witness, str) else tuple(o.witness)
                    if wkey not in cache:
                        cache[wkey] = exec_engine.witness_search(ctx, o)
                    w = cache[wkey]
                if w:
                    oc["witness"] = w
                    oc["input_found"] = True
                elif proof_step:
                    # only proof steps of the machinery's own making failed and no failing input exists in the paired bounded
                    # families: a broken PROOF (typically a hint whose anchor line moved relative to the statements it talks
                    # about), not a refuted contract - undecided, never an alarm (DESIGN 10.6)
                    oc["status"] = "undecided"
                    oc["reason"] = "proof step spliced by the machinery no longer holds on the edited text and no failing input was found by %s; the contract clauses themselves were not refuted: %s" % (o.witness or "any paired obligation", reason)
            out[o.id] = oc
    return out
