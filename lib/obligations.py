"""The obligation table (what is proved about which real function) and the per-property selection."""
from registry import K, V, X, S, PROPS

B = "blend"
# ---------------------------------------------------------------- blend leaves (K-full, proved)
K("k_mul_un8", B, "mul_un8(a,b) == MUL_UN8(a,b) == round(a*b/255) for all a,b in 0..=255; cast exact", ["blend::mul_un8"])
K("k_div_un8", B, "div_un8(a,b) == DIV_UN8(a,b) in 0..=255 for all 0<=a<b<=255", ["blend::div_un8"])
K("k_blend8", B, "blend8(b,s,o) == b + MUL_UN8(s-b,o) in 0..=255 for all u8^3; blend8(a,a,t)==a", ["blend::blend8"])
for m in ["multiply", "screen", "overlay", "darken", "lighten", "color_dodge", "color_burn", "hard_light",
          "difference", "exclusion", "divide"]:
    K("k_ch_" + m, B, "blend_%s(b,s) == Aseprite's blend_%s macro, value in 0..=255, for all 0..=255^2" % (m, m),
      ["blend::blend_" + m])
K("k_ch_soft_light_range", B, "blend_soft_light(b,s) in 0..=255 for all 0..=255^2 (f64; equality is bounded-exec)",
  ["blend::blend_soft_light"])
K("k_merge", B, "merge == rgba_blender_merge on all 2^72 inputs; alpha(merge) == blend8(Ba,Sa,o)", ["blend::merge"])
K("k_normal_alpha", B, "alpha(normal) == A(Ba,Sa,o) independent of RGB; transparent-backdrop / transparent-source / zero-opacity / opaque-source laws",
  ["blend::normal"])
for ch in "rgb":
    K("k_normal_" + ch, B, "normal == rgba_blender_normal on channel %s and alpha for all 2^72 (backdrop, source, opacity); no overflow, no debug assertion" % ch,
      ["blend::normal", "blend::from_rgba_i32", "blend::as_rgba_i32"], solver="kissat", timeout=1200)
K("k_normal_full", B, "normal == rgba_blender_normal on whole pixels, all 2^72 inputs, monolithic", ["blend::normal"],
  tier="thorough", solver="kissat", timeout=3000)

# ---------------------------------------------------------------- blend wrappers (modular: callees uninterpreted)
UFN = "normal/merge replaced by uninterpreted functions"
K("k_blend_channel", B, "blend_channel(b,s,o,f) == normal(b,(f(Br,Sr),f(Bg,Sg),f(Bb,Sb),Sa),o) for every f and normal",
  ["blend::blend_channel"], replayable=False, bound=UFN)
K("k_blender", B, "blender(b,s,o,F) == RGBA_BLENDER_N structure over every F, normal, merge", ["blend::blender"],
  replayable=False, bound=UFN, witness="x_blend_public_api")
MODES = [("multiply", 1), ("screen", 2), ("overlay", 3), ("darken", 4), ("lighten", 5), ("color_dodge", 6), ("color_burn", 7),
         ("hard_light", 8), ("difference", 10), ("exclusion", 11), ("addition", 16), ("subtract", 17), ("divide", 18)]
UFC = "normal/merge replaced by their CONTRACTS (clauses proved by k_normal_alpha, k_merge); other callees uninterpreted"
for m, i in MODES:
    K("k_mode_" + m, B, "%s(b,s,o) == rgba_blender_%s_n(b,s,o) modulo normal/merge/channel fn (each proved equal to the reference separately)" % (m, m),
      ["blend::" + m, "blend::%s_baseline" % m, "blend::blender", "blend::blend_channel"], replayable=False, witness="x_blend_public_api", bound=UFN)
    K("k_law_" + m, B, "%s obeys the C17 laws (alpha == Normal alpha; transparent source / zero opacity keeps backdrop; transparent backdrop gives scaled source)" % m,
      ["blend::" + m, "blend::blender"], replayable=False, witness="x_blend_public_api", bound=UFC, depends=["k_normal_alpha", "k_merge", "k_blend8"])
K("k_mode_soft_light", B, "soft_light: integer skeleton == RGBA_BLENDER_N around the per-channel f64 kernel (kernel uninterpreted, range 0..=255)",
  ["blend::soft_light", "blend::soft_light_baseline"], replayable=False, witness="x_blend_public_api", bound=UFN + "; blend_soft_light uninterpreted")
K("k_law_soft_light", B, "soft_light obeys the C17 laws", ["blend::soft_light"], replayable=False, witness="x_blend_public_api", bound=UFC,
  depends=["k_normal_alpha", "k_merge", "k_blend8", "k_ch_soft_light_range"])
for m, i in [("hsl_hue", 12), ("hsl_saturation", 13), ("hsl_color", 14), ("hsl_luminosity", 15)]:
    K("k_mode_" + m, B, "%s: which f64 kernel is applied to backdrop / source, alpha pass-through, RGBA_BLENDER_N around it (kernels uninterpreted)" % m,
      ["blend::" + m, "blend::%s_baseline" % m], replayable=False, witness="x_blend_public_api", bound=UFN + "; luminosity/saturation/set_saturation/set_luminocity/from_rgb_f64 uninterpreted")
    K("k_law_" + m, B, "%s obeys the C17 laws (f64 kernels uninterpreted: alpha never flows through f64)" % m, ["blend::" + m], replayable=False,
      witness="x_blend_public_api", bound=UFC, depends=["k_normal_alpha", "k_merge", "k_blend8", "k_pack_f64"])
K("k_pack_i32", B, "as_rgba_i32 / from_rgba_i32 are exact inverses on u8 channels", ["blend::as_rgba_i32", "blend::from_rgba_i32"])
K("k_pack_f64", B, "from_rgb_f64 on channel values in [0,1]: no debug assertion, truncation toward zero, alpha passes through",
  ["blend::from_rgb_f64"], replayable=False)
ALL_MODES = [m for m, _ in MODES] + ["soft_light", "hsl_hue", "hsl_saturation", "hsl_color", "hsl_luminosity"]

PROPS["C03"] = {
    "level": "proof",
    "obligations": ["k_mul_un8", "k_div_un8", "k_blend8"] + ["k_ch_" + m for m in
                    ["multiply", "screen", "overlay", "darken", "lighten", "color_dodge", "color_burn", "hard_light",
                     "difference", "exclusion", "divide"]] + ["k_ch_soft_light_range", "k_merge", "k_normal_alpha",
                    "k_normal_r", "k_normal_g", "k_normal_b", "k_normal_full",
                    "k_blend_channel", "k_blender", "k_pack_i32", "k_pack_f64"] + ["k_mode_" + m for m in ALL_MODES],
    "explanation": "",
}

PROPS["C17"] = {
    "level": "proof",
    "obligations": ["k_mul_un8", "k_blend8", "k_merge", "k_normal_alpha", "k_pack_i32", "k_pack_f64", "k_ch_soft_light_range", "k_blender"]
                   + ["k_law_" + m for m in ALL_MODES],
    "explanation": "",
}

# ---------------------------------------------------------------- Engine X (bounded-exec)
X("x_roundtrip_structure", "encode(model) loads and every public attribute equals the model (all entities, file order, lookups, user data)",
  ["parse::read_aseprite", "parse::parse_frame", "parse::Chunk::read", "file::AsepriteFile accessors"], mod="x_structure",
  bound="seeded random models (600 quick / 6000 thorough)")
X("x_header_extremes", "frame counts up to 65535, extreme canvas sizes and durations are reported exactly",
  ["parse::read_aseprite", "parse::ParseInfo::new", "cel::CelsData::new"], mod="x_structure", bound="20 header shapes")
X("x_routes", "frame.layer / layer.frame / cel(frame,layer) agree; single-visible-cel frame == cel image; tilemap image == cel image",
  ["file::AsepriteFile::cel", "file::Frame::layer", "layer::Layer::frame", "cel::Cel::*", "tilemap::Tilemap::image"], mod="x_structure",
  bound="seeded random models with frames != layers (200 / 2000)")
X("x_frames_vs_spec", "Frame::image and Cel::image equal the composition spec computed from the model with the Aseprite blend reference; parents/visibility equal the forest spec",
  ["file::AsepriteFile::frame_image", "file::AsepriteFile::write_cel", "file::write_raw_cel_to_image", "file::write_tilemap_cel_to_image",
   "cel::CelsData::frame_cels", "layer::Layer::is_visible", "pixel::Pixels::clone_as_image_rgba"], mod="x_render",
  bound="seeded random stacks (500 / 6000)")
X("x_cel_order_irrelevant", "every permutation of the cel chunks of a frame gives the same image", ["cel::CelsData::add_cel", "cel::CelsData::frame_cels"],
  mod="x_render", bound="all permutations of <=4 cels on 40 / 400 seeded stacks")
X("x_forest_exhaustive", "parent(), is_visible() and frame images follow the nesting levels for EVERY forest of up to 6 (quick) / 8 (thorough) layers and every flag assignment",
  ["layer::Layer::parent", "layer::Layer::is_visible", "file::AsepriteFile::frame_image"], mod="x_render", bound="exhaustive <= 6 / 8 layers")
X("x_total_load", "loading returns Ok or Err on every corrupted / truncated / hostile / random input: no panic, abort, stack overflow on a 2 MiB thread, or hang",
  ["parse::read_aseprite", "every decoder", "ParseInfo::validate"], mod="x_total", label="bounded-exec", timeout=1500,
  bound="window/double/truncation mutants of 6 (24) generated + corpus files; special hostile models; 500 (4000) random strings")
X("x_usable_after_load", "whatever loads can be fully used: every accessor, every image, extreme tile lookups, Debug return normally",
  ["file::*", "cel::*", "tilemap::*", "tileset::*", "layer::Layer::is_visible"], mod="x_total", label="bounded-exec", timeout=1500,
  bound="same fault family as x_total_load")
X("x_userdata_exhaustive", "every user data record is attached to the entity its chunk follows (layer, cel, slice, sprite after legacy palette, successive tags) and to nothing else; text/colour iff flagged",
  ["parse::ParseInfo::add_user_data", "parse::ParseInfo::set_tag_user_data", "parse::ParseInfo::add_layer", "parse::ParseInfo::add_cel", "parse::ParseInfo::add_tags", "parse::ParseInfo::add_slice", "parse::parse_frame"],
  mod="x_userdata", bound="EXHAUSTIVE over admissible chunk sequences of length <= 5 (quick) / 6 (thorough); 2000 / 20000 seeded sequences of length 7..40")
X("x_neutral_encodings", "encoding choices the format declares equivalent never change the whole-API observation", ["parse::parse_frame", "parse::Chunk::read", "cel::parse_chunk", "reader::AseReader::unzip"],
  mod="x_encoding", bound="60 / 600 seeded models x ~30 encodings each")
X("x_truncation", "every strict prefix ending before the end of the last frame fails to load", ["reader::AseReader::*", "parse::read_aseprite", "parse::Chunk::read_all"],
  mod="x_encoding", bound="every cut offset of 25 / 250 generated files and 8 / all corpus files (stride 7 beyond 4 KiB in quick)")
X("x_readers", "the result is independent of how the reader delivers the bytes; a hard I/O error before the data is complete is returned as IoError with that kind", ["reader::AseReader::*", "file::AsepriteFile::read", "file::AsepriteFile::read_file", "error::From<io::Error>"],
  mod="x_encoding", bound="12 / 120 seeded models x 6 reader kinds; hard error of 6 kinds at every 5th / every offset")
X("x_refusals", "every documented-unsupported feature, switched on at every position, makes loading fail", ["parse::read_aseprite", "color_profile::parse_chunk", "tilemap::TilemapData::parse_chunk", "tileset::TilesetsById::validate", "layer::parse_chunk", "cel::CelContent::parse", "tags::parse_chunk"],
  mod="x_encoding", bound="40 / 400 seeded models x all positions")
X("x_palette_precedence", "new palette wins over legacy chunks in either order; legacy-only palettes decode to opaque, scaled entries at cumulative offsets", ["parse::parse_frame", "palette::parse_chunk", "palette::parse_old_chunk_04", "palette::parse_old_chunk_11"],
  mod="x_palette", bound="60 / 600 seeded palettes x 7 chunk combinations; all 64 six-bit values; one multi-packet chunk")
X("x_indexed_needs_palette", "an indexed sprite with pixels but no palette, or with any pixel index absent from the palette, fails to load", ["pixel::RawPixels::validate", "palette::ColorPalette::validate_indexed_pixels", "tileset::TilesetsById::validate"],
  mod="x_palette", bound="80 / 800 seeded indexed models, one absent index per cel / tileset")
X("x_tilemap_views", "tilemap image == tile lookups == tileset tile images; size in tiles, offsets, out-of-area lookups give tile 0; stacked tileset image", ["file::AsepriteFile::tilemap", "tilemap::Tilemap::*", "tileset::Tileset::tile_image", "tileset::Tileset::image"],
  mod="x_tilemap", bound="300 / 3000 seeded sprites with tilemaps")
X("x_mode_table", "dispatch table closure == blend function of that id == Aseprite reference", ["file::blend_mode_to_blend_fn", "blend::*"], mod="x_blend",
  bound="19 modes x (194400 boundary triples + 20000 / 400000 seeded triples)")
X("x_soft_light", "blend_soft_light == Aseprite's blend_soft_light on ALL 65536 channel pairs", ["blend::blend_soft_light"], mod="x_blend", bound="exhaustive 256 x 256")
X("x_hsl_kernels", "HSL baselines (hue/saturation/color/luminosity incl. the saturation-sort quirk) == reference; packed channels in 0..=255", ["blend::hsl_*_baseline", "blend::luminosity", "blend::saturation", "blend::set_saturation", "blend::set_luminocity", "blend::clip_color", "blend::static_sort3_orig", "blend::from_rgb_f64"],
  mod="x_blend", bound="2^16 x 64 (quick) / 2^24 x 512 (thorough) (source, backdrop) pairs x 4 modes", timeout=7200)
X("x_blend_public_api", "Frame::image on two-layer sprites == Aseprite reference for every mode; result alpha == Normal alpha", ["file::AsepriteFile::frame_image", "file::write_raw_cel_to_image", "blend::*"], mod="x_blend",
  bound="19 modes x 2000 / 60000 seeded (backdrop, source, layer opacity, cel opacity)")
X("x_determinism", "same bytes -> same observations; repeated / reordered / 16-thread concurrent calls agree", ["file::*"], mod="x_misc", bound="40 / 400 seeded models + 10 / all small corpus files")
X("x_utils", "extrude_border clamps; PaletteMapper.lookup / to_indexed_image as documented", ["util::extrude_border", "util::PaletteMapper::new", "util::PaletteMapper::lookup", "util::to_indexed_image"], mod="x_misc",
  bound="all sizes 1..8^2 + 30 / 300 seeded up to 64x64; 200 / 2000 seeded palettes")
X("x_cel_table_memory", "loading n <= 800 frames that each hold one cel chunk naming layer 65535 returns a sprite or an error value under the child's 4 GiB address-space limit (the dense cel table must not turn a declared layer index into gigabytes)",
  ["cel::CelsData::add_cel", "parse::ParseInfo::add_cel"], mod="x_total", bound="n in {50, 200, 800} frames (2 / 8 / 32 KiB files), RLIMIT_AS 4 GiB")
X("x_cels_table", "CelsData: add_cel Ok iff frame exists and slot free; cel() returns what was stored; frame_cels(f) yields the stored cels of the frame in increasing layer index, each with its layer id (the executed check behind the trusted Verus shim of frame_cels)",
  ["cel::CelsData::new", "cel::CelsData::add_cel", "cel::CelsData::cel", "cel::CelsData::frame_cels"], mod="x_misc", bound="784 cases: two insertions, frame ids in {0,1,2,3,255,256,65535}, layer indices 0..=3")
X("x_decoder_contracts", "every chunk decoder satisfies its contract (Ok iff layout/enums/UTF-8 valid; every stored attribute == layout read, file order) on generated payloads",
  ["layer::parse_chunk", "tags::parse_chunk", "slice::parse_chunk", "palette::parse_chunk", "palette::parse_old_chunk_04", "palette::parse_old_chunk_11", "external_file::ExternalFile::parse_chunk",
   "tileset::Tileset::parse_chunk", "user_data::parse_userdata_chunk", "color_profile::parse_chunk", "cel::parse_chunk"], mod="x_decoders",
  bound="25 / 250 seeded models: every chunk payload + truncations + extensions + boundary windows + random edits")
S("s_send_sync", "AsepriteFile, Frame, Layer, Cel, Tilemap, Tileset, ColorPalette, Tag, Slice, ... are Send + Sync", ["file::AsepriteFile", "all public value types"])
PROPS["CX"] = {"level": "exploration", "obligations": ["x_roundtrip_structure", "x_header_extremes", "x_routes", "x_frames_vs_spec", "x_cel_order_irrelevant", "x_forest_exhaustive", "x_userdata_exhaustive", "x_neutral_encodings", "x_truncation", "x_readers", "x_refusals", "x_palette_precedence", "x_indexed_needs_palette", "x_tilemap_views", "x_mode_table", "x_soft_light", "x_hsl_kernels", "x_blend_public_api", "x_determinism", "x_utils", "x_decoder_contracts", "s_send_sync"]}

# ---------------------------------------------------------------- decoders: K-full enums (proved) and K-shape (bounded-sym)
BS = "bounded-sym"
def shape(n): return "payload size fixed at %d bytes; every byte symbolic" % n
K("k_parse_chunk_type", "parse", "parse_chunk_type: Ok(kind) exactly for the 14 chunk codes of the format, for all 65536 codes", ["parse::parse_chunk_type"])
K("k_parse_pixel_format", "parse", "parse_pixel_format: Ok iff depth in {8,16,32}; transparent index verbatim", ["parse::parse_pixel_format"])
K("k_check_chunk_bytes", "parse", "check_chunk_bytes: Ok iff 6 <= size <= bytes available, all u32 x i64; size-6 cannot underflow", ["parse::check_chunk_bytes"])
K("k_pixel_format_accessors", "parse", "PixelFormat::bytes_per_pixel 4/2/1 and transparent_color_index", ["file::PixelFormat::bytes_per_pixel", "file::PixelFormat::transparent_color_index"])
K("k_parse_blend_mode", "layer", "parse_blend_mode: Ok(mode numbered id) iff id <= 18, all u16", ["layer::parse_blend_mode"])
K("k_parse_layer_type", "layer", "parse_layer_type: 0 image, 1 group, 2 tilemap(le_u32) or Err if truncated, else Err; all u16", ["layer::parse_layer_type"])
for n in (17, 18, 21, 24):
    K("k_layer_chunk_%d" % n, "layer", "layer::parse_chunk: Ok iff layout fits, enums in range, name UTF-8; every stored attribute equals the layout read", ["layer::parse_chunk", "reader::AseReader::*"], label=BS, bound=shape(n))
K("k_parse_animation_direction", "tags", "parse_animation_direction: Ok iff id <= 2, all u8", ["tags::parse_animation_direction"])
for n in (10, 30, 49):
    K("k_tags_chunk_%d" % n, "tags", "tags::parse_chunk: one tag per declared entry, attributes as stored, in file order; Err iff short / bad direction / bad UTF-8", ["tags::parse_chunk"], label=BS, bound=shape(n))
for n in (14, 34, 58):
    K("k_slice_chunk_%d" % n, "slice", "slice::parse_chunk: name, keys in file order with origin/size, 9-slice iff flag 1, pivot iff flag 2", ["slice::parse_chunk", "slice::SliceKey::read", "slice::Slice9::read"], label=BS, bound=shape(n), timeout=5400)
for n in (4, 8, 12):
    K("k_user_data_%d" % n, "user_data", "parse_userdata_chunk: text iff bit 0, colour iff bit 1, as stored", ["user_data::parse_userdata_chunk"], label=BS, bound=shape(n))
for n in (15, 16, 20):
    K("k_color_profile_%d" % n, "color_profile", "color_profile::parse_chunk: Ok iff >= 16 bytes, type in {none, sRGB}, fixed-gamma flag clear", ["color_profile::parse_chunk", "color_profile::parse_color_profile_type"], label=BS, bound=shape(n))
K("k_scale_6bit", "palette", "scale_6bit_to_8bit: Err iff c >= 64 else (c<<2)|(c>>4); 0->0, 63->255, strictly monotone; all u8", ["palette::scale_6bit_to_8bit"])
for n in (20, 26, 35):
    K("k_palette_chunk_%d" % n, "palette", "palette::parse_chunk: one entry per index in first..=last with stored RGBA/name; Err iff last<first or short; no overflow for any first/last", ["palette::parse_chunk"], label=BS, bound=shape(n) + "; <= 4 entries", timeout=5400)
for nm, n in (("k_old04_chunk_10", 10), ("k_old04_chunk_2", 2), ("k_old11_chunk_10", 10), ("k_old11_chunk_13", 13)):
    K(nm, "palette", "legacy palette chunk: opaque entries at cumulative skip offsets; 6-bit components scaled (0x0011); later packets overwrite", ["palette::parse_old_chunk_04" if "04" in nm else "palette::parse_old_chunk_11"], label=BS, bound=shape(n), timeout=5400)
K("k_validate_indexed", "palette", "validate_indexed_pixels: Ok iff every pixel index is a palette entry", ["palette::ColorPalette::validate_indexed_pixels", "palette::ColorPalette::color"], label=BS, bound="3 pixels, <= 3 entries at symbolic (sparse) indices", timeout=5400)
for n in (12, 27, 41):
    K("k_ext_files_%d" % n, "external_file", "ExternalFile::parse_chunk: one entry per declared file with id and name, file order; a huge declared count does not abort", ["external_file::ExternalFile::parse_chunk"], label=BS, bound=shape(n), timeout=5400)
for n in (15, 17, 18):
    K("k_cel_chunk_%d" % n, "cel", "cel::parse_chunk header (layer, signed x/y, opacity), linked cel frame, unknown cel types refused", ["cel::parse_chunk", "cel::CelCommon::parse", "cel::CelContent::parse"], label=BS, bound=shape(n) + "; cel type 1 or >= 4")
K("k_cel_raw_rgba_28", "cel", "raw cel (type 0): Ok iff declared w*h*4 bytes present; header and size stored", ["cel::parse_chunk", "cel::parse_raw_cel", "cel::ImageSize::parse", "pixel::RawPixels::from_raw", "reader::AseReader::take_bytes"], label=BS, bound=shape(28), timeout=5400)
K("k_cel_raw_gray_24", "cel", "raw grayscale cel: Ok iff declared w*h*2 bytes present", ["cel::parse_chunk", "pixel::RawPixels::from_raw"], label=BS, bound=shape(24), timeout=5400)
K("k_cel_raw_indexed_23", "cel", "raw indexed cel: Ok iff declared w*h bytes present", ["cel::parse_chunk", "pixel::RawPixels::from_raw"], label=BS, bound=shape(23), timeout=5400)
K("k_pixel_count", "cel", "ImageSize::pixel_count == w*h, all u16^2", ["cel::ImageSize::pixel_count"])
K("k_reader_schedule", "reader", "AseReader over a scripted reader: for EVERY split of a 7-byte stream into read() sizes and EVERY placement of transient Interrupted results, dword / word / byte equal the in-memory result and the end is the end-of-input error",
  ["reader::AseReader::with", "reader::AseReader::dword", "reader::AseReader::word", "reader::AseReader::byte"], label=BS, bound="7-byte stream, 10 scripted read() calls (all sizes, all interrupt placements)", timeout=1800, witness="x_readers")
K("k_reader_hard_error", "reader", "AseReader over a scripted reader with a hard I/O error anywhere in the schedule: every primitive returns the right value or Err(IoError) carrying that error kind - never a wrong value, never a panic",
  ["reader::AseReader::dword", "reader::AseReader::word", "error::AsepriteParseError::from"], label=BS, bound="6-byte stream, 8 scripted read() calls", timeout=1800, witness="x_readers")
K("k_reader_schedule_5", "reader", "as k_reader_schedule on a 5-byte stream (dword, skip_reserved(1), end of input) with 6 scripted read() calls", ["reader::AseReader::with", "reader::AseReader::dword", "reader::AseReader::skip_reserved", "reader::AseReader::byte"], label=BS, bound="5-byte stream, 6 scripted read() calls", timeout=900, witness="x_readers")
K("k_reader_hard_error_4", "reader", "as k_reader_hard_error on a 4-byte stream (one dword) with 5 scripted read() calls", ["reader::AseReader::dword", "error::AsepriteParseError::from"], label=BS, bound="4-byte stream, 5 scripted read() calls", timeout=900, witness="x_readers")
K("k_cels_table", "cel", "CelsData: add_cel Ok iff frame exists and slot free; cel() returns what was stored; frame_cels() in increasing layer index for any insertion order", ["cel::CelsData::new", "cel::CelsData::add_cel", "cel::CelsData::cel", "cel::CelsData::frame_cels"], label=BS, bound="2 frames, 2 insertions, layer index <= 3 (frame ids any u16)", timeout=5400)
K("k_gray_rgba", "pixel", "Grayscale (v,a) -> (v,v,v,a); read_rgba verbatim; short pixels are errors", ["pixel::Grayscale::new", "pixel::Grayscale::into_rgba", "pixel::read_rgba"])
K("k_indexed_as_rgba", "pixel", "Indexed::as_rgba: None iff absent; palette colour with alpha 0 iff transparent index and not background", ["pixel::Indexed::as_rgba"], bound="one palette entry at a symbolic index (the function reads one entry)")
for n in (8, 6, 5):
    K("k_from_bytes_%d" % n, "pixel", "RawPixels::from_bytes: RGBA groups of 4, grayscale pairs, indexed verbatim; Err iff length not a multiple of pixel size", ["pixel::RawPixels::from_bytes"], label=BS, bound=shape(n))
K("k_tile_parse", "tile", "Tile::parse/new: id = word & id mask, flags by mask, for all u32^5", ["tile::Tile::parse", "tile::Tile::new"])
K("k_tilemap_bits", "tilemap", "TilemapData::parse_chunk refuses every bits-per-tile value other than 32 as unsupported", ["tilemap::TilemapData::parse_chunk"], label=BS, bound="6-byte header prefix")
K("k_tile_bitmask_header", "tilemap", "TileBitmaskHeader::parse: four LE dwords id/xflip/yflip/rot", ["tilemap::TileBitmaskHeader::parse"])
for n in (33, 34, 44):
    K("k_tileset_head_%d" % n, "tileset", "Tileset::parse_chunk header: id, count, tile size (non-zero), signed base index, name, external reference iff flag 1", ["tileset::Tileset::parse_chunk", "tileset::ExternalTilesetReference::parse"], label=BS, bound=shape(n) + "; FILE_INCLUDES_TILES off", timeout=5400)
K("k_pixels_per_tile", "tileset", "TileSize::pixels_per_tile == w*h, all u16^2", ["tileset::TileSize::pixels_per_tile"])
for n in (6, 3):
    K("k_reader_prims_%d" % n, "reader", "byte/word/short/dword/long/read_exact at every position: LE value of the next w bytes, or IoError(UnexpectedEof) iff fewer remain", ["reader::AseReader::byte", "reader::AseReader::word", "reader::AseReader::short", "reader::AseReader::dword", "reader::AseReader::long", "reader::AseReader::read_exact", "reader::AseReader::skip_reserved"], label=BS, bound="cursor over %d symbolic bytes, every start position" % n)
K("k_reader_sequence", "reader", "consecutive reads see consecutive bytes; end of input is an error value", ["reader::AseReader::*"], label=BS, bound="9 symbolic bytes")
for n in (6, 1):
    K("k_reader_string_%d" % n, "reader", "string(): Ok(text) iff declared bytes present and UTF-8; InvalidInput for bad UTF-8; UnexpectedEof if short", ["reader::AseReader::string", "error::From<FromUtf8Error>"], label=BS, bound=shape(n))
K("k_error_mapping", "error", "io::Error -> IoError carrying the same kind; source() is Some exactly for IoError", ["error::From<io::Error>", "error::AsepriteParseError::source"])

DECODERS = [o for o in """k_parse_chunk_type k_parse_pixel_format k_check_chunk_bytes k_pixel_format_accessors k_parse_blend_mode k_parse_layer_type
 k_layer_chunk_17 k_layer_chunk_18 k_layer_chunk_21 k_layer_chunk_24 k_parse_animation_direction k_tags_chunk_10 k_tags_chunk_30 k_tags_chunk_49
 k_slice_chunk_14 k_slice_chunk_34 k_slice_chunk_58 k_user_data_4 k_user_data_8 k_user_data_12 k_color_profile_15 k_color_profile_16 k_color_profile_20
 k_scale_6bit k_palette_chunk_20 k_palette_chunk_26 k_palette_chunk_35 k_old04_chunk_10 k_old04_chunk_2 k_old11_chunk_10 k_old11_chunk_13 k_validate_indexed
 k_ext_files_12 k_ext_files_27 k_ext_files_41 k_cel_chunk_15 k_cel_chunk_17 k_cel_chunk_18 k_cel_raw_rgba_28 k_cel_raw_gray_24 k_cel_raw_indexed_23
 k_pixel_count k_cels_table k_gray_rgba k_indexed_as_rgba k_from_bytes_8 k_from_bytes_6 k_from_bytes_5 k_tile_parse k_tilemap_bits k_tile_bitmask_header
 k_tileset_head_33 k_tileset_head_34 k_tileset_head_44 k_pixels_per_tile k_reader_prims_6 k_reader_prims_3 k_reader_sequence k_reader_string_6
 k_reader_string_1 k_error_mapping""".split()]
PROPS["CK"] = {"level": "proof", "obligations": DECODERS}
PROPS["CL"] = {"level": "proof", "obligations": ["k_tags_chunk_49", "k_slice_chunk_14", "k_slice_chunk_34", "k_slice_chunk_58", "k_palette_chunk_26", "k_palette_chunk_35", "k_old04_chunk_10",
                "k_old11_chunk_10", "k_old11_chunk_13", "k_validate_indexed", "k_indexed_as_rgba", "k_ext_files_27", "k_tileset_head_34", "k_tileset_head_44", "k_cels_table"]}

# ---------------------------------------------------------------- Verus (unbounded, real text extracted each run)
V("v_compute_parents", "parents", "compute_parents: for EVERY layer sequence whose first level is 0: result[i] is None iff level 0, else the nearest preceding layer with a smaller level (parent id < child id); terminates; the assert! can never fire",
  ["layer::compute_parents"], fn="compute_parents")
V("v_from_vec", "parents", "LayersData::from_vec establishes compute_parents' precondition (first layer at level 0) or returns Err: no underflow / panic for any layer list",
  ["layer::LayersData::from_vec"], fn="from_vec", witness=["x_routes", "x_total_load"])
V("v_write_raw_cel", "raster_raw", "write_raw_cel_to_image, unbounded sizes and all i16 offsets: canvas size unchanged; every canvas pixel inside the cel rectangle == blend(mode, old pixel, pixels[(Y-y0)*w+(X-x0)], round8(layer opacity, cel opacity)), every other pixel unchanged; no index out of bounds, no overflow",
  ["file::write_raw_cel_to_image"], fn="write_raw_cel_to_image", witness="x_frames_vs_spec")
V("v_frame_image", "compose", "AsepriteFile::frame_image(frame), for EVERY validated sprite (any number of layers / cels, unbounded sizes): canvas = sprite size; every pixel == the fold, over the cels of that frame in increasing layer order starting from transparent black, of 'cel over backdrop', where cels whose layer is hidden directly or through an ancestor are skipped (C02 composition order, C09 visibility gate); no accessor precondition can fail",
  ["file::AsepriteFile::frame_image", "file::AsepriteFile::layer", "file::AsepriteFile::num_layers"], fn="frame_image", witness="x_frames_vs_spec")
V("v_write_cel", "compose", "AsepriteFile::write_cel under R-pre (what validation establishes for a cel): the panic!/expect sites 'should have been caught by validate' are unreachable; raw cel -> write_raw_cel_to_image with the blend mode and opacity of the cel's own layer; tilemap cel -> write_tilemap_cel_to_image with the layer's tileset and its pixels; linked cel -> exactly what the cel it links to (same layer, linked frame) draws; canvas size unchanged; the single recursion terminates",
  ["file::AsepriteFile::write_cel", "layer::Layer::data", "layer::Layer::blend_mode", "layer::Layer::opacity", "layer::Layer::layer_type", "file::AsepriteFile::tilesets", "cel::CelsData::cel"], fn="write_cel", witness="x_usable_after_load")
V("v_layer_image", "compose", "AsepriteFile::layer_image(cel id) (== Cel::image): sprite-sized canvas showing exactly that cel over transparent black, blank if the slot is empty; the same write_cel as frame compositing (C19)",
  ["file::AsepriteFile::layer_image"], fn="layer_image", witness="x_routes")
V("v_celsdata_validate", "validate", "CelsData::validate (validation stage, real text incl. its closure and four loops; unbounded frames / layers / cels): Ok => same table shape; every stored cel sits in an existing layer, satisfies RawCel::validate's verdict, and a linked cel names an existing frame whose cel in the SAME layer exists and holds pixel data itself (so write_cel's 'links to empty cel' panic is unreachable); no index out of bounds / overflow in the link table (assumption: fewer than 2^32 layers)",
  ["cel::CelsData::validate", "cel::CelsData::cel", "cel::CelContent::is_raw"], fn="CelsData::validate", witness="x_usable_after_load")
V("v_rawcel_validate", "validate", "RawCel::validate: Ok => header and user data unchanged; raw pixels pass RawPixels::validate (same data; indexed pixels all in the palette); a tilemap cel is accepted only in a tilemap layer and only if EVERY tile id < tile count of that layer's tileset (0 if missing); a link only if the callback accepts (linked frame, this layer)",
  ["cel::RawCel::validate", "cel::ImageContent::validate", "tilemap::TilemapData::max_tile_id", "tileset::Tileset::tile_count"], fn="RawCel::validate", witness="x_usable_after_load")
V("v_imagecontent_validate", "validate", "ImageContent::validate: size unchanged, pixels per RawPixels::validate", ["cel::ImageContent::validate"], fn="ImageContent::validate")
V("v_layersdata_validate", "validate", "LayersData::validate: Ok iff every tilemap layer references a tileset that exists (so write_cel's 'missing tileset' expect is unreachable)", ["layer::LayersData::validate"], fn="LayersData::validate", witness="x_usable_after_load")
V("v_chunk_read", "chunks", "Chunk::read over the reader contract, for EVERY stream and position: Ok iff the WHOLE declared chunk is present (6-byte header, known type code, 6 <= size <= bytes the frame header still grants, all size-6 payload bytes); then type and payload are exactly the stored ones, the cursor advances by size and the frame budget shrinks by size",
  ["parse::Chunk::read", "parse::parse_chunk_type", "parse::check_chunk_bytes"], fn="Chunk::read", witness=["x_truncation", "x_total_load"])
V("v_chunk_read_all", "chunks", "Chunk::read_all for EVERY chunk count: Ok => exactly `count` chunks, the k-th being the chunk stored at the k-th offset (each offset = previous offset + previous size), every one complete in the stream; together they stay within the frame's declared size",
  ["parse::Chunk::read_all"], fn="Chunk::read_all", witness=["x_truncation", "x_total_load"])
V("v_parse_chunk_type", "chunks", "parse_chunk_type: Ok iff one of the 14 known codes, and the variant is the one of that code (C15: anything else is refused)", ["parse::parse_chunk_type"], fn="parse_chunk_type", witness="x_refusals")
V("v_celsdata_new", "userdata", "CelsData::new(n): n rows, each with a single empty slot; no cel anywhere", ["cel::CelsData::new"], fn="CelsData::new")
V("v_parseinfo_new", "userdata", "ParseInfo::new: one frame slot per frame (default duration, empty cel row), no layers / tags / slices / palette / user data / context", ["parse::ParseInfo::new"], fn="ParseInfo::new")
V("v_parseinfo_validate", "validate", "ParseInfo::validate (the validation stage glue): Ok => layers unchanged; every tileset has pixels; every tilemap layer's tileset exists; the cel table keeps its shape and every cel satisfies CelsData::validate's verdict against THESE layers and tilesets; frame times, slices, sprite user data and palette are passed through - i.e. the renderer's preconditions hold after every successful load",
  ["parse::ParseInfo::validate"], fn="ParseInfo::validate", witness="x_usable_after_load")
V("v_extrude_border", "utils_extrude", "util::extrude_border for EVERY image with w, h >= 1 (sizes up to u32): result is (w+2) x (h+2) and byte c of output pixel (x, y) == byte c of input pixel (clamp(x-1, 0, w-1), clamp(y-1, 0, h-1)); no slice out of range, no overflow (the row iterator chain `once(0).chain(0..h).chain(once(h-1))` is a trusted shim)",
  ["util::extrude_border"], fn="extrude_border", witness="x_utils")
V("v_palette_mapper_new", "utils_palette", "util::PaletteMapper::new for EVERY palette (sparse, duplicates, indices >= 256) and options: a 24-bit colour key is mapped iff some entry has that colour, and then to the index of such an entry if it is below 256, else to the failure index; transparent = configured index or the failure index",
  ["util::PaletteMapper::new"], fn="PaletteMapper::new", witness="x_utils")
V("v_palette_mapper_lookup", "utils_palette", "util::PaletteMapper::lookup: alpha != 255 -> transparent index; otherwise the mapped index of the colour key or the failure index", ["util::PaletteMapper::lookup"], fn="PaletteMapper::lookup", witness="x_utils")
V("v_routes_agree", "routes", "C19 as a lemma over the route contracts, checked on a client that calls the real functions POSITIONALLY as documented (cel(frame, layer), frame(f).layer(l), layer(l).frame(f)): same cel id, same file, coordinates as requested, same emptiness - a flipped parameter order fails here",
  ["file::AsepriteFile::cel", "file::Frame::layer", "layer::Layer::frame"], fn="routes_agree", witness="x_routes")
V("v_single_visible_frame", "compose", "C19 / C02 as a lemma over the contracts of frame_image and layer_image: if exactly one cel of a frame belongs to a visible layer, Frame::image equals that cel's image pixel for pixel (induction over the layer-order fold)",
  ["file::AsepriteFile::frame_image", "file::AsepriteFile::layer_image"], fn="single_visible_layer_frame_is_the_cel_image", witness="x_routes")
V("v_frame_image_api", "tilemap_api", "Frame::image == frame_image of that frame (the layer-order fold with hidden layers skipped)", ["file::Frame::image"], fn="Frame::image", witness="x_frames_vs_spec")
V("v_cel_image_api", "tilemap_api", "Cel::image == layer_image of that cel id: sprite-sized, the cel over transparent black, blank if the slot is empty", ["cel::Cel::image"], fn="Cel::image", witness="x_routes")
V("v_tilemap_image_api", "tilemap_api", "Tilemap::image is the image of its cel (same pixel function as Cel::image)", ["tilemap::Tilemap::image"], fn="Tilemap::image", witness="x_tilemap_views")
V("v_add_external_files", "dec_ext", "ParseInfo::add_external_files: the table after the call is the fold of `add` over the chunk's entries in file order (every entry stored under its own id, a later entry with the same id replaces an earlier one) - loop invariant over ext_fold",
  ["parse::ParseInfo::add_external_files", "external_file::ExternalFilesById::add"], fn="add_external_files", witness="x_roundtrip_structure")
V("v_extfile_name", "dec_ext", "ExternalFile::name returns the stored name", ["external_file::ExternalFile::name"], fn="ExternalFile::name", witness="x_roundtrip_structure")
V("v_tsref_getters", "validate_tilesets", "ExternalTilesetReference::{external_file_id, tileset_id} return the stored ids", ["tileset::ExternalTilesetReference::external_file_id", "tileset::ExternalTilesetReference::tileset_id"], fn="external_file_id", witness="x_roundtrip_structure")
V("v_layer_by_name", "lookups", "AsepriteFile::layer_by_name for EVERY layer list: Some exactly if some layer has that name, and then the layer with the LOWEST id among the matches (loop invariant: no earlier layer matches); `==` on &str is the trusted shim str_eq (R26)",
  ["file::AsepriteFile::layer_by_name", "layer::Layer::name", "layer::Layer::data", "file::AsepriteFile::layer", "file::AsepriteFile::num_layers"], fn="layer_by_name", witness="x_roundtrip_structure")
V("v_layers_iter", "lookups", "AsepriteFile::layers() starts at 0 and LayersIter::next yields layer `next` of the same file and advances by one while next < number of layers, then None forever: every layer exactly once, in index order",
  ["file::AsepriteFile::layers", "file::LayersIter::next"], fn="LayersIter::next", witness="x_roundtrip_structure")
V("v_get_tag", "lookups", "AsepriteFile::get_tag(id): Some(&tags[id]) iff id < number of tags (optional lookup: None out of range); num_tags is the length",
  ["file::AsepriteFile::get_tag", "file::AsepriteFile::num_tags"], fn="get_tag", witness="x_roundtrip_structure")
V("v_layer_name", "lookups", "Layer::name returns the stored name of THIS layer", ["layer::Layer::name"], fn="Layer::name", witness="x_roundtrip_structure")
V("v_tag_name", "lookups", "Tag::name returns the stored name", ["tags::Tag::name"], fn="Tag::name", witness="x_roundtrip_structure")
V("v_tileset_name", "validate_tilesets", "Tileset::name returns the stored name", ["tileset::Tileset::name"], fn="Tileset::name", witness="x_roundtrip_structure")
V("v_palette_entry_id", "pixels", "ColorPaletteEntry::{id, raw_rgba8} return the stored id / the four stored components", ["palette::ColorPaletteEntry::id", "palette::ColorPaletteEntry::raw_rgba8"], fn="ColorPaletteEntry::id", witness="x_roundtrip_structure")
V("v_tiles_unzip", "pixel_readers", "Tiles::unzip (real text; was an assumed shim of unit dec_cel): inflates exactly 4 * count bytes (precondition: fits a usize - established by TilemapData::parse_chunk) and yields exactly `count` tiles, tile i = masked little-endian dword i of the inflated stream (the chunks_exact chain is the trusted shim R25)",
  ["tile::Tiles::unzip"], fn="Tiles::unzip", witness=["x_tilemap_views", "x_usable_after_load"])
V("v_tile_new", "dec_small", "Tile::new / Tile::parse / as_bool: Ok iff 4 bytes; id = dword & id mask, flags = dword & flag mask != 0 (the function the chain of Tiles::unzip maps over)",
  ["tile::Tile::new", "tile::Tile::parse", "tile::as_bool"], fn="Tile::new", witness="x_tilemap_views")
V("v_gray_new", "dec_small", "Grayscale::new: Ok iff 2 bytes; (value, alpha) = (byte 0, byte 1) (the function the grayscale chain of from_bytes maps over)", ["pixel::Grayscale::new"], fn="Grayscale::new", witness="x_frames_vs_spec")
V("v_read_rgba", "dec_small", "pixel::read_rgba: Ok iff 4 bytes; the pixel is those 4 bytes in order (the function the RGBA chain of from_bytes maps over)", ["pixel::read_rgba"], fn="read_rgba", witness="x_frames_vs_spec")
V("v_reader_string", "pixel_readers", "AseReader::string on the real text over the trusted model of a byte source (read_u16 little-endian, read_exact, String::from_utf8): Ok = a u16 length n, then EXACTLY the next n bytes, which are UTF-8, and the source advanced by 2 + n; fewer bytes than declared => Err; enough bytes, UTF-8, no I/O error => Ok. This is the STRING clause of the reader contract that the decoder units assume",
  ["reader::AseReader::string"], fn="AseReader::string", witness=["x_roundtrip_structure", "x_truncation"])
V("v_skip_reserved", "pixel_readers", "AseReader::skip_reserved(count): Ok = exactly `count` bytes consumed; fewer => Err; enough bytes and no I/O error => Ok",
  ["reader::AseReader::skip_reserved"], fn="AseReader::skip_reserved", witness=["x_truncation"])
V("v_take_bytes", "pixel_readers", "AseReader::take_bytes(limit) over ANY byte source (trusted model of Read: remaining bytes + may fail): Ok => exactly `limit` bytes, the next ones, never fewer; enough bytes and no I/O error => Ok whatever follows (C07: trailing bytes do not matter); the buffer grows with the bytes that arrive",
  ["reader::AseReader::take_bytes"], fn="AseReader::take_bytes", witness=["x_neutral_encodings", "x_truncation"])
V("v_unzip", "pixel_readers", "AseReader::unzip(n) (trusted model of flate2's decoder: a byte source delivering the inflated stream): Ok => the inflated stream is exactly n bytes long (one more byte is requested to see that nothing follows) and those bytes are returned; n inflated bytes, no corruption => Ok",
  ["reader::AseReader::unzip"], fn="AseReader::unzip", witness=["x_usable_after_load", "x_truncation"])
V("v_read_bytes", "pixel_readers", "AseReader::read_bytes(count): Ok => exactly the next `count` bytes and the source advanced by `count`; fewer bytes => Err; every Err is the I/O error (UnexpectedEof or the source's own error: C14); enough bytes and no I/O error => Ok. This replaces the ASSUMED contract of read_bytes used by unit chunks",
  ["reader::AseReader::read_bytes"], fn="AseReader::read_bytes", witness=["x_truncation", "x_readers"])
V("v_output_size", "pixel_readers", "pixel::output_size == bytes per pixel * pixel count; the unchecked multiplication needs the product to fit a usize - a PRECONDITION that both callers' contracts establish (cels: 4 * 65535^2; tilesets: the checked_mul filter)",
  ["pixel::output_size", "file::PixelFormat::bytes_per_pixel"], fn="output_size")
V("v_from_bytes", "pixel_readers", "RawPixels::from_bytes: Ok iff the byte count is a whole number of pixels; then RGBA is the bytes verbatim in groups of 4, grayscale (value, alpha) pairs, indexed the bytes themselves, and there are len / bpp pixels (the two chunks_exact chains are trusted shims R23 / R24; the per-chunk constructors are Kani's k_from_bytes_*)",
  ["pixel::RawPixels::from_bytes"], fn="RawPixels::from_bytes", witness="x_frames_vs_spec")
V("v_from_raw", "pixel_readers", "RawPixels::from_raw: Ok => exactly the declared number of pixels, decoded from exactly the next bpp * count bytes; enough bytes => Ok whatever follows (C07). Callers see take_bytes / from_bytes through their contracts only",
  ["pixel::RawPixels::from_raw"], fn="RawPixels::from_raw", witness=["x_frames_vs_spec", "x_neutral_encodings"])
V("v_from_compressed", "pixel_readers", "RawPixels::from_compressed: Ok => exactly the declared number of pixels, decoded from the inflated stream, which is exactly bpp * count bytes long",
  ["pixel::RawPixels::from_compressed"], fn="RawPixels::from_compressed", witness=["x_frames_vs_spec", "x_usable_after_load"])
V("v_parse_raw_cel", "dec_cel", "cel::parse_raw_cel (real text; was an assumed shim): size as stored, bpp * w * h fits a usize (the precondition of from_raw), and a cel that loads has EXACTLY width * height pixels - the renderer's row-major index (raster_raw: pixels.len() == w*h) relies on it",
  ["cel::parse_raw_cel", "cel::ImageSize::parse", "cel::ImageSize::pixel_count"], fn="parse_raw_cel", witness=["x_usable_after_load", "x_frames_vs_spec"])
V("v_parse_compressed_cel", "dec_cel", "cel::parse_compressed_cel (real text; was an assumed shim): same contract as parse_raw_cel through from_compressed",
  ["cel::parse_compressed_cel"], fn="parse_compressed_cel", witness=["x_usable_after_load", "x_frames_vs_spec"])
V("v_tileset_image", "tileset_image", "Tileset::image on EVERY tileset that loaded (ts_wf: pixels embedded, tile size >= 1, tile count * tile height a u32, exactly count*h*w pixels): tile height * tile count cannot overflow, the expect()s cannot fire, the image is tile width x (tile height * tile count) and its bytes are the tileset's pixels in order. The iterator chain is replaced by the trusted shim flat_all (R20)",
  ["tileset::Tileset::image", "tileset::TileSize::width", "tileset::TileSize::height"], fn="Tileset::image", witness=["x_tilemap_views", "x_usable_after_load"])
V("v_tileset_tile_image", "tileset_image", "Tileset::tile_image(t) for every loaded tileset and every t < tile_count (the documented panic is the precondition): no overflow in the offset arithmetic, the expect()s cannot fire, the image has exactly the tile size and its bytes are pixels t*w*h .. (t+1)*w*h of the tileset. The iterator chain is replaced by the trusted shim flat_window (R19)",
  ["tileset::Tileset::tile_image", "tileset::Tileset::tile_count"], fn="Tileset::tile_image", witness=["x_tilemap_views", "x_usable_after_load"])
V("v_tilesize_pixels_per_tile", "tileset_image", "TileSize::pixels_per_tile == width * height, no u32 overflow (two u16 factors)", ["tileset::TileSize::pixels_per_tile"], fn="TileSize::pixels_per_tile", witness="x_tilemap_views")
V("v_tileset_strip_stacked", "tileset_image", "C08's last sentence as a client lemma over the two contracts: for every loaded tileset and every tile t, byte k of pixel (x, y) of tile_image(t) is byte k of pixel (x, t * tile height + y) of image(); tile_image has exactly the tile size, image() is tile height * tile count rows high",
  ["tileset::Tileset::image", "tileset::Tileset::tile_image"], fn="strip_is_the_tiles_stacked", witness="x_tilemap_views")
V("v_tileset_wf_preserved", "validate_tilesets", "C05 link as a lemma: what Tileset::parse_chunk guarantees (v_dec_tileset: tile size >= 1, strip height a u32, exactly count*h*w pixels if embedded) and TilesetsById::validate's verdict (tileset_validated) imply ts_wf, the precondition of Tileset::image / tile_image",
  ["tileset::TilesetsById::validate"], fn="tileset_wf_is_preserved")
V("v_tileset_getters", "validate_tilesets", "Tileset::{id, tile_count, tile_size, base_index, empty_tile_is_id_zero, external_file} return the stored attribute", ["tileset::Tileset::id", "tileset::Tileset::tile_count", "tileset::Tileset::tile_size", "tileset::Tileset::base_index", "tileset::Tileset::empty_tile_is_id_zero", "tileset::Tileset::external_file"], fn="Tileset::tile_size", witness="x_roundtrip_structure")
V("v_file_tilemap", "tilemap_api", "AsepriteFile::tilemap(layer, frame) for EVERY validated sprite: Some exactly for a tilemap cel of a tilemap layer whose tileset exists (ids in range); then it carries that tileset and that cel, and its logical size is ceil(canvas / tile size) in both directions; no division by zero (tile size >= 1 from the tileset decoder), the assert! cannot fire, the u16 casts are lossless",
  ["file::AsepriteFile::tilemap", "cel::Cel::is_tilemap", "cel::Cel::raw_cel", "tileset::TileSize::from", "tilemap::Tilemap::width", "tilemap::Tilemap::height", "tilemap::Tilemap::tile_size"], fn="AsepriteFile::tilemap", witness=["x_tilemap_views", "x_usable_after_load"])
V("v_extfiles_add", "dec_ext", "ExternalFilesById::add stores the entry under its own id; get(id) is the map lookup; new() is empty (real one-liners over the HashMap shim)",
  ["external_file::ExternalFilesById::add", "external_file::ExternalFilesById::get", "external_file::ExternalFilesById::new", "external_file::ExternalFile::id", "external_file::ExternalFileId::value"], fn="ExternalFilesById::add", witness="x_roundtrip_structure")
V("v_extfiles_get", "dec_ext", "ExternalFilesById::get(id): Some(entry) iff an entry with that id was stored", ["external_file::ExternalFilesById::get"], fn="ExternalFilesById::get", witness="x_roundtrip_structure")
V("v_tilesets_get", "validate_tilesets", "TilesetsById::get(id) is the map lookup of TilesetId(id) (the assumed contract used by the compose / validate units, here checked on the real one-liner over the HashMap shim)", ["tileset::TilesetsById::get", "tileset::TilesetId::from_raw"], fn="TilesetsById::get")
V("v_tilesets_add", "validate_tilesets", "TilesetsById::add stores the tileset under its own id (a later chunk with the same id replaces the earlier one)", ["tileset::TilesetsById::add", "tileset::TilesetsById::new"], fn="TilesetsById::add")
V("v_tilesets_validate", "validate_tilesets", "TilesetsById::validate for EVERY tileset table: Ok => the same tileset ids survive; each has its pixels embedded (a tileset without embedded pixels is refused) and validated (same data; indexed pixels all in the palette); id, tile count, tile size, base index, name and external reference unchanged",
  ["tileset::TilesetsById::validate"], fn="TilesetsById::validate", witness=["x_refusals", "x_usable_after_load"])
ACCESSORS = [('AsepriteFile', 'width'), ('AsepriteFile', 'height'), ('AsepriteFile', 'size'), ('AsepriteFile', 'pixel_format'), ('AsepriteFile', 'is_indexed_color'), ('AsepriteFile', 'transparent_color_index'), ('AsepriteFile', 'num_tags'), ('AsepriteFile', 'tag'), ('AsepriteFile', 'sprite_user_data'), ('Frame', 'id'), ('Frame', 'duration'), ('Layer', 'data'), ('Layer', 'id'), ('Layer', 'flags'), ('Layer', 'opacity'), ('Layer', 'layer_type'), ('Layer', 'is_tilemap'), ('Layer', 'user_data'), ('Layer', 'parent'), ('Cel', 'raw_cel'), ('Cel', 'is_empty'), ('Cel', 'is_tilemap'), ('Cel', 'top_left'), ('Cel', 'user_data'), ('Tag', 'from_frame'), ('Tag', 'to_frame'), ('Tag', 'animation_direction'), ('Tag', 'user_data')]
ACC_FILE = {"AsepriteFile": "file", "Frame": "file", "Layer": "layer", "Cel": "cel", "Tag": "tags"}
for _t, _n in ACCESSORS:
    V("v_acc_%s_%s" % (_t.lower(), _n), "accessors", "%s::%s returns exactly the stored attribute it is documented to return (Verus contract on the real one-liner; argument / field mix-ups fail)" % (_t, _n),
      ["%s::%s::%s" % (ACC_FILE[_t], _t, _n)], fn="%s::%s" % (_t, _n), witness=["x_roundtrip_structure", "x_routes"])
ACC_V = ["v_acc_%s_%s" % (_t.lower(), _n) for _t, _n in ACCESSORS]
V("v_tilemap_tile", "tilemap", "TilemapData::tile(x,y) == Some(tiles[y*w+x]) iff x<w && y<h (given tiles.len()==w*h), for all u16 coordinates",
  ["tilemap::TilemapData::tile", "tilemap::TilemapData::width", "tilemap::TilemapData::height"], fn="tile", witness="x_tilemap_views")
V("v_tile_slice", "tilemap", "tile_slice(pixels, size, id) == pixels[id*area .. (id+1)*area] under (id+1)*area <= len; no overflow", ["file::tile_slice"], fn="tile_slice", witness="x_tilemap_views")
V("v_pixels_per_tile", "tilemap", "TileSize::pixels_per_tile == w*h without u32 overflow", ["tileset::TileSize::pixels_per_tile", "tileset::TileSize::width", "tileset::TileSize::height"], fn="pixels_per_tile")
V("v_write_tilemap_cel", "tilemap", "write_tilemap_cel_to_image under R-pre (tiles.len()==w*h, every tile inside the tileset pixels, canvas <= 65535^2), unbounded: every canvas pixel d=(X-cel.x, Y-cel.y) inside the tile grid == blend(mode, old pixel, tileset pixel [tiles[(dy/th)*w + dx/tw].id * tw*th + (dy%th)*tw + dx%tw], round8(layer opacity, cel opacity)), every other pixel unchanged (each canvas pixel is written exactly once); every index in bounds, no i32/i64/usize overflow for ANY 16-bit map and tile size and offset; canvas size unchanged",
  ["file::write_tilemap_cel_to_image", "tileset::Tileset::tile_size"], fn="write_tilemap_cel_to_image", witness="x_usable_after_load")

V("v_is_visible", "visible", "Layer::is_visible == own visible flag && the flags of ALL ancestors (spec_visible), for every layer table satisfying the parent contract; terminates because a parent id is smaller than its child's",
  ["layer::Layer::is_visible"], fn="is_visible", witness="x_forest_exhaustive")
V("v_tilemap_lookup", "tilemap_lookup", "Tilemap::tile(x,y) for ALL u32 coordinates: the stored tile at (x - offset_x, y - offset_y) if that lies inside the stored area, otherwise a tile with id 0; no overflow",
  ["tilemap::Tilemap::tile"], fn="tile", witness="x_tilemap_views")
V("v_tile_offsets", "tilemap_lookup", "Tilemap::tile_offsets == cel offset / tile size (truncating), no division by zero given tile size >= 1",
  ["tilemap::Tilemap::tile_offsets", "tilemap::Tilemap::tileset"], fn="tile_offsets", witness="x_tilemap_views")
V("v_celsdata_add_cel", "userdata", "CelsData::add_cel: Ok iff the frame exists and the (frame, layer) slot is free; then exactly that slot holds the cel and EVERY other cel is unchanged (so the order of cel chunks cannot matter); growth of the per-frame table keeps existing cels",
  ["cel::CelsData::add_cel", "cel::CelsData::check_valid_frame_id"], fn="CelsData::add_cel", witness="x_cel_order_irrelevant")
V("v_cel_mut", "userdata", "CelsData::cel_mut returns exactly the stored cel of (frame, layer) (None if absent) and changing it changes that cel only", ["cel::CelsData::cel_mut"], fn="cel_mut")
for _f, _c in (("add_layer", "pushes the layer, context = that layer's index, nothing else changes"), ("add_slice", "pushes the slice, context = that slice's index, nothing else changes"),
               ("add_tags", "replaces the tags, context = tag 0, nothing else changes"), ("add_cel", "stores the cel, context = that (frame, layer) on success, unchanged on failure"),
               ("set_tag_user_data", "Ok iff tag index in range: that tag gets the record, all other tags unchanged, context advances to the next tag; Err leaves everything unchanged; no panic for any index"),
               ("add_user_data", "the C10 attachment rule: the record goes to the entity named by the current context (layer / cel / slice / sprite / next tag) and NOTHING else changes; Err iff no context or the entity does not exist")):
    V("v_ud_" + _f, "userdata", "ParseInfo::%s: %s" % (_f, _c), ["parse::ParseInfo::" + _f], fn=_f, witness="x_userdata_exhaustive")
V("v_parse_frame", "userdata", "parse_frame (the per-frame chunk dispatch) for EVERY chunk sequence: frame magic checked, duration stored for this frame, chunk count taken from the new field unless it is 0, and the attachment context / layer count / slice count evolve exactly by the C10 rule per chunk kind (layer, cel, slice, tags only in frame 0, legacy palette -> sprite, user data advances a tag context; ignorable chunks, colour profile, new palette, external files, tilesets leave it untouched); C11: the sprite's palette is the fold 'a new-format chunk always replaces it, a legacy chunk is used only while there is none' over the chunk sequence (new format wins in either order)",
  ["parse::parse_frame"], fn="parse_frame", witness="x_userdata_exhaustive")
V("v_read_aseprite", "header", "read_aseprite: Ok => the 128-byte header is present with magic 0xA5E0 and the sprite reports frames / width / height / pixel format (incl. transparent index) exactly as stored at offsets 6/8/10/12/28, one frame-time slot per frame; a pixel ratio other than 1:1 (both components non-zero) and colour depths other than 8/16/32 are refused; every parse_frame call has a slot for its frame",
  ["parse::read_aseprite"], fn="read_aseprite", witness=["x_refusals", "x_roundtrip_structure"])
V("v_parse_pixel_format", "header", "parse_pixel_format: Ok iff depth in {8,16,32}; indexed keeps the transparent index", ["parse::parse_pixel_format"], fn="parse_pixel_format", witness="x_refusals")
V("v_indexed_as_rgba", "pixels", "Indexed::as_rgba for ALL indices / palettes: None iff the index is absent; else the palette colour with alpha 0 iff the index is the transparent index and the layer is not a background layer",
  ["pixel::Indexed::as_rgba", "palette::ColorPaletteEntry::red", "palette::ColorPaletteEntry::green", "palette::ColorPaletteEntry::blue", "palette::ColorPaletteEntry::alpha"], fn="as_rgba", witness="x_frames_vs_spec")
V("v_gray_into_rgba", "pixels", "Grayscale (v,a) -> (v,v,v,a)", ["pixel::Grayscale::into_rgba"], fn="into_rgba", witness="x_frames_vs_spec")
V("v_rawpixels_validate", "pixels", "RawPixels::validate: indexed data is accepted iff a palette exists, the file is indexed and EVERY pixel index is a palette entry; the transparent index and background flag are captured; RGBA / grayscale data pass through",
  ["pixel::RawPixels::validate"], fn="RawPixels::validate", witness="x_indexed_needs_palette")
V("v_is_background", "visible", "LayerData::is_background <=> flag bit 0x8 (not the combined BACKGROUND_LAYER mask)", ["layer::LayerData::is_background"], fn="is_background", witness="x_frames_vs_spec")
V("v_tag_set_user_data", "userdata", "Tag::set_user_data stores the record", ["tags::Tag::set_user_data"], fn="set_user_data")
UD_V = ["v_parse_frame", "v_celsdata_add_cel", "v_cel_mut", "v_tag_set_user_data"] + ["v_ud_" + f for f in ("add_layer", "add_slice", "add_tags", "add_cel", "set_tag_user_data", "add_user_data")]

ROUTES = [("v_celsdata_cel", "CelsData::cel", "CelsData::cel(frame, layer) returns exactly the stored cel (None when the layer index is beyond the row or the slot is empty)", ["cel::CelsData::cel"]),
          ("v_file_cel", "AsepriteFile::cel", "AsepriteFile::cel(frame, layer) denotes cel (frame, layer) of this file - argument order pinned - and its in-range assertion cannot fire for in-range arguments", ["file::AsepriteFile::cel"]),
          ("v_file_frame", "AsepriteFile::frame", "AsepriteFile::frame(i) is frame i of this file", ["file::AsepriteFile::frame"]),
          ("v_file_layer", "AsepriteFile::layer", "AsepriteFile::layer(i) is layer i of this file", ["file::AsepriteFile::layer"]),
          ("v_frame_layer", "Frame::layer", "Frame::layer(l) denotes cel (this frame, l)", ["file::Frame::layer"]),
          ("v_layer_frame", "Layer::frame", "Layer::frame(f) denotes cel (f, this layer)", ["layer::Layer::frame"]),
          ("v_cel_frame", "Cel::frame", "Cel::frame reports the frame coordinate", ["cel::Cel::frame"]),
          ("v_cel_layer", "Cel::layer", "Cel::layer reports the layer coordinate", ["cel::Cel::layer"]),
          ("v_cel_is_empty", "is_empty", "Cel::is_empty <=> no cel is stored at (frame, layer)", ["cel::Cel::is_empty"]),
          ("v_num_frames", "num_frames", "num_frames widens the stored u16", ["file::AsepriteFile::num_frames"]),
          ("v_num_layers", "num_layers", "num_layers == number of decoded layer chunks", ["file::AsepriteFile::num_layers"])]
for _id, _fn, _claim, _fns in ROUTES:
    V(_id, "routes", _claim, _fns, fn=_fn, witness="x_routes")
ROUTES_V = [r[0] for r in ROUTES]

RC = "modulo the reader-primitive contract (verus/prelude.rs section reader; established for fixed-size cursors by k_reader_*)"
VDEC = [
 ("v_dec_userdata", "dec_userdata", "parse_userdata_chunk", "parse_userdata_chunk for EVERY payload: Ok iff flags/text/colour fit and the text is UTF-8; text iff bit 0, colour iff bit 1, as stored", ["user_data::parse_userdata_chunk"]),
 ("v_dec_blend_mode", "dec_layer", "parse_blend_mode", "parse_blend_mode: Ok(mode numbered id) iff id <= 18", ["layer::parse_blend_mode"]),
 ("v_dec_layer_type", "dec_layer", "parse_layer_type", "parse_layer_type: 0 image, 1 group, 2 tilemap(le_u32) or Err if short, else Err", ["layer::parse_layer_type"]),
 ("v_dec_layer", "dec_layer", "layer::parse_chunk", "layer::parse_chunk for EVERY payload and name length: Ok iff layout fits, enums in range, name UTF-8; every stored attribute equals the layout read", ["layer::parse_chunk"]),
 ("v_dec_anim_dir", "dec_tags", "parse_animation_direction", "parse_animation_direction: Ok iff id <= 2", ["tags::parse_animation_direction"]),
 ("v_dec_tags", "dec_tags", "tags::parse_chunk", "tags::parse_chunk for EVERY payload and ANY number of tags: one tag per declared entry, attributes as stored, in file order; Err iff some tag is short / bad direction / bad UTF-8", ["tags::parse_chunk"]),
 ("v_dec_ext", "dec_ext", "ExternalFile::parse_chunk", "ExternalFile::parse_chunk for EVERY payload and ANY declared count: one entry per declared file with id and name in file order; no capacity blow-up", ["external_file::ExternalFile::parse_chunk", "external_file::ExternalFile::new", "external_file::ExternalFileId::new"]),
 ("v_dec_cel_common", "dec_small", "CelCommon::parse", "CelCommon::parse: layer index, signed x / y, opacity at offsets 0/2/4/6", ["cel::CelCommon::parse"]),
 ("v_dec_image_size", "dec_small", "ImageSize::parse", "ImageSize::parse: width, height words", ["cel::ImageSize::parse"]),
 ("v_pixel_count", "dec_small", "pixel_count", "ImageSize::pixel_count == w*h, no overflow", ["cel::ImageSize::pixel_count"]),
 ("v_dec_slice9", "dec_small", "Slice9::read", "Slice9::read: signed centre, unsigned size, in order", ["slice::Slice9::read"]),
 ("v_dec_slice_key", "dec_small", "SliceKey::read", "SliceKey::read for all flags: frame, signed origin, size, 9-slice iff bit 0, pivot iff bit 1, each at its layout offset", ["slice::SliceKey::read"]),
 ("v_dec_bitmask", "dec_small", "TileBitmaskHeader::parse", "TileBitmaskHeader::parse: four dwords in order", ["tilemap::TileBitmaskHeader::parse"]),
 ("v_check_chunk_bytes", "dec_small", "check_chunk_bytes", "check_chunk_bytes: Ok iff 6 <= size <= bytes available", ["parse::check_chunk_bytes"]),
 ("v_scale_6bit", "dec_small", "scale_6bit_to_8bit", "scale_6bit_to_8bit: Err iff >= 64 else 4c + c/16", ["palette::scale_6bit_to_8bit"]),
 ("v_dec_cp_type", "dec_colorprofile", "parse_color_profile_type", "parse_color_profile_type: Ok iff id <= 2", ["color_profile::parse_color_profile_type"]),
 ("v_dec_colorprofile", "dec_colorprofile", "color_profile::parse_chunk", "color_profile::parse_chunk for EVERY payload: Ok iff >= 16 bytes, type none/sRGB, fixed-gamma flag clear (ICC, unknown types, fixed gamma refused)", ["color_profile::parse_chunk"]),
 ("v_dec_tilemap", "dec_cel", "TilemapData::parse_chunk", "TilemapData::parse_chunk: any bits-per-tile other than 32 is refused; Ok => header fields as stored and tiles.len() == w*h", ["tilemap::TilemapData::parse_chunk"]),
 ("v_dec_cel_content", "dec_cel", "CelContent::parse", "CelContent::parse: cel type > 3 refused; type 1 = Linked(le_u16); types 0/2 raw image with the stored size; type 3 tilemap", ["cel::CelContent::parse"]),
 ("v_dec_cel", "dec_cel", "cel::parse_chunk", "cel::parse_chunk for EVERY payload: header (layer, signed offset, opacity) as stored, content by cel type, unknown types refused, no user data", ["cel::parse_chunk"]),
 ("v_bytes_per_pixel", "dec_tileset", "bytes_per_pixel", "PixelFormat::bytes_per_pixel 4/2/1", ["file::PixelFormat::bytes_per_pixel"]),
 ("v_dec_tileset_ref", "dec_tileset", "ExternalTilesetReference::parse", "ExternalTilesetReference::parse: external file id, tileset id", ["tileset::ExternalTilesetReference::parse"]),
 ("v_dec_tileset", "dec_tileset", "Tileset::parse_chunk", "Tileset::parse_chunk for EVERY payload: header fields as stored, tile size >= 1 enforced, external reference iff flag 1, pixels iff flag 2; size product without overflow", ["tileset::Tileset::parse_chunk"]),
 ("v_palette_color", "dec_palette", "color", "ColorPalette::color(i) is the entry stored for index i, None if absent", ["palette::ColorPalette::color"]),
 ("v_validate_indexed", "dec_palette", "validate_indexed_pixels", "validate_indexed_pixels: Ok iff EVERY pixel index is a palette entry (any buffer length, any - sparse - palette)", ["palette::ColorPalette::validate_indexed_pixels"]),
 ("v_dec_palette", "dec_palette", "palette::parse_chunk", "palette::parse_chunk for EVERY payload and ANY index range (incl. 0..=u32::MAX): exactly the indices first..=last are present with stored RGBA and name (iff flag); Err iff last<first or an entry is short / bad UTF-8", ["palette::parse_chunk"]),
 ("v_dec_old04", "dec_palette", "parse_old_chunk_04", "legacy palette chunk 0x0004 for EVERY payload and packet count: Ok iff all packets fit; the skip bytes accumulate, count 0 = 256, a later packet overrides an earlier one; entry i = the RGB triple that defines it, alpha 255, no name", ["palette::parse_old_chunk_04"]),
 ("v_dec_old11", "dec_palette", "parse_old_chunk_11", "legacy palette chunk 0x0011 for EVERY payload: as 0x0004 with every component < 64 required and scaled 6 -> 8 bit (4c + c/16)", ["palette::parse_old_chunk_11", "palette::scale_6bit_to_8bit"]),
]
for _id, _unit, _fn, _claim, _fns in VDEC:
    V(_id, _unit, _claim + " - " + RC if _unit != "dec_palette" or _fn in ("palette::parse_chunk", "parse_old_chunk_04", "parse_old_chunk_11") else _claim, _fns, fn=_fn, witness="x_decoder_contracts")
VDEC_IDS = [v[0] for v in VDEC]

BLEND_LEAVES = ["k_mul_un8", "k_div_un8", "k_blend8"] + ["k_ch_" + m for m in ["multiply", "screen", "overlay", "darken", "lighten", "color_dodge",
                "color_burn", "hard_light", "difference", "exclusion", "divide"]] + ["k_ch_soft_light_range", "k_merge", "k_normal_alpha",
                "k_normal_r", "k_normal_g", "k_normal_b", "k_normal_full", "k_pack_i32", "k_pack_f64"]
BLEND_WRAPPERS = ["k_blend_channel", "k_blender"] + ["k_mode_" + m for m in ALL_MODES]
LAYER_DEC = ["k_parse_layer_type", "k_parse_blend_mode", "k_layer_chunk_17", "k_layer_chunk_18", "k_layer_chunk_21", "k_layer_chunk_24"]
TAGS_DEC = ["k_parse_animation_direction", "k_tags_chunk_10", "k_tags_chunk_30", "k_tags_chunk_49"]
SLICE_DEC = ["k_slice_chunk_14", "k_slice_chunk_34", "k_slice_chunk_58"]
PAL_DEC = ["k_scale_6bit", "k_palette_chunk_20", "k_palette_chunk_26", "k_palette_chunk_35", "k_old04_chunk_10", "k_old04_chunk_2", "k_old11_chunk_10", "k_old11_chunk_13"]
EXT_DEC = ["k_ext_files_12", "k_ext_files_27", "k_ext_files_41"]
TS_DEC = ["k_tileset_head_33", "k_tileset_head_34", "k_tileset_head_44", "k_pixels_per_tile"]
CEL_DEC = ["k_cel_chunk_15", "k_cel_chunk_17", "k_cel_chunk_18", "k_cel_raw_rgba_28", "k_cel_raw_gray_24", "k_cel_raw_indexed_23", "k_pixel_count"]
PIX = ["k_gray_rgba", "k_indexed_as_rgba", "k_from_bytes_8", "k_from_bytes_6", "k_from_bytes_5"]
READER = ["k_reader_prims_6", "k_reader_prims_3", "k_reader_sequence", "k_reader_string_6", "k_reader_string_1"]
UD_DEC = ["k_user_data_4", "k_user_data_8", "k_user_data_12"]
CP_DEC = ["k_color_profile_15", "k_color_profile_16", "k_color_profile_20"]

# Kani shapes that need 7 - 60+ minutes each (Vec<struct with String> drop glue, hashbrown): thorough tier only
HEAVY = [h for h in ["k_reader_schedule", "k_reader_hard_error", "k_layer_chunk_21", "k_layer_chunk_24", "k_cel_raw_rgba_28", "k_user_data_12", "k_from_bytes_8", "k_tags_chunk_30", "k_tags_chunk_49", "k_slice_chunk_14", "k_slice_chunk_34", "k_slice_chunk_58", "k_palette_chunk_20", "k_palette_chunk_26", "k_palette_chunk_35",
         "k_old04_chunk_10", "k_old11_chunk_10", "k_old11_chunk_13", "k_validate_indexed", "k_indexed_as_rgba", "k_ext_files_27", "k_ext_files_41", "k_tileset_head_34", "k_tileset_head_44", "k_cels_table"]]
from registry import OBL
for _h in HEAVY:
    OBL[_h].tier = "thorough"
    OBL[_h].timeout = 5400

# Kani shapes that did not finish within 90 minutes on this machine (CBMC: Vec<struct with String> drop glue,
# hashbrown): not registered for any property - the same postconditions are Verus obligations (unbounded)
# and run natively in x_decoder_contracts.
DEAD = ['k_tags_chunk_49', 'k_slice_chunk_34', 'k_slice_chunk_58', 'k_palette_chunk_26', 'k_palette_chunk_35', 'k_old04_chunk_10', 'k_old11_chunk_10', 'k_old11_chunk_13', 'k_validate_indexed', 'k_indexed_as_rgba', 'k_ext_files_27', 'k_tileset_head_34', 'k_tileset_head_44', 'k_cels_table']

def prop(id, level, obls, explanation, **kw):
    seen, uniq = set(), []
    for o in obls:
        if o in DEAD:
            continue
        if o not in seen:
            seen.add(o)
            uniq.append(o)
    d = {"level": level, "obligations": uniq, "explanation": explanation}
    d.update(kw)
    PROPS[id] = d

prop("C01", "proof", ACC_V + ["v_layer_by_name", "v_layers_iter", "v_get_tag", "v_layer_name", "v_tag_name", "v_tileset_name", "v_palette_entry_id", "v_add_external_files", "v_extfile_name", "v_tsref_getters", "v_reader_string", "v_tileset_getters", "v_extfiles_add", "v_extfiles_get", "v_tilesets_add", "v_tilesets_get", "v_compute_parents", "v_from_vec", "x_forest_exhaustive", "v_chunk_read", "v_chunk_read_all", "v_dec_layer", "v_dec_layer_type", "v_dec_blend_mode", "v_dec_tags", "v_dec_anim_dir", "v_dec_ext", "v_dec_slice_key", "v_dec_slice9", "v_dec_palette", "v_palette_color", "v_dec_tileset", "v_dec_tileset_ref", "v_check_chunk_bytes"]
     + ["k_parse_chunk_type", "k_parse_pixel_format", "k_check_chunk_bytes", "k_pixel_format_accessors"] + READER + LAYER_DEC + TAGS_DEC + SLICE_DEC
     + ["k_palette_chunk_20", "k_palette_chunk_26", "k_palette_chunk_35"] + EXT_DEC + TS_DEC + ["v_read_aseprite", "v_parse_pixel_format", "v_parse_frame", "v_num_frames", "v_num_layers", "v_file_layer", "v_file_frame", "x_decoder_contracts", "x_roundtrip_structure", "x_header_extremes"],
     "Every chunk decoder (layer, tags, external files, new and legacy palettes, tileset, cel, tilemap, user data, colour profile, slice keys), the chunk framing (Chunk::read / read_all), the file header and the frame dispatch are Verus contracts on the real text for EVERY payload length and entity count, field by field against the file-format layout, modulo the reader-primitive contract; 28 public accessors, the tileset / external-file tables and the parent computation are Verus contracts too. The reader primitives and the enum decoders are Kani contracts (enums over their whole domain, primitives and a few decoder shapes on fixed payload sizes with symbolic contents). layer_by_name (lowest-numbered match for every layer list; `==` on &str is a trusted shim), the layer iterator (every layer once, in index order), get_tag (None out of range) and the name getters are Verus contracts as well. slice::parse_chunk (iterator collect), tag_by_name (iterator find) and whole files through zlib are bounded stand-ins (x_*).")
prop("C02", "proof", ["v_frame_image_api", "v_single_visible_frame", "v_frame_image", "v_write_cel", "x_cels_table", "x_forest_exhaustive", "v_celsdata_add_cel", "v_celsdata_cel", "v_write_raw_cel", "v_write_tilemap_cel", "v_tile_slice", "v_tilemap_tile", "v_is_visible", "k_mul_un8", "k_cels_table", "x_mode_table", "x_frames_vs_spec", "x_cel_order_irrelevant", "x_blend_public_api"],
     "frame_image is proved by Verus on the real text, for every validated sprite, to be the fold of the frame's cels in increasing layer order over transparent black with hidden layers skipped; write_cel picks the layer's mode / opacity / tileset and resolves links; both rasterisers are proved FUNCTIONALLY correct for unbounded sizes (placement, clipping, row-major index, tile grid, opacity product, blend call); CelsData::add_cel touches exactly one slot (storage order cannot matter). mul_un8 == round8 is a Kani contract. The Box<dyn Fn> dispatch table (Kani ICE, no dyn in Verus), clone_as_image_rgba and the frame_cels iterator are trusted shims exercised by bounded stand-ins.")
prop("C03", "proof", BLEND_LEAVES + BLEND_WRAPPERS + ["k_parse_blend_mode", "x_mode_table", "x_soft_light", "x_hsl_kernels", "x_blend_public_api"],
     "14 integer modes: leaves == Aseprite macros over their full domains, normal/merge == reference over all 2^72 inputs, every mode function == RGBA_BLENDER_N structure modulo callees (uninterpreted-function abstraction). soft light and the four HSL modes: integer skeleton proved, f64 kernels bounded-exec (soft light exhaustive over 65536 pairs).")
prop("C04", "proof", ["x_cel_table_memory"] + VDEC_IDS + ["v_read_bytes", "v_parse_raw_cel", "v_parse_compressed_cel", "v_take_bytes", "v_unzip", "v_output_size", "v_from_bytes", "v_from_raw", "v_from_compressed", "v_reader_string", "v_skip_reserved", "v_chunk_read", "v_chunk_read_all", "v_parse_chunk_type", "v_celsdata_new", "v_parseinfo_new", "v_parseinfo_validate", "v_celsdata_validate", "v_rawcel_validate", "v_layersdata_validate", "v_tilesets_validate", "v_compute_parents", "v_from_vec", "k_check_chunk_bytes", "k_scale_6bit", "k_parse_chunk_type", "k_parse_pixel_format"] + LAYER_DEC + TAGS_DEC + SLICE_DEC + PAL_DEC + EXT_DEC
     + TS_DEC + CEL_DEC + UD_DEC + CP_DEC + READER + ["k_tilemap_bits", "k_tile_parse", "k_cels_table", "v_read_aseprite", "v_parse_frame", "v_ud_set_tag_user_data", "v_ud_add_user_data", "v_ud_add_cel", "v_cel_mut", "x_decoder_contracts", "x_total_load"],
     "Totality contracts on the real text (Verus): every decoder, the chunk framing, the header / frame loop, the dispatch, the validation stage and the parent computation return Ok or Err for EVERY input with no overflow, index error or reachable panic site; every Kani decoder harness also discharges the automatic no-panic / no-overflow / in-bounds checks for all contents of its payload size. Whole-load totality (zlib, stack depth, allocation under a 4 GiB address-space limit, hangs) is fault enumeration in an isolated child process.", level_note_extra="fault enumeration for the composition")
prop("C05", "proof", ["v_frame_image_api", "v_cel_image_api", "v_tilemap_image_api", "v_tilesets_get", "v_file_tilemap", "v_from_vec", "v_parseinfo_validate", "v_celsdata_new", "v_parseinfo_new", "v_tilesets_validate", "v_celsdata_validate", "v_rawcel_validate", "v_imagecontent_validate", "v_layersdata_validate", "v_write_cel", "v_frame_image", "v_layer_image", "v_validate_indexed", "v_rawpixels_validate", "v_indexed_as_rgba", "v_dec_tilemap", "v_dec_tileset", "v_tileset_wf_preserved", "v_tileset_image", "v_tileset_tile_image", "v_tilesize_pixels_per_tile", "v_parse_raw_cel", "v_parse_compressed_cel", "v_take_bytes", "v_unzip", "v_output_size", "v_from_bytes", "v_from_raw", "v_from_compressed", "v_tiles_unzip", "v_write_raw_cel", "v_write_tilemap_cel", "v_tile_slice", "v_tilemap_tile", "v_tilemap_lookup", "v_tile_offsets", "v_is_visible", "v_pixels_per_tile", "k_validate_indexed", "k_indexed_as_rgba", "k_tileset_head_34", "k_tileset_head_44", "x_usable_after_load"],
     "Assume/guarantee chain on the real text (Verus, unbounded; DESIGN 10.7): the validation stage (ParseInfo::validate, CelsData::validate, RawCel::validate, LayersData::validate, TilesetsById::validate, from_vec) is proved to deliver exactly the preconditions under which frame_image / write_cel / layer_image / the rasterisers / tile lookups / AsepriteFile::tilemap / the image accessors are proved panic-free (their 'should have been caught by validate' sites are unreachable). The pixel side of the chain is contracts too: take_bytes / unzip return exactly the declared number of bytes or fail (real text over a trusted model of Read / flate2), from_raw / from_compressed / Tiles::unzip deliver exactly the declared number of pixels / tiles, parse_raw_cel / parse_compressed_cel therefore width x height pixels, Tileset::parse_chunk count x height x width pixels, validation preserves that (lemma), and under it Tileset::image / tile_image cannot overflow or hit an expect() and have their documented sizes. The correspondence between units, the chunks_exact / flat_map iterator chains (trusted shims) and clone_as_image_rgba are exercised by fault enumeration: every loadable corrupted file is driven through every accessor.")
prop("C06", "proof", ["v_indexed_as_rgba", "v_gray_into_rgba", "v_is_background", "v_validate_indexed", "v_parse_raw_cel", "v_parse_compressed_cel", "v_take_bytes", "v_unzip", "v_output_size", "v_from_bytes", "v_from_raw", "v_from_compressed", "v_gray_new", "v_read_rgba", "v_rawpixels_validate", "v_dec_cel", "v_dec_cel_content", "v_dec_cel_common", "v_dec_image_size", "v_pixel_count", "v_cel_is_empty", "v_cel_frame", "v_cel_layer", "v_celsdata_cel"] + PIX + ["k_cel_chunk_15", "k_cel_chunk_17", "k_cel_chunk_18", "k_cel_raw_rgba_28", "k_cel_raw_gray_24", "k_cel_raw_indexed_23", "k_normal_alpha", "k_normal_r", "k_normal_g", "k_normal_b", "k_blender", "v_write_raw_cel", "x_frames_vs_spec", "x_roundtrip_structure", "x_neutral_encodings"],
     "Pixel conversions proved for all values; 'placed verbatim on a transparent canvas' rests on blend::normal, whose equality with Aseprite's rgba_blender_normal on ALL inputs (incl. the RGB of fully transparent pixels, which the executed image comparisons deliberately canonicalise) and the wrapper's transparent-backdrop rule are Kani contracts listed here as well; RawPixels::from_bytes / from_raw / from_compressed (RGBA verbatim, (value, alpha) pairs, indices; exactly the declared pixel count from exactly those bytes) and the per-pixel constructors are Verus contracts on the real text for every length (the chunks_exact chains are trusted shims); cel header / raw payload decode additionally on fixed sizes with Kani; placement + alpha scaling is the Verus rasteriser contract; zlib storage, linked cels and the transparent-index rule end-to-end are bounded-exec against the composition spec.")
prop("C07", "exploration", ["v_read_aseprite", "v_parse_frame", "v_celsdata_add_cel", "v_take_bytes", "v_from_raw", "v_read_bytes", "k_parse_chunk_type", "k_layer_chunk_24", "k_tileset_head_44", "x_neutral_encodings", "x_cel_order_irrelevant"],
     "Mostly glue and zlib: bounded exploration over seeded models x ~30 encoding choices; contract part: ignorable chunk codes map to the three ignorable kinds (all u16), trailing payload bytes do not change a decoder's result (layer / tileset shapes with slack bytes; Verus: take_bytes / from_raw succeed whatever follows the declared bytes).")
prop("C08", "proof", ["v_tilemap_image_api", "v_tileset_strip_stacked", "v_tileset_image", "v_tileset_tile_image", "v_tileset_getters", "v_tilesets_get", "v_tilesets_add", "v_file_tilemap", "v_write_tilemap_cel", "v_tiles_unzip", "v_tile_new", "v_dec_tilemap", "v_dec_bitmask", "v_dec_tileset", "k_tile_parse", "k_tile_bitmask_header", "k_tilemap_bits", "k_pixels_per_tile", "v_tilemap_tile", "v_tilemap_lookup", "v_tile_offsets", "v_tile_slice", "v_pixels_per_tile", "v_write_tilemap_cel", "x_tilemap_views"],
     "The tilemap rasteriser is proved FUNCTIONALLY (every canvas pixel shows pixel d%tile of the tile stored at d/tile, written exactly once); tile lookup for all u32 coordinates, offsets, slicing, AsepriteFile::tilemap (logical size = ceil(canvas / tile)), Tilemap::image == its cel's image, the tileset decoder (sizes without overflow, strip height fits u32) and the tileset table are Verus contracts over unbounded sizes; tile word decode is a Kani contract. Tileset::image / tile_image are Verus contracts on the real text (documented sizes, bytes = the tileset's pixels; the flat_map chains are trusted shims) and the property's last sentence - the strip is the tile images stacked in index order - is a client lemma over the two contracts; Tiles::unzip yields exactly width x height tiles, tile i = masked dword i. Images and lookups are compared on seeded sprites as well.")
prop("C09", "proof", ["v_acc_layer_parent", "v_compute_parents", "v_from_vec", "v_is_visible", "v_frame_image", "x_forest_exhaustive"],
     "compute_parents is proved by Verus on the real text for ALL layer sequences (any length, any depth) whose first level is 0 - the forests of the property are a subset; from_vec establishes that precondition; Layer::is_visible is proved equal to 'own flag and all ancestors' flags'; Layer::parent returns the stored parent; frame_image skips exactly the cels whose layer is hidden directly or through an ancestor. All of it is additionally executed for every forest of up to 6 (quick) / 8 (thorough) layers and every flag assignment.")
prop("C10", "proof", UD_V + ["v_dec_userdata", "v_acc_cel_user_data", "v_acc_layer_user_data", "v_acc_tag_user_data", "v_acc_asepritefile_sprite_user_data"] + UD_DEC + ["x_decoder_contracts", "x_userdata_exhaustive", "x_roundtrip_structure"],
     "The attachment rule is a Verus contract on the REAL code, extracted each run, for unbounded tables and chunk sequences: ParseInfo::add_user_data attaches a record to the entity named by the current context and changes nothing else (add_layer / add_cel / add_tags / add_slice / set_tag_user_data / CelsData::cel_mut likewise), and parse_frame - the chunk dispatch - updates that context per chunk kind exactly by the rule (fold over the chunk sequence; ignorable chunks and the new palette leave it untouched, tags only count in frame 0, a legacy palette selects the sprite). Assumed in that unit: the decoders' results (their own contracts are the dec_* units) and the chunk framing. The same rule is additionally executed for all admissible chunk sequences up to length 5 / 6 through the public API; the user-data chunk decoder is a Verus (unbounded) and Kani (fixed shapes) contract.")
prop("C11", "proof", ["v_parse_frame", "v_dec_old04", "v_dec_old11", "v_dec_palette", "v_palette_color", "v_validate_indexed", "v_rawpixels_validate", "v_scale_6bit"] + PAL_DEC + ["k_validate_indexed", "x_decoder_contracts", "x_palette_precedence", "x_indexed_needs_palette"],
     "New and legacy (0x0004 / 0x0011) palette decoders are Verus contracts for every payload (accumulating skip, count 0 = 256, later packet overrides, 6-bit scaling 4c + c/16 with components >= 64 refused); parse_frame pins the precedence rule as a fold (a new-format chunk always replaces the palette, a legacy chunk only fills an empty one); validate_indexed_pixels / RawPixels::validate: an indexed sprite loads iff EVERY pixel index has a palette entry. 6-bit scaling is also a full-domain Kani contract; precedence and the load failure are executed on seeded files as well.")
prop("C13", "exploration", READER + ["v_chunk_read", "v_chunk_read_all", "v_read_aseprite", "v_parse_frame", "v_read_bytes", "v_take_bytes", "v_unzip", "v_reader_string", "v_skip_reserved", "k_check_chunk_bytes", "v_check_chunk_bytes", "v_dec_layer", "v_dec_tags", "v_dec_cel", "x_truncation"],
     "Contracts (Verus, every length): Chunk::read is Ok iff the WHOLE declared chunk is present, read_all yields exactly `count` complete chunks, parse_frame is Ok only if the 16-byte frame header is present, read_aseprite is Ok only after exactly num_frames frames, each decoder is Ok iff every declared byte of its payload is present; reader primitives return an error value whenever fewer bytes remain (Kani, every position of a fixed-size cursor); read_bytes / take_bytes / unzip fail whenever fewer than the declared bytes arrive (Verus, real text over a trusted model of Read). The top-level statement compares two runs (file vs prefix) and is decided by executing every cut offset of generated and corpus files.")
prop("C14", "exploration", ["k_error_mapping", "k_reader_prims_6", "k_reader_sequence", "k_reader_schedule_5", "k_reader_hard_error_4", "k_reader_schedule", "k_reader_hard_error", "v_read_bytes", "x_readers"],
     "Kani: AseReader's primitives over a scripted reader return the in-memory result for EVERY split of the stream into read() sizes and EVERY placement of transient Interrupted results (5- and 7-byte streams), and with a hard error anywhere they return the right value or that very error; error mapping (io::Error -> IoError, source()) is a Kani contract. read_bytes is a Verus contract over a trusted model of Read (Ok = exactly the next bytes; every Err is the I/O error, its own UnexpectedEof or the source's); std read_to_end itself (intractable for CBMC) and whole files are bounded-exec with scripted readers (short reads, Interrupted, BufReader, files) and a hard error of 6 kinds injected at byte offsets.")
prop("C15", "proof", ["v_parse_chunk_type", "v_tilesets_validate", "v_read_aseprite", "v_parse_pixel_format", "v_dec_colorprofile", "v_dec_cp_type", "v_dec_tilemap", "v_dec_cel_content", "v_dec_layer_type", "v_dec_blend_mode", "v_dec_anim_dir", "v_dec_layer", "v_dec_tags", "k_parse_pixel_format", "k_parse_layer_type", "k_parse_blend_mode", "k_parse_animation_direction", "k_parse_chunk_type", "k_cel_chunk_18", "k_cel_chunk_17", "k_tilemap_bits"] + CP_DEC + ["x_decoder_contracts", "x_refusals"],
     "Every refusal is a branch of a contracted function and proved over the whole code domain: pixel ratio and colour depth (read_aseprite, Verus), chunk type, layer type, blend mode, animation direction, cel type, colour profile type/flags, bits per tile (Verus and Kani), tileset without embedded pixels (TilesetsById::validate, Verus); additionally executed at every position where the feature can occur.")
prop("C16", "other", ["s_send_sync", "x_determinism", "x_total_load", "v_tilemap_lookup", "v_tile_offsets", "x_tilemap_views", "v_check_chunk_bytes", "v_read_aseprite", "v_parse_frame", "v_celsdata_validate", "v_frame_image", "v_write_raw_cel", "v_write_tilemap_cel", "v_tile_slice", "v_pixels_per_tile", "v_compute_parents", "k_mul_un8", "k_blend8", "k_merge", "k_normal_r", "k_normal_g", "k_normal_b", "k_pixel_count", "k_pixels_per_tile"],
     "(a) Send + Sync: discharged by rustc's trait solver. (b) no result depends on wrapping arithmetic: the overflow obligations of the Verus units (unbounded) and of the Kani blend leaves. (c) determinism / repeat / permute / 16 threads: sanity stand-in only - interleavings are NOT explored (Kani has no threads; Verus would need its permission types in the real code); the schedule quantifier rests on Rust's Sync + &self guarantee.")
prop("C17", "proof", ["k_mul_un8", "k_blend8", "k_merge", "k_normal_alpha", "k_pack_i32", "k_pack_f64", "k_ch_soft_light_range", "k_blender"] + ["k_law_" + m for m in ALL_MODES] + ["k_normal_r", "k_normal_g", "k_normal_b"]
     + ["k_ch_" + m for m in ["multiply", "screen", "overlay", "darken", "lighten", "color_dodge", "color_burn", "hard_light", "difference", "exclusion", "divide"]] + ["k_mode_addition", "k_mode_subtract", "x_hsl_kernels", "x_blend_public_api", "x_tilemap_views", "v_write_raw_cel", "v_write_tilemap_cel"],
     "Observation point Frame::image: both rasterisers are proved (Verus, real text) to hand every source pixel to the blend function with the opacity product round8(layer, cel) and to write its result unchanged, so the laws of the blend functions carry over to frame images. The three laws are proved for all 19 modes (HSL included: alpha never flows through f64) from the contracts of normal / merge with every other callee uninterpreted. Range clause: integer modes via the leaf contracts (reference value in 0..=255 and equal to the truncated result) and normal's full-domain safety; soft light range proved; HSL packed range only bounded-exec.")
prop("C18", "proof", ["v_extrude_border", "v_palette_mapper_new", "v_palette_mapper_lookup", "x_utils"], "extrude_border, PaletteMapper::new and PaletteMapper::lookup are Verus contracts on the real text (unbounded sizes / palettes; the row iterator chain and IntMap iteration are trusted shims); to_indexed_image (an iterator map/collect over image::pixels) and the feature gate are bounded-exec.")
prop("C19", "proof", ROUTES_V + ["v_routes_agree", "v_single_visible_frame", "v_cel_image_api", "v_tilemap_image_api", "v_frame_image_api", "v_from_vec"] + [a for a in ACC_V if a.startswith("v_acc_cel_")] + ["v_layer_image", "v_write_cel", "v_frame_image", "x_cels_table", "x_routes", "x_frames_vs_spec"], "The three routes (AsepriteFile::cel, Frame::layer, Layer::frame), the cel accessors (frame, layer, is_empty, top_left, user_data, is_tilemap, image) and Tilemap::image are Verus contracts on the real text, and two client lemmas over those contracts state the property itself: the routes, called positionally as documented, give the same cel id / file / emptiness and the coordinates asked for (a flipped parameter order fails); a frame in which exactly one cel belongs to a visible layer equals that cel's image pixel for pixel; a tilemap's image has the pixel function of its cel's image. from_vec guarantees at most 65536 layers, so the u16 cel id cannot alias. Seeded sprites with frames != layers are compared as well.")
