"""The obligation table (what is proved about which real function) and the per-property selection."""
from registry import K, V, X, S, PROPS

B = "blend"
# ---------------------------------------------------------------- blend leaves (K-full, proved)
K("k_mul_un8", B, "mul_un8(a,b) == MUL_UN8(a,b) == round(a*b/255) for all a,b in 0..=255; cast exact", ["blend::mul_un8"])
K("k_div_un8", B, "div_un8(a,b) == DIV_UN8(a,b) in 0..=255 for all 0<=a<b<=255", ["blend::div_un8"])
K("k_blend8", B, "blend8(b,s,o) == b + MUL_UN8(s-b,o) in 0..=255 for all u8^3; blend8(a,a,t)==a", ["blend::blend8"])
for m in ["multiply", "screen", "overlay", "darken", "lighten", "color_dodge", "color_burn", "hard_light",
          "difference", "exclusion", "divide"]:
    K("k_ch_" + m, B, "blend_%s(b,s) == Aseprite's blend_%s macro, value in 0..=255, for all 0..=255^2" % (m, m),
      ["blend::blend_" + m])
K("k_ch_soft_light_range", B, "blend_soft_light(b,s) in 0..=255 for all 0..=255^2 (f64; equality is bounded-exec)",
  ["blend::blend_soft_light"])
K("k_merge", B, "merge == rgba_blender_merge on all 2^72 inputs; alpha(merge) == blend8(Ba,Sa,o)", ["blend::merge"])
K("k_normal_alpha", B, "alpha(normal) == A(Ba,Sa,o) independent of RGB; transparent-backdrop / transparent-source / zero-opacity / opaque-source laws",
  ["blend::normal"])
for ch in "rgb":
    K("k_normal_" + ch, B, "normal == rgba_blender_normal on channel %s and alpha for all 2^72 (backdrop, source, opacity); no overflow, no debug assertion" % ch,
      ["blend::normal", "blend::from_rgba_i32", "blend::as_rgba_i32"], solver="kissat", timeout=1200)
K("k_normal_full", B, "normal == rgba_blender_normal on whole pixels, all 2^72 inputs, monolithic", ["blend::normal"],
  tier="thorough", solver="kissat", timeout=3000)

# ---------------------------------------------------------------- blend wrappers (modular: callees uninterpreted)
UFN = "normal/merge replaced by uninterpreted functions"
K("k_blend_channel", B, "blend_channel(b,s,o,f) == normal(b,(f(Br,Sr),f(Bg,Sg),f(Bb,Sb),Sa),o) for every f and normal",
  ["blend::blend_channel"], replayable=False, bound=UFN)
K("k_blender", B, "blender(b,s,o,F) == RGBA_BLENDER_N structure over every F, normal, merge", ["blend::blender"],
  replayable=False, bound=UFN)
MODES = [("multiply", 1), ("screen", 2), ("overlay", 3), ("darken", 4), ("lighten", 5), ("color_dodge", 6), ("color_burn", 7),
         ("hard_light", 8), ("difference", 10), ("exclusion", 11), ("addition", 16), ("subtract", 17), ("divide", 18)]
UFC = "normal/merge replaced by their CONTRACTS (clauses proved by k_normal_alpha, k_merge); other callees uninterpreted"
for m, i in MODES:
    K("k_mode_" + m, B, "%s(b,s,o) == rgba_blender_%s_n(b,s,o) modulo normal/merge/channel fn (each proved equal to the reference separately)" % (m, m),
      ["blend::" + m, "blend::%s_baseline" % m, "blend::blender", "blend::blend_channel"], replayable=False, witness="blend:%d" % i, bound=UFN)
    K("k_law_" + m, B, "%s obeys the C17 laws (alpha == Normal alpha; transparent source / zero opacity keeps backdrop; transparent backdrop gives scaled source)" % m,
      ["blend::" + m, "blend::blender"], replayable=False, witness="laws:%d" % i, bound=UFC, depends=["k_normal_alpha", "k_merge", "k_blend8"])
K("k_mode_soft_light", B, "soft_light: integer skeleton == RGBA_BLENDER_N around the per-channel f64 kernel (kernel uninterpreted, range 0..=255)",
  ["blend::soft_light", "blend::soft_light_baseline"], replayable=False, witness="blend:9", bound=UFN + "; blend_soft_light uninterpreted")
K("k_law_soft_light", B, "soft_light obeys the C17 laws", ["blend::soft_light"], replayable=False, witness="laws:9", bound=UFC,
  depends=["k_normal_alpha", "k_merge", "k_blend8", "k_ch_soft_light_range"])
for m, i in [("hsl_hue", 12), ("hsl_saturation", 13), ("hsl_color", 14), ("hsl_luminosity", 15)]:
    K("k_mode_" + m, B, "%s: which f64 kernel is applied to backdrop / source, alpha pass-through, RGBA_BLENDER_N around it (kernels uninterpreted)" % m,
      ["blend::" + m, "blend::%s_baseline" % m], replayable=False, witness="blend:%d" % i, bound=UFN + "; luminosity/saturation/set_saturation/set_luminocity/from_rgb_f64 uninterpreted")
    K("k_law_" + m, B, "%s obeys the C17 laws (f64 kernels uninterpreted: alpha never flows through f64)" % m, ["blend::" + m], replayable=False,
      witness="laws:%d" % i, bound=UFC, depends=["k_normal_alpha", "k_merge", "k_blend8", "k_pack_f64"])
K("k_pack_i32", B, "as_rgba_i32 / from_rgba_i32 are exact inverses on u8 channels", ["blend::as_rgba_i32", "blend::from_rgba_i32"])
K("k_pack_f64", B, "from_rgb_f64 on channel values in [0,1]: no debug assertion, truncation toward zero, alpha passes through",
  ["blend::from_rgb_f64"], replayable=False)
ALL_MODES = [m for m, _ in MODES] + ["soft_light", "hsl_hue", "hsl_saturation", "hsl_color", "hsl_luminosity"]

PROPS["C03"] = {
    "level": "proof",
    "obligations": ["k_mul_un8", "k_div_un8", "k_blend8"] + ["k_ch_" + m for m in
                    ["multiply", "screen", "overlay", "darken", "lighten", "color_dodge", "color_burn", "hard_light",
                     "difference", "exclusion", "divide"]] + ["k_ch_soft_light_range", "k_merge", "k_normal_alpha",
                    "k_normal_r", "k_normal_g", "k_normal_b", "k_normal_full",
                    "k_blend_channel", "k_blender", "k_pack_i32", "k_pack_f64"] + ["k_mode_" + m for m in ALL_MODES],
    "explanation": "",
}

PROPS["C17"] = {
    "level": "proof",
    "obligations": ["k_mul_un8", "k_blend8", "k_merge", "k_normal_alpha", "k_pack_i32", "k_pack_f64", "k_ch_soft_light_range", "k_blender"]
                   + ["k_law_" + m for m in ALL_MODES],
    "explanation": "",
}

# ---------------------------------------------------------------- Engine X (bounded-exec)
X("x_roundtrip_structure", "encode(model) loads and every public attribute equals the model (all entities, file order, lookups, user data)",
  ["parse::read_aseprite", "parse::parse_frame", "parse::Chunk::read", "file::AsepriteFile accessors"], mod="x_structure",
  bound="seeded random models (600 quick / 6000 thorough)")
X("x_header_extremes", "frame counts up to 65535, extreme canvas sizes and durations are reported exactly",
  ["parse::read_aseprite", "parse::ParseInfo::new", "cel::CelsData::new"], mod="x_structure", bound="20 header shapes")
X("x_routes", "frame.layer / layer.frame / cel(frame,layer) agree; single-visible-cel frame == cel image; tilemap image == cel image",
  ["file::AsepriteFile::cel", "file::Frame::layer", "layer::Layer::frame", "cel::Cel::*", "tilemap::Tilemap::image"], mod="x_structure",
  bound="seeded random models with frames != layers (200 / 2000)")
X("x_frames_vs_spec", "Frame::image and Cel::image equal the composition spec computed from the model with the Aseprite blend reference; parents/visibility equal the forest spec",
  ["file::AsepriteFile::frame_image", "file::AsepriteFile::write_cel", "file::write_raw_cel_to_image", "file::write_tilemap_cel_to_image",
   "cel::CelsData::frame_cels", "layer::Layer::is_visible", "pixel::Pixels::clone_as_image_rgba"], mod="x_render",
  bound="seeded random stacks (500 / 6000)")
X("x_cel_order_irrelevant", "every permutation of the cel chunks of a frame gives the same image", ["cel::CelsData::add_cel", "cel::CelsData::frame_cels"],
  mod="x_render", bound="all permutations of <=4 cels on 40 / 400 seeded stacks")
X("x_forest_exhaustive", "parent(), is_visible() and frame images follow the nesting levels for EVERY forest of up to 6 (quick) / 8 (thorough) layers and every flag assignment",
  ["layer::Layer::parent", "layer::Layer::is_visible", "file::AsepriteFile::frame_image"], mod="x_render", bound="exhaustive <= 6 / 8 layers")
X("x_total_load", "loading returns Ok or Err on every corrupted / truncated / hostile / random input: no panic, abort, stack overflow on a 2 MiB thread, or hang",
  ["parse::read_aseprite", "every decoder", "ParseInfo::validate"], mod="x_total", label="bounded-exec", timeout=1500,
  bound="window/double/truncation mutants of 6 (24) generated + corpus files; special hostile models; 500 (4000) random strings")
X("x_usable_after_load", "whatever loads can be fully used: every accessor, every image, extreme tile lookups, Debug return normally",
  ["file::*", "cel::*", "tilemap::*", "tileset::*", "layer::Layer::is_visible"], mod="x_total", label="bounded-exec", timeout=1500,
  bound="same fault family as x_total_load")
PROPS["CX"] = {"level": "exploration", "obligations": ["x_roundtrip_structure", "x_header_extremes", "x_routes", "x_frames_vs_spec", "x_cel_order_irrelevant", "x_forest_exhaustive", "x_total_load", "x_usable_after_load"]}
