"""Engine K: run Kani harnesses from the overlay on the scratch copy, classify, extract counterexamples."""
import os, re, shutil, time
from common import run, log, Undecided, BuildFailed, overlay_files_in_errors, NCPU, CACHE, VERIF

KANI_FLAGS = ["-Z", "function-contracts", "-Z", "stubbing", "--output-format", "terse"]


def seed_target(scratch):
    """Copy the dependency build cache (made by setup_cmd) into the scratch target dir, if present."""
    src = os.path.join(CACHE, "kani-target")
    dst = os.path.join(scratch.repo, "target")
    if os.path.isdir(src) and not os.path.exists(dst):
        run(["cp", "-a", src, dst])


class KaniResult:
    def __init__(self, harness):
        self.harness = harness
        self.status = "undecided"      # discharged | failed | undecided
        self.reason = ""
        self.seconds = 0.0
        self.checks = 0
        self.failed_checks = []         # list of (description, file, line)
        self.covers = (0, 0)
        self.raw = ""
        self.stubs = []


_RE_CHECKING = re.compile(r"^(?:Thread \d+: )?Checking harness (\S+?)\.\.\.")
_RE_THREAD = re.compile(r"^Thread (\d+): ?(.*)$")


def _parse(out, harnesses):
    """Split Kani's (possibly multi-threaded) output into per-harness blocks."""
    res = {h: KaniResult(h) for h in harnesses}
    cur_by_thread = {}
    cur = None
    blocks = {h: [] for h in harnesses}
    thread = None
    for line in out.splitlines():
        m = _RE_THREAD.match(line)
        if m:
            thread = m.group(1)
            rest = m.group(2)
            mc = re.match(r"Checking harness (\S+?)\.\.\.", rest)
            if mc:
                cur_by_thread[thread] = mc.group(1)
                cur = None
                continue
            cur = cur_by_thread.get(thread)
            if cur in blocks and rest:
                blocks[cur].append(rest)
            continue
        mc = _RE_CHECKING.match(line)
        if mc:
            cur = mc.group(1)
            continue
        if line.startswith("Manual Harness Summary") or line.startswith("Complete - "):
            cur = None
            continue
        if cur in blocks:
            blocks[cur].append(line)
    for h, lines in blocks.items():
        r = res[h]
        txt = "\n".join(lines)
        r.raw = txt
        m = re.search(r"\*\* (\d+) of (\d+) failed", txt)
        if m:
            r.checks = int(m.group(2))
        m = re.search(r"\*\* (\d+) of (\d+) cover properties satisfied", txt)
        if m:
            r.covers = (int(m.group(1)), int(m.group(2)))
        m = re.search(r"Verification Time: ([0-9.]+)s", txt)
        if m:
            r.seconds = float(m.group(1))
        for fm in re.finditer(r'Failed Checks: (.*)\n\s*File: "([^"]*)", line (\d+)', txt):
            r.failed_checks.append((fm.group(1).strip(), fm.group(2), int(fm.group(3))))
        for fm in re.finditer(r"Failed Checks: (.*)$", txt, re.M):
            d = fm.group(1).strip()
            if not any(d == f[0] for f in r.failed_checks):
                r.failed_checks.append((d, "", 0))
        if "VERIFICATION:- SUCCESSFUL" in txt:
            if r.covers[0] != r.covers[1]:
                r.status = "undecided"
                r.reason = "vacuity guard: %d of %d cover properties satisfied" % r.covers
            elif r.checks == 0:
                r.status = "undecided"
                r.reason = "vacuity guard: zero checks generated"
            else:
                r.status = "discharged"
        elif "VERIFICATION:- FAILED" in txt:
            # tool limits are not violations
            tool = [f for f in r.failed_checks if re.search(
                r"unwinding assertion|not currently supported|unsupported|Unsupported|recursion unwinding", f[0])]
            real = [f for f in r.failed_checks if f not in tool]
            if real:
                r.status = "failed"
                r.reason = "; ".join("%s (%s:%d)" % f for f in real[:4])
            else:
                r.status = "undecided"
                r.reason = "tool limit: " + "; ".join(f[0] for f in tool[:3]) if tool else "FAILED without a failed check (solver/tool error)"
        else:
            r.status = "undecided"
            r.reason = "no verification result (timeout, crash or build error)"
    return res


def run_harnesses(scratch, harnesses, timeout, jobs=None, extra=None):
    """One `cargo kani` invocation for all harnesses. Returns {harness: KaniResult}, raw output."""
    if not harnesses:
        return {}, ""
    seed_target(scratch)
    jobs = jobs or min(NCPU, len(harnesses))
    cmd = ["cargo", "kani"] + KANI_FLAGS + ["-j", str(jobs), "--exact"]
    for h in harnesses:
        cmd += ["--harness", h]
    if extra:
        cmd += extra
    t0 = time.time()
    rc, out, secs = run(cmd, cwd=scratch.repo, timeout=timeout)
    try:
        d = os.path.join(CACHE, "logs")
        os.makedirs(d, exist_ok=True)
        open(os.path.join(d, "kani-%s-%d.log" % (os.path.basename(scratch.root), len(harnesses))), "w").write(out)
    except OSError:
        pass
    res = _parse(out, harnesses)
    if rc == -9:
        for r in res.values():
            if r.status == "undecided" and not r.reason.startswith("vacuity"):
                r.reason = "timeout after %ds" % timeout
    build_err = re.search(r"^error(\[E\d+\])?:.*$", out, re.M)
    if build_err and not any(r.status != "undecided" for r in res.values()):
        blocks = []
        lines = out.splitlines()
        for i, l in enumerate(lines):
            if re.match(r"^error(\[E\d+\])?:", l) and "could not compile" not in l and "Failed to execute" not in l:
                blocks.append("\n".join(lines[i:i + 14]))
        raise BuildFailed("kani build failed:\n%s" % "\n---\n".join(blocks[:5]), overlay_files_in_errors(out))
    m = re.search(r"Failed to match the following harness", out)
    if m or "no harnesses matched" in out.lower():
        raise Undecided("kani did not find harnesses: %s" % _tail(out, 15))
    return res, out


def _tail(s, n):
    return "\n".join(s.splitlines()[-n:])


def counterexample(scratch, harness, timeout):
    """Re-run one failing harness with concrete playback; returns list of draws (list of byte lists)
    for the first failed assertion, the failed check text, and the raw output."""
    cmd = ["cargo", "kani"] + KANI_FLAGS + ["-Z", "concrete-playback", "--concrete-playback=print",
                                             "--exact", "--harness", harness]
    rc, out, secs = run(cmd, cwd=scratch.repo, timeout=timeout)
    draws = None
    check = None
    for m in re.finditer(r"/// Check for `([^`]*)`: ([^\n]*)\n(?:///[^\n]*\n)*#\[test\]\nfn \w+\(\) \{\n\s*let concrete_vals: Vec<Vec<u8>> = vec!\[(.*?)\n\s*\];", out, re.S):
        kind, desc, body = m.group(1), m.group(2), m.group(3)
        if kind == "cover":
            continue
        d = []
        for vm in re.finditer(r"vec!\[([0-9, ]*)\]", body):
            d.append([int(x) for x in vm.group(1).replace(" ", "").split(",") if x != ""])
        draws = d
        check = desc.strip().strip('"')
        break
    return draws, check, out


def native_replay(scratch, harness, draws, timeout=900):
    """Run the harness body natively (real code, dev profile: overflow checks + debug assertions on)
    on the recorded draws. Returns (reproduced: bool|None, output)."""
    modpath = "asefile::" + re.sub(r"::k$", "", harness)
    test = re.sub(r"::k$", "", harness) + "::replay"
    env = {"RUSTFLAGS": "--cfg asefile_verif", "VERIF_REPLAY_HARNESS": modpath,
           "VERIF_REPLAY_DRAWS": ";".join(",".join(str(b) for b in d) for d in draws),
           "CARGO_TARGET_DIR": os.path.join(scratch.root, "target-native")}
    rc, out, secs = run(["cargo", "test", "--offline", "--lib", "--features", "utils", "--", test, "--exact", "--nocapture",
                         "--test-threads", "1"], cwd=scratch.repo, env=env, timeout=timeout)
    if "REPLAY-INVALID" in out:
        return None, out
    if "REPLAY-PASSED" in out and rc == 0:
        return False, out
    if rc != 0 and re.search(r"panicked at", out):
        return True, out
    return None, out
