"""Engine X: bounded stand-ins that execute the real code (in-crate tests under --cfg asefile_verif).
Never counted as proved; every obligation carries its bound."""
import os, re, json, shutil
import common
from common import log, Undecided, BuildFailed, overlay_files_in_errors, VERIF, CACHE, NCPU


def _env(scratch, ctx):
    xout = os.path.join(VERIF, "replays", "inputs") if common.REPO.rstrip("/") == "/repo" else os.path.join(os.environ.get("VERIF_REPLAY_DIR", "/var/tmp/verif-alt/replays"), "inputs")
    os.makedirs(xout, exist_ok=True)
    return {"RUSTFLAGS": "--cfg asefile_verif", "CARGO_TARGET_DIR": os.path.join(scratch.root, "target-native"),
            # optimised but with overflow checks and debug assertions (the test profile keeps both on)
            "CARGO_PROFILE_TEST_OPT_LEVEL": os.environ.get("VERIF_X_OPT", "2"), "CARGO_PROFILE_DEV_OPT_LEVEL": "2",
            "CARGO_PROFILE_TEST_DEBUG": "0", "CARGO_PROFILE_DEV_DEBUG": "0",
            "VERIF_TIER": ctx["tier"], "VERIF_SEED": str(ctx["seed"]), "VERIF_XOUT": xout, "VERIF_XTMP": scratch.root, "RUST_BACKTRACE": "0",
            "RUST_MIN_STACK": str(8 * 1024 * 1024)}


def seed_target(scratch):
    src = os.path.join(CACHE, "native-target")
    dst = os.path.join(scratch.root, "target-native")
    if os.path.isdir(src) and not os.path.exists(dst):
        common.run(["cp", "-a", src, dst])


def run(ctx, obls):
    scratch = ctx["scratch"]
    seed_target(scratch)
    names = ["verif_exec::%s::%s" % (o.extra["mod"], o.id) for o in obls]
    tmo = sum(o.timeout for o in obls) + 600
    cmd = ["cargo", "test", "--offline", "--lib", "--features", "utils", "--"] + names + \
          ["--exact", "--nocapture", "--test-threads", str(NCPU)]
    rc, out, secs = common.run(cmd, cwd=scratch.repo, env=_env(scratch, ctx), timeout=tmo)
    if re.search(r"^error(\[E\d+\])?:", out, re.M) and "test result:" not in out:
        lines = out.splitlines()
        blocks = ["\n".join(lines[i:i + 12]) for i, l in enumerate(lines) if re.match(r"^error(\[E\d+\])?:", l)]
        raise BuildFailed("engine X build failed:\n%s" % "\n---\n".join(blocks[:4]), overlay_files_in_errors(out))
    stats, fails = {}, {}
    for m in re.finditer(r"^XSTAT (\{.*\})\s*$", out, re.M):
        try:
            j = json.loads(m.group(1))
            stats[j["id"]] = j
        except ValueError:
            pass
    for m in re.finditer(r"^XFAIL (\{.*\})\s*$", out, re.M):
        try:
            j = json.loads(m.group(1))
            fails.setdefault(j["id"], []).append(j["what"])
        except ValueError:
            pass
    res = {}
    for o, name in zip(obls, names):
        st = stats.get(o.id)
        tm = re.search(r"^test %s \.\.\. (ok|FAILED)" % re.escape(name), out, re.M)
        oc = {"backend": "cargo test (test profile, opt-level 2, overflow checks + debug assertions on)", "bound": o.bound}
        if st:
            oc.update({"evaluations": st["evaluations"], "distinct_nontrivial": st["distinct_nontrivial"],
                       "samples": st.get("samples", []), "bound": st.get("bound") or o.bound})
        if st and st["failures"] == 0 and (tm is None or tm.group(1) == "ok") and rc in (0,) or \
                (st and st["failures"] == 0 and tm and tm.group(1) == "ok"):
            if st["evaluations"] == 0:
                oc.update({"status": "undecided", "reason": "vacuity guard: zero cases executed"})
            else:
                oc["status"] = "discharged"
        elif o.id in fails or (st and st["failures"] > 0):
            oc.update({"status": "failed", "reason": "; ".join(fails.get(o.id, [])[:3]) or "failing cases",
                       "failed_check": (fails.get(o.id) or ["?"])[0], "input_found": True,
                       "fingerprint": re.sub(r"\[input file: [^\]]*\]", "", (fails.get(o.id) or ["?"])[0])[:160],
                       "all_failures": fails.get(o.id, [])})
        else:
            # the test binary died, timed out or panicked outside a recorded failure
            pm = re.search(r"thread '%s'(?: \(\d+\))? panicked at ([^\n]*)\n([^\n]*)" % re.escape(name), out)
            if rc == -9:
                oc.update({"status": "undecided", "reason": "engine X timeout"})
            elif pm:
                oc.update({"status": "failed", "reason": "panic in %s: %s %s" % (o.id, pm.group(1), pm.group(2)),
                           "failed_check": pm.group(2)[:200], "input_found": True, "fingerprint": pm.group(2)[:120]})
            else:
                oc.update({"status": "undecided", "reason": "no XSTAT line for %s (test binary died?): %s" % (o.id, out[-800:])})
        oc["seconds"] = round(secs / max(1, len(obls)), 1)
        res[o.id] = oc
    return res


def witness_search(ctx, o):
    """For a failed modular (stub-based) or Verus obligation: look for a concrete failing input by
    running the paired bounded-exec obligation. Returns a short description or None."""
    import registry
    ws = o.witness
    if not ws:
        return None
    for w in ([ws] if isinstance(ws, str) else list(ws)):
        xo = registry.OBL.get(w if w in registry.OBL else "")
        if xo is None or xo.engine != "exec":
            continue
        try:
            r = run(ctx, [xo])[xo.id]
        except Undecided:
            continue
        if r.get("status") == "failed":
            return {"via": xo.id, "what": r.get("all_failures") or r.get("reason")}
    return None
