def run(ctx, obls):
    raise NotImplementedError


def witness_search(ctx, o):
    return None
