"""Obligation registry: every obligation id, its engine, label and tier, and which property uses it."""

TRUSTED_BASE = [
    "rustc, Kani 0.68 / CBMC 6.11 / CaDiCaL / Kissat, Verus 0.2026.09.13 / Z3, vstd",
    "overlay/spec/*: the oracles (file-format layout, Aseprite blend transcription, composition spec)",
    "verus/prelude.rs shims for image::Rgba / RgbaImage (assumed contracts of a dependency)",
    "std::io::{Read,Cursor}, byteorder, flate2/miniz_oxide, bitflags, image: executed or symbolically executed, not specified",
]
ASSUMPTIONS = [
    "machine arithmetic is modelled bit-precisely by Kani (CBMC) and as bounded integers with overflow obligations by Verus",
    "bounded-sym obligations are complete in field VALUES but fixed in SHAPE (entity counts, string lengths) - the bound is in each obligation",
    "bounded-exec obligations execute the real code on an enumerated/seeded family and are never counted as proved",
]


class Obl:
    def __init__(self, id, engine, claim, fns, label="proved", tier="quick", harness=None, timeout=600,
                 bound=None, solver="cadical", replayable=True, witness=None, **kw):
        self.id = id
        self.engine = engine
        self.claim = claim
        self.fns = fns
        self.label = label
        self.tier = tier
        self.harness = harness
        self.timeout = timeout
        self.bound = bound
        self.solver = solver
        self.replayable = replayable
        self.witness = witness
        self.extra = kw


OBL = {}
PROPS = {}


def K(id, file, claim, fns, **kw):
    """Kani obligation: harness <file>::verif_overlay::<id>::k"""
    o = Obl(id, "kani", claim, fns, harness="%s::verif_overlay::%s::k" % (file, id), **kw)
    assert id not in OBL, id
    OBL[id] = o
    return o


def V(id, unit, claim, fns, **kw):
    o = Obl(id, "verus", claim, fns, unit=unit, **kw)
    assert id not in OBL, id
    OBL[id] = o
    return o


def X(id, claim, fns, **kw):
    kw.setdefault("label", "bounded-exec")
    o = Obl(id, "exec", claim, fns, **kw)
    assert id not in OBL, id
    OBL[id] = o
    return o


def S(id, claim, fns, **kw):
    o = Obl(id, "static", claim, fns, **kw)
    assert id not in OBL, id
    OBL[id] = o
    return o


def obligations_of(prop):
    return [OBL[i] for i in PROPS[prop]["obligations"]]


import obligations  # noqa: E402,F401  (fills OBL and PROPS)
