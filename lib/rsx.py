"""Mechanical extraction of Rust items from the scratch copy (text level, comment/string aware)."""
import re
from common import Undecided


def mask(text):
    """Return a string of the same length where comments, string and char literals are blanked."""
    out = list(text)
    i, n = 0, len(text)
    while i < n:
        c = text[i]
        if text.startswith("//", i):
            j = text.find("\n", i)
            j = n if j < 0 else j
            for k in range(i, j):
                out[k] = " "
            i = j
        elif text.startswith("/*", i):
            depth, j = 1, i + 2
            while j < n and depth:
                if text.startswith("/*", j):
                    depth += 1
                    j += 2
                elif text.startswith("*/", j):
                    depth -= 1
                    j += 2
                else:
                    j += 1
            for k in range(i, j):
                if out[k] != "\n":
                    out[k] = " "
            i = j
        elif c == '"':
            j = i + 1
            while j < n and text[j] != '"':
                j += 2 if text[j] == "\\" else 1
            for k in range(i + 1, min(j, n)):
                if out[k] != "\n":
                    out[k] = " "
            i = j + 1
        elif c == "r" and re.match(r'r#*"', text[i:i + 6]) and (i == 0 or not (text[i - 1].isalnum() or text[i - 1] == "_")):
            m = re.match(r'r(#*)"', text[i:])
            close = '"' + m.group(1)
            j = text.find(close, i + len(m.group(0)))
            j = n if j < 0 else j + len(close)
            for k in range(i, j):
                if out[k] != "\n":
                    out[k] = " "
            i = j
        elif c == "'":
            m = re.match(r"'(\\.[^']*|[^'\\])'", text[i:i + 12])
            if m:
                for k in range(i + 1, i + len(m.group(0)) - 1):
                    out[k] = " "
                i += len(m.group(0))
            else:
                i += 1  # lifetime
        else:
            i += 1
    return "".join(out)


def match_brace(m, i, open_c="{", close_c="}"):
    """m: masked text, i: index of the opening brace. Returns index of the matching close."""
    assert m[i] == open_c
    depth = 0
    for j in range(i, len(m)):
        if m[j] == open_c:
            depth += 1
        elif m[j] == close_c:
            depth -= 1
            if depth == 0:
                return j
    raise Undecided("unbalanced braces in extracted text")


def find_impl_blocks(text, m, type_name):
    """Yield (start, body_open, body_close) of every `impl ... type_name ... {` block."""
    for im in re.finditer(r"^\s*impl\b[^{;]*\b%s\b[^{;]*\{" % re.escape(type_name), m, re.M):
        o = im.end() - 1
        yield im.start(), o, match_brace(m, o)


def find_fn(text, name, impl_of=None, impl_filter=None):
    """Locate `fn name`. Returns dict(start, sig_start, body_open, body_close, sig, body)."""
    m = mask(text)
    lo, hi = 0, len(text)
    spans = [(lo, hi)]
    if impl_of:
        spans = [(o, c) for (_, o, c) in find_impl_blocks(text, m, impl_of)
                 if impl_filter is None or re.search(impl_filter, text[_:o])]
        if not spans:
            raise Undecided("lost anchor: impl block for %s" % impl_of)
    hits = []
    pat = re.compile(r"(?:^|(?<=[\s}]))((?:pub(?:\([^)]*\))?\s+)?(?:const\s+)?fn\s+%s\b)" % re.escape(name))
    for (lo, hi) in spans:
        for fm in pat.finditer(m, lo, hi):
            # depth relative to span must be 0 (for impl: directly inside the impl body; top level otherwise)
            seg = m[lo + (1 if impl_of else 0):fm.start()]
            if seg.count("{") - seg.count("}") != 0:
                continue
            hits.append(fm)
    if len(hits) != 1:
        raise Undecided("lost anchor: fn %s%s matched %d times" % (name, " in impl " + impl_of if impl_of else "", len(hits)))
    fm = hits[0]
    # body open: first '{' at paren depth 0 after the signature start
    i = fm.end()
    depth = 0
    while i < len(m):
        ch = m[i]
        if ch in "([":
            depth += 1
        elif ch in ")]":
            depth -= 1
        elif ch == "{" and depth == 0:
            break
        elif ch == ";" and depth == 0:
            raise Undecided("fn %s has no body" % name)
        i += 1
    bo = i
    bc = match_brace(m, bo)
    # include preceding attributes / doc comments? no – only the item itself
    return {"start": fm.start(1), "body_open": bo, "body_close": bc,
            "sig": text[fm.start(1):bo].rstrip(), "body": text[bo:bc + 1], "masked_body": m[bo:bc + 1]}


def find_struct(text, name):
    m = mask(text)
    sm = re.search(r"(?:pub(?:\([^)]*\))?\s+)?struct\s+%s\b[^;{(]*([{(;])" % re.escape(name), m)
    if not sm:
        raise Undecided("lost anchor: struct %s" % name)
    o = sm.end() - 1
    if m[o] == "{":
        c = match_brace(m, o)
        return text[sm.start():c + 1]
    if m[o] == "(":
        c = match_brace(m, o, "(", ")")
        semi = m.index(";", c)
        return text[sm.start():semi + 1]
    return text[sm.start():o + 1]


def struct_fields(struct_text):
    """[(vis, name, type)] of a braced struct."""
    m = mask(struct_text)
    o = m.index("{")
    inner = struct_text[o + 1:match_brace(m, o)]
    inner_m = m[o + 1:match_brace(m, o)]
    fields = []
    depth = 0
    cur = ""
    for ch, mc in zip(inner, inner_m):
        if mc in "<([{":
            depth += 1
        elif mc in ">)]}":
            depth -= 1
        if mc == "," and depth == 0:
            fields.append(cur)
            cur = ""
        else:
            cur += ch if mc != " " or ch == " " else " "
    if cur.strip():
        fields.append(cur)
    res = []
    for f in fields:
        f = re.sub(r"#\[[^\]]*\]", "", f).strip()
        fm = re.match(r"(pub(?:\([^)]*\))?\s+)?(\w+)\s*:\s*(.+)$", f, re.S)
        if fm:
            res.append((fm.group(1) or "", fm.group(2), " ".join(fm.group(3).split())))
    return res


def loops(masked_body):
    """Indices (relative to body) of loop keywords `for|while|loop` at statement level, in source order,
    with the index of the `{` that opens each loop body."""
    res = []
    for lm in re.finditer(r"\b(for|while|loop)\b", masked_body):
        kw = lm.group(1)
        if kw == "for":
            # exclude `for<'a>` (HRTB) and `impl X for Y`
            rest = masked_body[lm.end():lm.end() + 3]
            if rest.lstrip().startswith("<"):
                continue
        i = lm.end()
        depth = 0
        while i < len(masked_body):
            ch = masked_body[i]
            if ch in "([":
                depth += 1
            elif ch in ")]":
                depth -= 1
            elif ch == "{" and depth == 0:
                break
            i += 1
        res.append((lm.start(), i, kw))
    return res


def find_enum(text, name):
    m = mask(text)
    sm = re.search(r"(?:pub(?:\([^)]*\))?\s+)?enum\s+%s\b[^;{]*\{" % re.escape(name), m)
    if not sm:
        raise Undecided("lost anchor: enum %s" % name)
    o = sm.end() - 1
    c = match_brace(m, o)
    return text[sm.start():c + 1]
