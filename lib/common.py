"""Shared plumbing: paths, scratch copy of /repo with the add-only overlay, subprocess helpers."""
import os, re, shutil, subprocess, sys, time, json, hashlib, atexit, signal

VERIF = os.path.dirname(os.path.dirname(os.path.abspath(__file__)))
REPO = os.environ.get("VERIF_REPO", "/repo")
SCRATCH_BASE = os.environ.get("VERIF_SCRATCH", "/var/tmp")
CACHE = os.path.join(VERIF, ".cache")          # built by setup_cmd; never needed for correctness
NCPU = int(os.environ.get("VERIF_JOBS", str(os.cpu_count() or 4)))

SRC_FILES = ["blend", "cel", "color_profile", "error", "external_file", "file", "layer", "palette",
             "parse", "pixel", "reader", "slice", "tags", "tile", "tilemap", "tileset", "user_data", "util"]


class Undecided(Exception):
    """Tool limit / build error / lost anchor: never a violation. Driver exits 2."""


class BuildFailed(Undecided):
    """The overlay no longer compiles against the (edited) source. `files` = overlay files named by the
    compiler errors; they are lost anchors for THEIR obligations only - the build is retried without them."""

    def __init__(self, msg, files):
        Undecided.__init__(self, msg)
        self.files = files


def overlay_files_in_errors(out):
    """overlay file names (kani/<f>.rs, exec/<m>.rs) that rustc errors point into"""
    files = set()
    lines = out.splitlines()
    for i, l in enumerate(lines):
        if re.match(r"^error(\[E\d+\])?:", l):
            for k in range(i + 1, min(i + 8, len(lines))):
                m = re.search(r"-->\s*(\S*/overlay/(kani|exec)/(\w+)\.rs):\d+", lines[k])
                if m:
                    files.add("%s/%s" % (m.group(2), m.group(3)))
                    break
    return files


def log(*a):
    print(*a, file=sys.stderr, flush=True)


def run(cmd, cwd=None, env=None, timeout=None, stdin=None):
    """Run, capture combined output. Returns (rc, output, seconds). rc=-9 on timeout."""
    t0 = time.time()
    e = dict(os.environ)
    e.update({"CARGO_NET_OFFLINE": "true", "CARGO_TERM_COLOR": "never"})
    if env:
        e.update(env)
    try:
        p = subprocess.Popen(cmd, cwd=cwd, env=e, stdout=subprocess.PIPE, stderr=subprocess.STDOUT,
                             stdin=subprocess.DEVNULL if stdin is None else subprocess.PIPE,
                             start_new_session=True, text=True, errors="replace")
        try:
            out, _ = p.communicate(input=stdin, timeout=timeout)
            rc = p.returncode
        except subprocess.TimeoutExpired:
            try:
                os.killpg(p.pid, signal.SIGKILL)
            except ProcessLookupError:
                pass
            out, _ = p.communicate()
            rc = -9
    except FileNotFoundError as ex:
        raise Undecided("tool not found: %s" % ex)
    return rc, out, time.time() - t0


class Scratch:
    """A fresh copy of /repo's working tree outside /repo and /verif, with the overlay appended.

    The overlay is add-only: for every src/<f>.rs for which /verif/overlay/kani/<f>.rs exists one
    line `#[cfg(any(kani, asefile_verif))] #[path = ...] mod verif_overlay;` is appended; lib.rs gets
    the spec module and the exec (Engine X) module. Kani contract attributes listed in
    overlay/contracts.json are inserted immediately above the named fn. All original lines are kept
    byte-identical (asserted)."""

    def __init__(self, tag="run"):
        self.root = os.path.join(SCRATCH_BASE, "asefile-verif.%s.%d" % (tag, os.getpid()))
        self.repo = os.path.join(self.root, "repo")
        self.inserted = 0
        self.appended = 0
        self.excluded = set()     # "kani/<file>" / "exec/<module>" overlay parts dropped after a build failure
        atexit.register(self.cleanup)
        if os.path.exists(self.root):
            shutil.rmtree(self.root, ignore_errors=True)
        os.makedirs(self.root)
        self._copy()

    def _copy(self):
        rc, out, _ = run(["rsync", "-a", "--delete", "--exclude", "/target", "--exclude", "/.git",
                          REPO.rstrip("/") + "/", self.repo + "/"])
        if rc != 0:
            raise Undecided("rsync of %s failed: %s" % (REPO, out))
        os.makedirs(os.path.join(self.repo, ".cargo"), exist_ok=True)
        with open(os.path.join(self.repo, ".cargo", "config.toml"), "w") as f:
            f.write("[net]\noffline = true\n")
        self._overlay()

    def exclude(self, files):
        """Drop overlay parts that no longer compile and re-create the scratch sources."""
        new = set(files) - self.excluded
        if not new:
            return False
        self.excluded |= new
        self._copy()
        return True

    def cleanup(self):
        shutil.rmtree(self.root, ignore_errors=True)

    # ------------------------------------------------------------------ overlay
    def _overlay(self):
        src = os.path.join(self.repo, "src")
        contracts = {}
        cpath = os.path.join(VERIF, "overlay", "contracts.json")
        if os.path.exists(cpath):
            contracts = json.load(open(cpath))
        for f in SRC_FILES + ["lib"]:
            p = os.path.join(src, f + ".rs")
            if not os.path.exists(p):
                continue
            orig = open(p).read()
            text = orig
            # 1. contract attributes (Kani function contracts) above `fn name`
            for fn_name, attrs in contracts.get(f, {}).items():
                text = self._insert_attrs(text, f, fn_name, attrs)
            if not text.endswith("\n"):
                text += "\n"
            # 2. overlay module lines
            ov = os.path.join(VERIF, "overlay", "kani", f + ".rs")
            if f != "lib" and os.path.exists(ov) and ("kani/" + f) not in self.excluded:
                text += '#[cfg(any(kani, asefile_verif))]\n#[path = "%s"]\npub(crate) mod verif_overlay;\n' % ov
                self.appended += 1
            if f == "lib":
                # many #[kani::stub] attributes on one harness exceed the default macro recursion limit
                text = '#![cfg_attr(kani, recursion_limit = "1024")]\n' + text
                text += ('#[cfg(any(kani, asefile_verif))]\n#[path = "%s"]\npub(crate) mod verif_spec;\n'
                         % os.path.join(VERIF, "overlay", "spec", "mod.rs"))
                text += ('#[cfg(all(asefile_verif, test))]\n#[path = "%s"]\nmod verif_exec;\n' % self._exec_mod())
                text += ('#[cfg(asefile_verif_sendsync)]\n#[path = "%s"]\nmod verif_send_sync;\n'
                         % os.path.join(VERIF, "overlay", "exec", "send_sync.rs"))
                self.appended += 3
            self._assert_add_only(orig, text, p)
            open(p, "w").write(text)

    def _exec_mod(self):
        """Per-scratch copy of overlay/exec/mod.rs listing the modules by absolute path, minus excluded ones."""
        src = open(os.path.join(VERIF, "overlay", "exec", "mod.rs")).read()
        out = []
        for line in src.splitlines():
            m = re.match(r"^(pub )?mod (\w+);(.*)$", line)
            if m:
                if ("exec/" + m.group(2)) in self.excluded:
                    out.append("// excluded after a build failure: %s" % m.group(2))
                    continue
                out.append('#[path = "%s"]' % os.path.join(VERIF, "overlay", "exec", m.group(2) + ".rs"))
            out.append(line)
        p = os.path.join(self.root, "verif_exec_mod.rs")
        open(p, "w").write("\n".join(out) + "\n")
        return p

    def _insert_attrs(self, text, f, fn_name, attrs):
        # anchor: a line that declares `fn <name>(` or `fn <name><` at any visibility
        pat = re.compile(r"^([ \t]*)((pub(\([a-z]+\))?[ \t]+)?fn[ \t]+%s[ \t]*[<(])" % re.escape(fn_name), re.M)
        ms = list(pat.finditer(text))
        if len(ms) != 1:
            raise Undecided("lost anchor: fn %s in src/%s.rs matched %d times" % (fn_name, f, len(ms)))
        m = ms[0]
        ins = "".join("%s#[cfg_attr(kani, %s)]\n" % (m.group(1), a) for a in attrs)
        self.inserted += len(attrs)
        return text[:m.start()] + ins + text[m.start():]

    @staticmethod
    def _assert_add_only(orig, new, path):
        ol = orig.splitlines()
        nl = new.splitlines()
        i = 0
        for line in nl:
            if i < len(ol) and line == ol[i]:
                i += 1
        if i != len(ol):
            raise Undecided("overlay is not add-only for %s (internal error)" % path)


def repo_fingerprint():
    """sha256 over the working-tree sources that the checks read (for evidence)."""
    h = hashlib.sha256()
    for root, dirs, files in os.walk(os.path.join(REPO, "src")):
        dirs.sort()
        for fn in sorted(files):
            h.update(fn.encode())
            h.update(open(os.path.join(root, fn), "rb").read())
    return h.hexdigest()[:16]
