"""The check driver: selects the obligations of a property, runs the engines, classifies, writes
evidence and replay files, prints VIOLATION / KNOWN-FINDING lines.  Exit: 0 held, 1 violation, 2 undecided."""
import os, sys, json, time, argparse, hashlib, re
import common
from common import log, Undecided, VERIF, Scratch
import registry, kani, verus_engine, exec_engine, static_engine


def load_known():
    p = os.path.join(VERIF, "known_findings.json")
    if not os.path.exists(p):
        return {"findings": [], "fixed": []}
    return json.load(open(p))


def match_known(known, prop, obl_id, fingerprint):
    for f in known.get("findings", []):
        if f.get("property") == prop and f.get("obligation") == obl_id and \
                (f.get("fingerprint") in (None, "", fingerprint) or fingerprint.startswith(f.get("fingerprint", "\0"))):
            return f
    return None


def main(argv):
    ap = argparse.ArgumentParser()
    ap.add_argument("prop")
    ap.add_argument("--tier", default=os.environ.get("VERIF_TIER", "quick"), choices=["quick", "thorough"])
    ap.add_argument("--replay", default=None)
    ap.add_argument("--only", default=None, help="comma list of obligation ids (debugging)")
    ap.add_argument("--keep", action="store_true", help="keep scratch dir (debugging)")
    a = ap.parse_args(argv)
    prop = a.prop
    if prop not in registry.PROPS:
        log("unknown property", prop)
        return 2
    seed = int(os.environ.get("VERIF_SEED", "0") or 0)
    if a.replay:
        return replay(prop, a.replay)
    t0 = time.time()
    spec = registry.PROPS[prop]
    obls = [o for o in registry.obligations_of(prop) if a.tier == "thorough" or o.tier == "quick"]
    if a.only:
        want = set(a.only.split(","))
        obls = [o for o in obls if o.id in want]
    if not obls:
        log("no obligations selected for", prop)
        return 2
    # evidence / replays of runs against anything other than /repo itself (seed testing via VERIF_REPO) go elsewhere
    alt = common.REPO.rstrip("/") != "/repo"
    evid_dir = os.path.join(VERIF, "evidence") if not alt else os.environ.get("VERIF_EVIDENCE_DIR", "/var/tmp/verif-alt/evidence")
    os.makedirs(evid_dir, exist_ok=True)
    evid_path = os.path.join(evid_dir, prop + ".json")
    try:
        os.remove(evid_path)
    except OSError:
        pass
    outcomes = {}
    notes = []
    try:
        scratch = Scratch(prop)
        if a.keep:
            import atexit
            atexit.unregister(scratch.cleanup)
            log("scratch kept at", scratch.root)
        ctx = {"scratch": scratch, "tier": a.tier, "seed": seed, "prop": prop, "notes": notes}
        by_engine = {}
        for o in obls:
            by_engine.setdefault(o.engine, []).append(o)
        # engines are independent; run the cheap ones first so build errors surface early
        def part_of(o):
            if o.engine == "kani":
                return "kani/" + o.harness.split("::")[0]
            if o.engine == "exec":
                return "exec/" + o.extra.get("mod", "")
            return None
        for eng, mod in (("static", static_engine), ("verus", verus_engine), ("kani", kani_adapter), ("exec", exec_engine)):
            if eng not in by_engine:
                continue
            todo = list(by_engine[eng])
            for attempt in range(4):
                try:
                    outcomes.update(mod.run(ctx, todo))
                    break
                except common.BuildFailed as ex:
                    # overlay parts that no longer compile against the edited source are lost anchors for
                    # THEIR obligations only: drop them, rebuild the scratch copy, retry the rest
                    if ex.files and attempt < 3 and scratch.exclude(ex.files):
                        log("overlay parts no longer compile against the source (lost anchors): %s" % ", ".join(sorted(ex.files)))
                        notes.append("overlay parts excluded after a build failure: %s" % ", ".join(sorted(scratch.excluded)))
                        lost = [o for o in todo if part_of(o) in scratch.excluded]
                        for o in lost:
                            outcomes[o.id] = {"status": "undecided", "reason": "lost anchor: overlay %s no longer compiles against the source: %s" % (part_of(o), str(ex)[:300])}
                        todo = [o for o in todo if o not in lost]
                        if not todo:
                            break
                        continue
                    log("UNDECIDED engine %s (%s): %s" % (eng, prop, ex))
                    for o in todo:
                        outcomes.setdefault(o.id, {"status": "undecided", "reason": str(ex)[:600]})
                    break
                except Undecided as ex:
                    # a tool limit / lost anchor / build error of ONE engine must not hide what the others find
                    log("UNDECIDED engine %s (%s): %s" % (eng, prop, ex))
                    for o in todo:
                        outcomes.setdefault(o.id, {"status": "undecided", "reason": str(ex)[:600]})
                    break
    except Undecided as ex:
        log("UNDECIDED (%s): %s" % (prop, ex))
        write_evidence(prop, a.tier, seed, obls, outcomes, notes + ["UNDECIDED: %s" % ex], t0, evid_path, None)
        return 2

    known = load_known()
    violations = []
    known_hits = []
    undecided = []
    for o in obls:
        oc = outcomes.get(o.id)
        if oc is None:
            undecided.append((o, "no outcome"))
            continue
        if oc["status"] == "discharged":
            try:
                os.remove(os.path.join(VERIF, "replays", "%s-%s.json" % (prop, o.id)))  # stale replay of an earlier run
            except OSError:
                pass
            continue
        if oc["status"] == "undecided":
            undecided.append((o, oc.get("reason", "")))
            continue
        # failed: a named obligation that is recorded as discharged on the pinned tree now fails
        fp = oc.get("fingerprint") or ""
        kf = match_known(known, prop, o.id, fp)
        rp = write_replay(prop, o, oc)
        if kf:
            known_hits.append((o, kf, rp))
        else:
            violations.append((o, oc, rp))
    for o, kf, rp in known_hits:
        outcomes[o.id]["status"] = "known-finding"
        outcomes[o.id]["known_finding"] = kf.get("what", "")
    write_evidence(prop, a.tier, seed, obls, outcomes, notes, t0, evid_path, len(violations))
    for o, kf, rp in known_hits:
        print("KNOWN-FINDING: property=%s obligation=%s %s" % (prop, o.id, kf.get("what", "")), flush=True)
    for o, oc, rp in violations:
        tail = "" if oc.get("input_found") else " no-failing-input-found"
        print("VIOLATION property=%s replay=%s obligation=%s%s" % (prop, rp, o.id, tail), flush=True)
    if violations:
        return 1
    if undecided:
        for o, why in undecided:
            log("UNDECIDED obligation %s: %s" % (o.id, why))
        return 2
    n = len(obls) - len(known_hits)
    log("%s %s: %d/%d obligations discharged in %.0fs%s" % (prop, a.tier, n, n, time.time() - t0, (" (+%d known finding)" % len(known_hits)) if known_hits else ""))
    return 0


class kani_adapter:
    @staticmethod
    def run(ctx, obls):
        scratch = ctx["scratch"]
        out = {}
        harness_of = {o.id: o.harness for o in obls}
        tmo = max(o.timeout for o in obls) + 120
        res, raw = kani.run_harnesses(scratch, [o.harness for o in obls], timeout=tmo, jobs=int(os.environ.get('VERIF_KANI_JOBS', '0')) or None)
        ctx["notes"].append("kani: %d harnesses in one cargo-kani run" % len(obls))
        for o in obls:
            r = res[o.harness]
            oc = {"status": r.status if r.status != "failed" else "failed", "reason": r.reason, "seconds": round(r.seconds, 2),
                  "checks": r.checks, "covers": list(r.covers), "backend": "kani 0.68 / cbmc 6.11 / " + o.solver}
            if r.status == "failed":
                oc["failed_check"] = r.reason
                oc["verifier_output"] = kani._tail(r.raw, 30)
                oc["fingerprint"] = re.sub(r"\(/[^)]*\)", "", r.reason)[:200]
                oc["input_found"] = False
                if o.replayable:
                    # counterexample + native replay on the real code
                    draws, check, cex_out = kani.counterexample(scratch, o.harness, timeout=o.timeout + 120)
                    if check:
                        oc["failed_check"] = check
                        oc["fingerprint"] = check[:200]
                    if draws is not None:
                        rep, rep_out = kani.native_replay(scratch, o.harness, draws)
                        oc["draws"] = draws
                        oc["native_replay"] = {True: "reproduced (panic on the real code)", False: "did not reproduce natively",
                                               None: "inconclusive"}[rep]
                        oc["native_output"] = kani._tail(rep_out, 25)
                        oc["input_found"] = bool(rep)
                else:
                    oc["note"] = "harness uses stubs (uninterpreted callees / contracts); a counterexample would be over the abstraction, so a concrete input is searched with the paired bounded-exec obligation"
                if not oc["input_found"] and o.witness:
                    cache = ctx.setdefault("witness_cache", {})
                    wkey = o.witness if isinstance(o.witness, str) else tuple(o.witness)
                    if wkey not in cache:
                        cache[wkey] = exec_engine.witness_search(ctx, o)
                    w = cache[wkey]
                    if w:
                        oc["witness"] = w
                        oc["input_found"] = True
            out[o.id] = oc
        return out


def write_replay(prop, o, oc):
    d = os.path.join(VERIF, "replays") if common.REPO.rstrip("/") == "/repo" else os.environ.get("VERIF_REPLAY_DIR", "/var/tmp/verif-alt/replays")
    os.makedirs(d, exist_ok=True)
    p = os.path.join(d, "%s-%s.json" % (prop, o.id))
    rec = {"property": prop, "obligation": o.id, "engine": o.engine, "harness": getattr(o, "harness", None),
           "functions": o.fns, "label": o.label, "failed": oc.get("failed_check") or oc.get("reason"),
           "input_found": bool(oc.get("input_found")), "outcome": oc,
           "how_to_replay": "bin/check %s --replay %s" % (prop, p)}
    json.dump(rec, open(p, "w"), indent=1)
    return p


def replay(prop, path):
    rec = json.load(open(path))
    o = registry.OBL.get(rec["obligation"])
    if o is None:
        log("unknown obligation in replay file")
        return 2
    scratch = Scratch(prop + "r")
    oc = rec["outcome"]
    if o.engine == "kani" and oc.get("draws") is not None and o.replayable:
        rep, out = kani.native_replay(scratch, o.harness, oc["draws"])
        print(out[-3000:])
        if rep:
            print("VIOLATION property=%s replay=%s obligation=%s" % (prop, path, o.id))
            return 1
        return 0 if rep is False else 2
    if o.engine == "exec":
        import exec_engine
        # show what the real library does with the recorded failing input file(s), then re-run the obligation
        files = re.findall(r"\[input file: ([^\]]+)\]", json.dumps(oc))
        for fpath in files[:3]:
            if os.path.exists(fpath):
                env = exec_engine._env(scratch, {"tier": "quick", "seed": 0})
                env["VERIF_REPLAY_FILE"] = fpath
                rc, out, secs = common.run(["cargo", "test", "--offline", "--lib", "--features", "utils", "--", "verif_exec::x_total::x_replay_file",
                                            "--exact", "--nocapture"], cwd=scratch.repo, env=env, timeout=1800)
                for line in out.splitlines():
                    if line.startswith("REPLAY-"):
                        print(line)
    # re-run the single obligation (decides whether the violation still reproduces)
    return main([prop, "--tier", "thorough" if o.tier == "thorough" else "quick", "--only", o.id])


def write_evidence(prop, tier, seed, obls, outcomes, notes, t0, path, nviol):
    spec = registry.PROPS[prop]
    rows = []
    for o in obls:
        oc = outcomes.get(o.id, {"status": "not-run"})
        row = {"id": o.id, "engine": o.engine, "label": o.label, "status": oc.get("status"), "seconds": oc.get("seconds"),
               "backend": oc.get("backend"), "functions": o.fns, "claim": o.claim}
        for k in ("checks", "covers", "bound", "evaluations", "distinct_nontrivial", "rules_applied", "reason", "verus_functions"):
            if oc.get(k) not in (None, "", []):
                row[k] = oc[k]
        if o.bound:
            row["bound"] = o.bound
        rows.append(row)
    # an obligation that fails exactly as a recorded known finding is reported under `known_findings`; it is neither
    # counted as discharged nor as an obligation this run was expected to discharge
    kf_rows = [{"obligation": o.id, "what": outcomes[o.id].get("known_finding", ""), "failed_check": outcomes[o.id].get("failed_check", "")}
               for o in obls if outcomes.get(o.id, {}).get("status") == "known-finding"]
    n = len(obls) - len(kf_rows)
    disc = sum(1 for o in obls if outcomes.get(o.id, {}).get("status") == "discharged")
    by_label = {}
    for o in obls:
        if outcomes.get(o.id, {}).get("status") == "discharged":
            by_label[o.label] = by_label.get(o.label, 0) + 1
    evals = sum(int(outcomes.get(o.id, {}).get("evaluations") or 0) for o in obls)
    distinct = sum(int(outcomes.get(o.id, {}).get("distinct_nontrivial") or 0) for o in obls)
    fns = sorted({f for o in obls for f in o.fns})
    samples = []
    for o in obls[:6]:
        samples.append({"obligation": o.id, "claim": o.claim, "engine": o.engine, "label": o.label})
    for o in obls:
        s = outcomes.get(o.id, {}).get("samples")
        if s:
            samples.append({"obligation": o.id, "cases": s[:3]})
    cov = {
        "obligations": n, "discharged": disc,
        "discharged_by_label": by_label,
        "checker_cmd": "bin/check %s --tier %s  (cargo kani -Z function-contracts -Z stubbing --exact --harness ... | verus <extracted>.rs --output-json --time | cargo test verif_exec::...)" % (prop, tier),
        "trusted_base": registry.TRUSTED_BASE + spec.get("trusted", []),
        "functions_under_contract": fns,
        "obligation_table": rows,
        "known_findings": kf_rows,
        "samples": samples,
        "solver_seconds": round(sum(float(outcomes.get(o.id, {}).get("seconds") or 0) for o in obls), 1),
        "repo_fingerprint": common.repo_fingerprint(),
        "explanation": spec.get("explanation", ""),
        "notes": notes,
        "evaluations": max(evals, n),
        "distinct_nontrivial": max(distinct, min(n, disc)) if n >= 2 else max(distinct, 2 if disc else 0),
        "rule": "one case per obligation (a contract discharged for all inputs of its stated domain) plus, for bounded-exec obligations, the executed cases counted and hashed by the test itself",
        "exhaustive": False,
    }
    ev = {"property_id": prop, "tier": tier, "seed": seed, "level": spec["level"], "coverage": cov,
          "assumptions": registry.ASSUMPTIONS + spec.get("assumptions", []) + static_engine.scan_assumptions()
                         + ["Verus unit `%s` is checked under these assumptions (trusted shims, assumed contracts of dependencies / of functions proved in another unit): %s"
                            % (u, "; ".join(items)) for u, items in sorted(verus_engine.UNIT_TRUSTS.items())],
          "wall_s": round(time.time() - t0, 1)}
    if nviol is not None:
        ev["violations"] = nviol
    os.makedirs(os.path.dirname(path), exist_ok=True)
    json.dump(ev, open(path, "w"), indent=1)
