//! Contracts for src/tileset.rs (C01 tileset chunk header, C08 sizes).
#![allow(dead_code, unused_imports)]
use super::*;
use crate::verif_spec::fmt;
use crate::verif_spec::src::Src;

pub(crate) fn check_tileset_head(data: &[u8]) -> bool {
    // flag FILE_INCLUDES_TILES (bit 1) is assumed off by the caller: pixel data goes through zlib (Engine X)
    let got = Tileset::<RawPixels>::parse_chunk(data, PixelFormat::Rgba);
    let decoded_ok = got.is_ok();
    match (&got, fmt::tileset_head(data)) {
        (Ok(t), Some(w)) => {
            if w.tile_w == 0 || w.tile_h == 0 {
                assert!(false, "a zero tile size must be rejected (tile lookups divide by it)");
            }
            // Tileset::image() is documented to be tile_height * tile_count pixels high: that must be a u32
            assert!(w.tile_count as u64 * w.tile_h as u64 <= u32::MAX as u64, "a tileset whose strip image is higher than u32::MAX rows must be rejected");
            assert!(t.id == w.id && t.tile_count == w.tile_count, "tileset id and tile count");
            assert!(t.tile_size.width() == w.tile_w && t.tile_size.height() == w.tile_h, "tile size");
            assert!(t.base_index == w.base_index, "base index (signed)");
            assert!(t.empty_tile_is_id_zero == (w.flags & 4 != 0), "empty-tile flag");
            assert!(t.name.as_bytes() == &data[w.name.0..w.name.1], "tileset name");
            match (&t.external_file, w.external) {
                (None, None) => {}
                (Some(e), Some((f, i))) => assert!(e.external_file_id().value() == f && e.tileset_id() == i, "external file reference"),
                _ => assert!(false, "external reference present iff flag bit 0"),
            }
            assert!(t.pixels.is_none(), "no pixels without flag bit 1");
        }
        (Err(_), None) => {}
        (Err(_), Some(w)) => assert!(w.tile_w == 0 || w.tile_h == 0 || w.tile_count as u64 * w.tile_h as u64 > u32::MAX as u64, "decoder rejected a well-formed tileset header"),
        (Ok(_), None) => assert!(false, "decoder accepted a tileset chunk the format rejects"),
    }
    core::mem::forget(got); // dropping io::Error (bit-packed pointer repr) is very expensive for CBMC
    decoded_ok
}

macro_rules! tileset_shape {
    ($hname:ident, $n:expr, $u:expr, $can_ok:expr, [$([$(($off:expr, $val:expr)),*]),*]) => {
        crate::verif_harness! {
            /// Tileset::parse_chunk (header part: FILE_INCLUDES_TILES clear) on every payload of exactly $n bytes.
            /// Length fields of strings are pinned to the listed concrete values (one decoder run per pin set); every other byte is symbolic.
            #[kani::stub(std::fmt::format, crate::verif_spec::stubs::format_stub)]
            #[kani::unwind($u)]
            fn $hname(s) {
                let mut d: [u8; $n] = s.bytes();
                d[4] &= !2; // FILE_INCLUDES_TILES off (pixel data goes through zlib: Engine X)
                $(
                    $( crate::verif_spec::pin16(&mut d, $off, $val); )*
                    let ok = check_tileset_head(&d);
                    crate::vcover!(ok || !$can_ok, "a well-formed payload decodes");
                    crate::vcover!(!ok, "a malformed payload is rejected");
                )*
            }
        }
    };
}
tileset_shape!(k_tileset_head_33, 33, 4, false, [[]]); // too short for the name length
tileset_shape!(k_tileset_head_34, 34, 4, true, [[(32, 0)]]); // empty name
tileset_shape!(k_tileset_head_44, 44, 5, true, [[(32, 2)], [(32, 0)]]); // 2-byte name + external reference / trailing bytes

crate::verif_harness! {
    /// TileSize::pixels_per_tile == width*height for all u16^2 (fits u32: 65535^2 < 2^32).
    fn k_pixels_per_tile(s) {
        let (w, h) = (s.u16(), s.u16());
        let sz = TileSize { width: w, height: h };
        assert!(sz.pixels_per_tile() as u64 == w as u64 * h as u64, "pixels per tile = w*h");
        let (a, b): (u32, u32) = sz.into();
        assert!(a == w as u32 && b == h as u32, "(width, height) conversion");
    }
}
