//! Contracts for src/tilemap.rs (C08 tilemap header, C15 bits per tile; TilemapData::tile is proved by Verus).
#![allow(dead_code, unused_imports)]
use super::*;
use crate::verif_spec::fmt;
use crate::verif_spec::src::Src;

crate::verif_harness! {
    /// TilemapData::parse_chunk on every 32-byte tilemap header followed by no tile data: any
    /// bits-per-tile value other than 32 is refused as unsupported; with 32 bits the decoder proceeds
    /// to the (here missing or empty) compressed tile data.
    #[kani::stub(std::fmt::format, crate::verif_spec::stubs::format_stub)]
    #[kani::unwind(14)]
    fn k_tilemap_bits(s) {
        let d: [u8; 6] = s.bytes();
        let bits = fmt::le_u16(&d, 4).unwrap();
        s.assume(bits != 32);
        let r = TilemapData::parse_chunk(AseReader::new(&d));
        match r {
            Err(AsepriteParseError::UnsupportedFeature(_)) => {}
            _ => assert!(false, "a tilemap with other than 32 bits per tile is refused as unsupported"),
        }
        let r5 = TilemapData::parse_chunk(AseReader::new(&d[..5]));
        assert!(r5.is_err(), "truncated tilemap header is an error");
    }
}

crate::verif_harness! {
    /// TileBitmaskHeader::parse reads four little-endian dwords in the order id, x flip, y flip, rotation.
    #[kani::stub(std::fmt::format, crate::verif_spec::stubs::format_stub)]
    fn k_tile_bitmask_header(s) {
        let d: [u8; 16] = s.bytes();
        let mut r = AseReader::new(&d);
        let h = match TileBitmaskHeader::parse(&mut r) {
            Ok(h) => h,
            Err(_) => { assert!(false, "sixteen bytes are a bitmask header"); return; }
        };
        assert!(Some(h.tile_id) == fmt::le_u32(&d, 0) && Some(h.x_flip) == fmt::le_u32(&d, 4) && Some(h.y_flip) == fmt::le_u32(&d, 8) && Some(h.rotate_90cw) == fmt::le_u32(&d, 12), "bitmask header layout");
        let mut r2 = AseReader::new(&d[..15]);
        assert!(TileBitmaskHeader::parse(&mut r2).is_err(), "short header is an error");
    }
}
