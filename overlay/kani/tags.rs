//! Contracts for src/tags.rs (C01 tags chunk decode, C15 animation direction).
#![allow(dead_code, unused_imports)]
use super::*;
use crate::verif_spec::fmt;
use crate::verif_spec::src::Src;

crate::verif_harness! {
    /// parse_animation_direction: for all u8, Ok iff id <= 2 with 0 forward, 1 reverse, 2 ping-pong.
    #[kani::stub(std::fmt::format, crate::verif_spec::stubs::format_stub)]
    fn k_parse_animation_direction(s) {
        let id = s.u8();
        match parse_animation_direction(id) {
            Ok(AnimationDirection::Forward) => assert!(id == 0, "0 forward"),
            Ok(AnimationDirection::Reverse) => assert!(id == 1, "1 reverse"),
            Ok(AnimationDirection::PingPong) => assert!(id == 2, "2 ping-pong"),
            Err(_) => assert!(id > 2, "unknown directions are refused"),
        }
        crate::vcover!(id == 2, "pingpong");
        crate::vcover!(id == 3, "refused");
    }
}

fn dir_id(d: AnimationDirection) -> u8 {
    match d {
        AnimationDirection::Forward => 0,
        AnimationDirection::Reverse => 1,
        AnimationDirection::PingPong => 2,
    }
}

/// Postcondition of tags::parse_chunk against the layout: Ok iff the declared number of tags can be
/// read (layout, UTF-8, direction <= 2), and then tag k has the attributes stored at its position, in file order.
pub(crate) fn check_tags_chunk(data: &[u8]) -> bool {
    let got = parse_chunk(data);
    let decoded_ok = got.is_ok();
    // spec walk
    let mut want: Option<usize> = None; // number of tags when well-formed
    let mut ok = true;
    let mut offs = [0usize; 16];
    if let Some(n) = fmt::tags_count(data) {
        let mut p = 10;
        let mut k = 0usize;
        while k < n as usize {
            if k >= 16 {
                ok = false; // more tags than this harness shape can hold: must fail on these sizes
                break;
            }
            match fmt::tag_at(data, p) {
                Some((_, next)) => {
                    offs[k] = p;
                    p = next;
                }
                None => {
                    ok = false;
                    break;
                }
            }
            k += 1;
        }
        if ok {
            want = Some(n as usize);
        }
    }
    match (&got, want) {
        (Ok(tags), Some(n)) => {
            assert!(tags.len() == n, "one tag per declared entry");
            let mut k = 0;
            while k < n {
                let (w, _) = fmt::tag_at(data, offs[k]).unwrap();
                let t = &tags[k];
                assert!(t.from_frame == w.from && t.to_frame == w.to, "tag from/to frames in file order");
                assert!(dir_id(t.animation_direction) == w.dir, "tag direction");
                assert!(t.repeat == w.repeat, "tag repeat count");
                assert!(t.name.as_bytes() == &data[w.name.0..w.name.1], "tag name");
                assert!(t.user_data.is_none(), "no user data before a user data chunk");
                k += 1;
            }
        }
        (Err(_), None) => {}
        (Ok(_), None) => assert!(false, "decoder accepted a tags chunk the format rejects"),
        (Err(_), Some(_)) => assert!(false, "decoder rejected a well-formed tags chunk"),
    }
    core::mem::forget(got); // dropping io::Error (bit-packed pointer repr) is very expensive for CBMC
    decoded_ok
}

macro_rules! tags_shape {
    ($hname:ident, $n:expr, $u:expr, $can_ok:expr, [$([$(($off:expr, $val:expr)),*]),*]) => {
        crate::verif_harness! {
            /// tags::parse_chunk on every payload of exactly $n bytes: one tag per declared entry with its attributes in file order.
            /// Length fields of strings are pinned to the listed concrete values (one decoder run per pin set); every other byte is symbolic.
            #[kani::stub(std::fmt::format, crate::verif_spec::stubs::format_stub)]
            #[kani::unwind($u)]
            fn $hname(s) {
                let mut d: [u8; $n] = s.bytes();
                $(
                    $( crate::verif_spec::pin16(&mut d, $off, $val); )*
                    let ok = check_tags_chunk(&d);
                    crate::vcover!(ok || !$can_ok, "a well-formed payload decodes");
                    crate::vcover!(!ok, "a malformed payload is rejected");
                )*
            }
        }
    };
}
tags_shape!(k_tags_chunk_10, 10, 3, true, [[]]); // zero tags
tags_shape!(k_tags_chunk_30, 30, 4, true, [[(27, 1)], [(27, 0)], [(27, 2)]]); // one tag
tags_shape!(k_tags_chunk_49, 49, 4, true, [[(27, 0), (46, 1)], [(27, 1), (47, 0)]]); // two tags
