//! Contracts for src/file.rs (C02, C03 dispatch table, C19 constructors).
#![allow(dead_code, unused_imports)]
use super::*;
use crate::verif_spec::src::Src;
use image::Rgba;

pub(crate) use crate::layer::verif_overlay::mode_id;

// NOTE: `blend_mode_to_blend_fn` cannot be compiled by Kani 0.68 (internal compiler error in
// codegen_local_fndef / assert_is_rust_box_like on `Box::new(<fn item>) as Box<dyn Fn>`), and Verus has
// no `dyn`. The dispatch table is therefore covered by the bounded-exec obligation x_mode_table.

/// access point for Engine X: the private dispatch table
pub(crate) fn table(mode: BlendMode) -> Box<dyn Fn(Color8, Color8, u8) -> Color8> {
    blend_mode_to_blend_fn(mode)
}
