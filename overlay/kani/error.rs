//! Contracts for src/error.rs (C14: io::Error -> IoError variant, exposed through Error::source).
#![allow(dead_code, unused_imports)]
use super::*;
use crate::verif_spec::src::Src;
use std::error::Error as _;

crate::verif_harness! {
    /// From<io::Error> yields the IoError variant carrying the same error kind, and source() is Some
    /// exactly for IoError.
    #[kani::stub(std::fmt::format, crate::verif_spec::stubs::format_stub)]
    fn k_error_mapping(s) {
        let k = s.u8();
        s.assume(k < 6);
        let kind = match k {
            0 => io::ErrorKind::UnexpectedEof,
            1 => io::ErrorKind::PermissionDenied,
            2 => io::ErrorKind::BrokenPipe,
            3 => io::ErrorKind::TimedOut,
            4 => io::ErrorKind::Other,
            _ => io::ErrorKind::ConnectionReset,
        };
        let e: AsepriteParseError = io::Error::from(kind).into();
        match &e {
            AsepriteParseError::IoError(inner) => assert!(inner.kind() == kind, "the I/O error is carried unchanged"),
            _ => assert!(false, "an io::Error becomes the IoError variant"),
        }
        assert!(e.source().is_some(), "IoError exposes its source");
        assert!(AsepriteParseError::InvalidInput(String::new()).source().is_none(), "other variants have no source");
        assert!(AsepriteParseError::UnsupportedFeature(String::new()).source().is_none(), "other variants have no source");
        core::mem::forget(e);
    }
}
