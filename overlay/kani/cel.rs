//! Contracts for src/cel.rs (C06 cel chunk decode, C15 cel type, C04 table growth, C02 frame_cels order).
#![allow(dead_code, unused_imports)]
use super::*;
use crate::verif_spec::fmt;
use crate::verif_spec::src::Src;

/// cel chunk header; linked and unknown cel types. The cel type is pinned per run (types 0/2/3 lead
/// into pixel payload readers / zlib and are covered by k_cel_raw_* and Engine X).
pub(crate) fn check_cel_chunk_small(data: &[u8], pf: PixelFormat) -> bool {
    let got = parse_chunk(data, pf);
    let decoded_ok = got.is_ok();
    match fmt::cel_header(data) {
        None => assert!(got.is_err(), "a cel chunk shorter than its 16-byte header is an error"),
        Some(h) => match h.cel_type {
            1 => match (&got, fmt::le_u16(data, 16)) {
                (Ok(c), Some(link)) => {
                    assert!(c.data.layer_index == h.layer_index && c.data.x == h.x && c.data.y == h.y && c.data.opacity == h.opacity, "cel header: layer index, signed offset, opacity");
                    assert!(matches!(c.content, CelContent::Linked(f) if f == link), "linked cel stores the frame it links to");
                    assert!(c.user_data.is_none(), "no user data yet");
                }
                (Err(_), None) => {}
                _ => assert!(false, "linked cel: Ok iff the frame position is present"),
            },
            0 | 2 | 3 => {}
            _ => assert!(got.is_err(), "unknown cel types are refused"),
        },
    }
    core::mem::forget(got);
    decoded_ok
}

macro_rules! cel_small {
    ($hname:ident, $n:expr, $u:expr, $can_ok:expr, [$($ty:expr),*]) => {
        crate::verif_harness! {
            /// cel::parse_chunk on every $n-byte payload whose cel type is one of the listed values
            /// (1 = linked, others unknown); all other bytes symbolic.
            #[kani::stub(std::fmt::format, crate::verif_spec::stubs::format_stub)]
            #[kani::unwind($u)]
            fn $hname(s) {
                let mut d: [u8; $n] = s.bytes();
                $(
                    crate::verif_spec::pin16(&mut d, 7, $ty);
                    let ok = check_cel_chunk_small(&d, PixelFormat::Rgba);
                    crate::vcover!(ok || !$can_ok || $ty != 1, "a linked cel decodes");
                    crate::vcover!(!ok || ($ty == 1 && $n >= 18), "a malformed payload is rejected");
                )*
            }
        }
    };
}
cel_small!(k_cel_chunk_18, 18, 9, true, [1, 4, 0xffff]);
cel_small!(k_cel_chunk_17, 17, 9, false, [1, 5]);
cel_small!(k_cel_chunk_15, 15, 9, false, [1]);

macro_rules! cel_raw {
    ($hname:ident, $n:expr, $pf:expr, $bpp:expr, [$(($w:expr, $h:expr)),*]) => {
        crate::verif_harness! {
            /// raw cel (type 0) on every $n-byte payload with the declared size pinned to the listed
            /// (width, height) values: Ok iff width*height*bpp bytes are present after the size words;
            /// header fields and the declared size are stored as read.
            #[kani::stub(std::fmt::format, crate::verif_spec::stubs::format_stub)]
            #[kani::unwind(40)]
            fn $hname(s) {
                let mut d: [u8; $n] = s.bytes();
                crate::verif_spec::pin16(&mut d, 7, 0);
                $(
                    crate::verif_spec::pin16(&mut d, 16, $w);
                    crate::verif_spec::pin16(&mut d, 18, $h);
                    let got = parse_chunk(&d, $pf);
                    let h = fmt::cel_header(&d).unwrap();
                    let need = ($w as usize) * ($h as usize) * $bpp;
                    match &got {
                        Ok(c) => {
                            assert!(need <= $n - 20, "accepted only if the declared pixel data is present");
                            assert!(c.data.layer_index == h.layer_index && c.data.x == h.x && c.data.y == h.y && c.data.opacity == h.opacity, "cel header fields");
                            match &c.content {
                                CelContent::Raw(ic) => assert!(ic.size.width == $w && ic.size.height == $h, "declared cel size stored"),
                                _ => assert!(false, "type 0 is a raw image cel"),
                            }
                        }
                        Err(_) => assert!(need > $n - 20, "rejected only if pixel data is missing"),
                    }
                    core::mem::forget(got);
                )*
            }
        }
    };
}
cel_raw!(k_cel_raw_rgba_28, 28, PixelFormat::Rgba, 4, [(2, 1), (1, 1), (0, 7), (3, 1), (65535, 65535)]);
cel_raw!(k_cel_raw_gray_24, 24, PixelFormat::Grayscale, 2, [(2, 1), (1, 3)]);
cel_raw!(k_cel_raw_indexed_23, 23, PixelFormat::Indexed { transparent_color_index: 0 }, 1, [(3, 1), (2, 2)]);

crate::verif_harness! {
    /// ImageSize::pixel_count == width*height for all u16^2, no overflow.
    fn k_pixel_count(s) {
        let w = s.u16();
        let h = s.u16();
        assert!(ImageSize { width: w, height: h }.pixel_count() as u64 == w as u64 * h as u64, "pixel count = w*h");
    }
}

crate::verif_harness! {
    /// CelsData table: for any insertion order of two cels into a 2-frame table (symbolic frame ids and
    /// layer indices <= 3): add_cel is Ok iff the frame exists and the slot is free; cel(frame,layer)
    /// returns exactly what was stored; frame_cels(f) yields the stored cels in increasing layer index.
    #[kani::stub(std::fmt::format, crate::verif_spec::stubs::format_stub)]
    #[kani::unwind(8)]
    fn k_cels_table(s) {
        let mut t: CelsData<u8> = CelsData::new(2);
        let (f1, l1, f2, l2) = (s.u16(), s.u16(), s.u16(), s.u16());
        s.assume(l1 <= 3 && l2 <= 3);
        let mk = |l: u16, tag: u8| RawCel { data: CelCommon { layer_index: l, x: 0, y: 0, opacity: tag }, content: CelContent::Linked(tag as u16), user_data: None };
        let r1 = t.add_cel(f1, mk(l1, 1));
        assert!(r1.is_ok() == (f1 < 2), "first insertion succeeds iff the frame exists");
        let r2 = t.add_cel(f2, mk(l2, 2));
        let clash = f1 < 2 && f1 == f2 && l1 == l2;
        assert!(r2.is_ok() == (f2 < 2 && !clash), "second insertion succeeds iff frame exists and slot free");
        let mut f = 0u16;
        while f < 2 {
            let mut l = 0u16;
            while l <= 4 {
                let want = if f1 == f && l1 == l { Some(1u8) } else if f2 == f && l2 == l && !clash { Some(2u8) } else { None };
                let got = t.cel(CelId { frame: f, layer: l }).map(|c| c.data.opacity);
                assert!(got == want, "cel(frame, layer) returns exactly the stored cel");
                l += 1;
            }
            // iteration order: increasing layer index whatever the insertion order
            let mut prev: i32 = -1;
            let mut count = 0;
            for (lid, c) in t.frame_cels(f) {
                assert!(lid as i32 > prev && c.data.layer_index as u32 == lid, "frame_cels yields increasing layer ids");
                prev = lid as i32;
                count += 1;
            }
            let expect = (f1 == f) as usize + (f2 == f && !clash) as usize;
            assert!(count == expect, "frame_cels yields every stored cel of the frame once");
            f += 1;
        }
        crate::vcover!(f1 == 1 && f2 == 1 && l1 > l2, "reverse insertion order");
        core::mem::forget(t);
    }
}
