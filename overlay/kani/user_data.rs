//! Contracts for src/user_data.rs (C10: text iff bit 0, colour iff bit 1).
#![allow(dead_code, unused_imports)]
use super::*;
use crate::verif_spec::fmt;
use crate::verif_spec::src::Src;

fn check_user_data(data: &[u8]) -> bool {
    let got = parse_userdata_chunk(data);
    let decoded_ok = got.is_ok();
    match (got, fmt::user_data(data)) {
        (Ok(u), Some(w)) => {
            match (&u.text, w.text) {
                (None, None) => {}
                (Some(t), Some((a, b))) => assert!(t.as_bytes() == &data[a..b], "text is the stored string"),
                _ => assert!(false, "text reported iff flag bit 0"),
            }
            assert!(u.color.map(|c| c.0) == w.color, "colour reported iff flag bit 1, with the stored RGBA");
        }
        (Err(_), None) => {}
        (Ok(_), None) => assert!(false, "decoder accepted a user data chunk the format rejects"),
        (Err(_), Some(_)) => assert!(false, "decoder rejected a well-formed user data chunk"),
    }
    decoded_ok
}

macro_rules! ud_shape {
    ($hname:ident, $n:expr, $u:expr, $can_ok:expr) => {
        crate::verif_harness! {
            /// parse_userdata_chunk on every payload of exactly $n bytes.
            #[kani::stub(std::fmt::format, crate::verif_spec::stubs::format_stub)]
            #[kani::unwind($u)]
            fn $hname(s) {
                let d: [u8; $n] = s.bytes();
                let ok = check_user_data(&d);
                crate::vcover!(ok || !$can_ok, "a well-formed payload of this size decodes");
                crate::vcover!(!ok, "a malformed payload of this size is rejected");
            }
        }
    };
}
ud_shape!(k_user_data_4, 4, 3, true);
ud_shape!(k_user_data_8, 8, 5, true);
ud_shape!(k_user_data_12, 12, 9, true);
