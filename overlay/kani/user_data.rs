//! Contracts for src/user_data.rs (C10: text iff bit 0, colour iff bit 1).
#![allow(dead_code, unused_imports)]
use super::*;
use crate::verif_spec::fmt;
use crate::verif_spec::src::Src;

fn check_user_data(data: &[u8]) {
    match (parse_userdata_chunk(data), fmt::user_data(data)) {
        (Ok(u), Some(w)) => {
            match (&u.text, w.text) {
                (None, None) => {}
                (Some(t), Some((a, b))) => assert!(t.as_bytes() == &data[a..b], "text is the stored string"),
                _ => assert!(false, "text reported iff flag bit 0"),
            }
            assert!(u.color.map(|c| c.0) == w.color, "colour reported iff flag bit 1, with the stored RGBA");
        }
        (Err(_), None) => {}
        (Ok(_), None) => assert!(false, "decoder accepted a user data chunk the format rejects"),
        (Err(_), Some(_)) => assert!(false, "decoder rejected a well-formed user data chunk"),
    }
}

macro_rules! ud_shape {
    ($hname:ident, $n:expr) => {
        crate::verif_harness! {
            /// parse_userdata_chunk on every payload of exactly $n bytes.
            #[kani::stub(std::fmt::format, crate::verif_spec::stubs::format_stub)]
            #[kani::unwind(8)]
            fn $hname(s) {
                let d: [u8; $n] = s.bytes();
                check_user_data(&d);
                crate::vcover!(parse_userdata_chunk(&d).map_or(false, |u| u.text.is_some() && u.color.is_some()), "both present");
                crate::vcover!(parse_userdata_chunk(&d).map_or(false, |u| u.text.is_none() && u.color.is_none()), "neither present");
            }
        }
    };
}
ud_shape!(k_user_data_4, 4);
ud_shape!(k_user_data_8, 8);
ud_shape!(k_user_data_12, 12);
