//! Contracts for src/user_data.rs (C10: text iff bit 0, colour iff bit 1).
#![allow(dead_code, unused_imports)]
use super::*;
use crate::verif_spec::fmt;
use crate::verif_spec::src::Src;

pub(crate) fn check_user_data(data: &[u8]) -> bool {
    let got = parse_userdata_chunk(data);
    let decoded_ok = got.is_ok();
    match (&got, fmt::user_data(data)) {
        (Ok(u), Some(w)) => {
            match (&u.text, w.text) {
                (None, None) => {}
                (Some(t), Some((a, b))) => assert!(t.as_bytes() == &data[a..b], "text is the stored string"),
                _ => assert!(false, "text reported iff flag bit 0"),
            }
            assert!(u.color.map(|c| c.0) == w.color, "colour reported iff flag bit 1, with the stored RGBA");
        }
        (Err(_), None) => {}
        (Ok(_), None) => assert!(false, "decoder accepted a user data chunk the format rejects"),
        (Err(_), Some(_)) => assert!(false, "decoder rejected a well-formed user data chunk"),
    }
    core::mem::forget(got); // dropping io::Error (bit-packed pointer repr) is very expensive for CBMC
    decoded_ok
}

macro_rules! ud_shape {
    ($hname:ident, $n:expr, $u:expr, [$($len:expr),*]) => {
        crate::verif_harness! {
            /// parse_userdata_chunk on every payload of exactly $n bytes whose bytes 4..6 (the text length when
            /// flag bit 0 is set) are one of the listed values; flags and everything else symbolic.
            #[kani::stub(std::fmt::format, crate::verif_spec::stubs::format_stub)]
            #[kani::unwind($u)]
            fn $hname(s) {
                let mut d: [u8; $n] = s.bytes();
                $(
                    crate::verif_spec::pin16(&mut d, 4, $len);
                    let ok = check_user_data(&d);
                    crate::vcover!(ok, "a well-formed payload decodes");
                )*
            }
        }
    };
}
ud_shape!(k_user_data_4, 4, 3, [0]);
ud_shape!(k_user_data_8, 8, 6, [0, 2, 3]);
ud_shape!(k_user_data_12, 12, 10, [2, 0, 7]);
