//! Contracts for src/tile.rs (C08 tile word decode through the bitmask header).
#![allow(dead_code, unused_imports)]
use super::*;
use crate::verif_spec::src::Src;

crate::verif_harness! {
    /// Tile::parse(bits, header): id = bits & header.tile_id; flags = (bits & mask) != 0 – all u32^5.
    /// Tile::new(chunk): reads the little-endian word of the 4 bytes.
    #[kani::stub(std::fmt::format, crate::verif_spec::stubs::format_stub)]
    fn k_tile_parse(s) {
        let h = TileBitmaskHeader { tile_id: s.u32(), x_flip: s.u32(), y_flip: s.u32(), rotate_90cw: s.u32() };
        let d: [u8; 4] = s.bytes();
        let bits = u32::from_le_bytes(d);
        let t = match Tile::new(&d, &h) {
            Ok(t) => t,
            Err(_) => { assert!(false, "four bytes are a tile word"); return; }
        };
        assert!(t.id() == bits & h.tile_id, "tile id = word & id mask");
        assert!(t.flip_x == (bits & h.x_flip != 0) && t.flip_y == (bits & h.y_flip != 0) && t.rotate_90cw == (bits & h.rotate_90cw != 0), "flags by mask");
        assert!(Tile::new(&d[..3], &h).is_err(), "a short tile word is an error");
        assert!(EMPTY_TILE.id() == 0, "the empty tile is tile 0");
    }
}
