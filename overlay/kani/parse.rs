//! Contracts for src/parse.rs: chunk type decode, pixel format decode, chunk byte budget (C01, C04, C07, C13, C15).
#![allow(dead_code, unused_imports)]
use super::*;
use crate::verif_spec::src::Src;

/// file-format spec: chunk type code -> kind ordinal (None = not a known chunk)
fn chunk_kind_spec(code: u16) -> Option<ChunkType> {
    Some(match code {
        0x0004 => ChunkType::OldPalette04,
        0x0011 => ChunkType::OldPalette11,
        0x2004 => ChunkType::Layer,
        0x2005 => ChunkType::Cel,
        0x2006 => ChunkType::CelExtra,
        0x2007 => ChunkType::ColorProfile,
        0x2008 => ChunkType::ExternalFiles,
        0x2016 => ChunkType::Mask,
        0x2017 => ChunkType::Path,
        0x2018 => ChunkType::Tags,
        0x2019 => ChunkType::Palette,
        0x2020 => ChunkType::UserData,
        0x2022 => ChunkType::Slice,
        0x2023 => ChunkType::Tileset,
        _ => return None,
    })
}

crate::verif_harness! {
    /// parse_chunk_type: for all 65536 codes, Ok(kind) exactly for the 14 chunk codes of the format
    /// specification (in particular 0x2006/0x2016/0x2017 map to the three ignorable kinds), Err otherwise.
    #[kani::stub(std::fmt::format, crate::verif_spec::stubs::format_stub)]
    fn k_parse_chunk_type(s) {
        let code = s.u16();
        match (parse_chunk_type(code), chunk_kind_spec(code)) {
            (Ok(k), Some(w)) => assert!(k == w, "chunk code maps to the kind the format specification names"),
            (Err(e), None) => assert!(matches!(e, AsepriteParseError::UnsupportedFeature(_)), "unknown chunk code is refused as unsupported"),
            _ => assert!(false, "Ok exactly for the 14 known chunk codes"),
        }
        crate::vcover!(code == 0x2006, "cel extra");
        crate::vcover!(code == 0x2023, "tileset");
        crate::vcover!(code == 0x2021, "unknown");
    }
}

crate::verif_harness! {
    /// parse_pixel_format: Ok iff depth in {8,16,32}; 8 -> Indexed{transparent index verbatim}, 16 -> Grayscale, 32 -> Rgba.
    #[kani::stub(std::fmt::format, crate::verif_spec::stubs::format_stub)]
    fn k_parse_pixel_format(s) {
        let depth = s.u16();
        let ti = s.u8();
        match parse_pixel_format(depth, ti) {
            Ok(PixelFormat::Indexed { transparent_color_index }) => assert!(depth == 8 && transparent_color_index == ti, "8 bpp -> indexed, index verbatim"),
            Ok(PixelFormat::Grayscale) => assert!(depth == 16, "16 bpp -> grayscale"),
            Ok(PixelFormat::Rgba) => assert!(depth == 32, "32 bpp -> rgba"),
            Err(_) => assert!(depth != 8 && depth != 16 && depth != 32, "other colour depths are refused"),
        }
        crate::vcover!(depth == 8, "indexed");
        crate::vcover!(depth == 24, "refused");
    }
}

crate::verif_harness! {
    /// check_chunk_bytes(size, avail): Ok iff 6 <= size <= avail, for all u32 x i64; hence `size - 6`
    /// in Chunk::read cannot underflow and the frame byte budget is never exceeded.
    #[kani::stub(std::fmt::format, crate::verif_spec::stubs::format_stub)]
    fn k_check_chunk_bytes(s) {
        let size = s.u32();
        let avail = s.i64();
        let ok = check_chunk_bytes(size, avail).is_ok();
        assert!(ok == (size >= 6 && (size as i64) <= avail), "Ok iff header fits and chunk fits the frame budget");
        if ok {
            assert!(size as usize >= CHUNK_HEADER_SIZE, "payload length size-6 does not underflow");
            assert!(avail - size as i64 >= 0, "budget stays non-negative");
        }
        crate::vcover!(ok, "accepted");
        crate::vcover!(!ok && size >= 6, "over budget");
    }
}

crate::verif_harness! {
    /// bytes_per_pixel / transparent_color_index accessors of PixelFormat
    fn k_pixel_format_accessors(s) {
        let ti = s.u8();
        assert!(PixelFormat::Rgba.bytes_per_pixel() == 4 && PixelFormat::Grayscale.bytes_per_pixel() == 2
            && (PixelFormat::Indexed { transparent_color_index: ti }).bytes_per_pixel() == 1, "bytes per pixel 4/2/1");
        assert!((PixelFormat::Indexed { transparent_color_index: ti }).transparent_color_index() == Some(ti), "transparent index reported");
        assert!(PixelFormat::Rgba.transparent_color_index().is_none() && PixelFormat::Grayscale.transparent_color_index().is_none(), "none for direct colour");
    }
}
