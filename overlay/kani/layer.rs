//! Contracts for src/layer.rs (C01 layer chunk decode, C15 enum refusals; compute_parents is proved by Verus).
#![allow(dead_code, unused_imports)]
use super::*;
use crate::verif_spec::fmt;
use crate::verif_spec::src::Src;

/// Aseprite's numeric id of a blend mode (file-format specification, layer chunk).
pub(crate) fn mode_id(m: BlendMode) -> u16 {
    match m {
        BlendMode::Normal => 0,
        BlendMode::Multiply => 1,
        BlendMode::Screen => 2,
        BlendMode::Overlay => 3,
        BlendMode::Darken => 4,
        BlendMode::Lighten => 5,
        BlendMode::ColorDodge => 6,
        BlendMode::ColorBurn => 7,
        BlendMode::HardLight => 8,
        BlendMode::SoftLight => 9,
        BlendMode::Difference => 10,
        BlendMode::Exclusion => 11,
        BlendMode::Hue => 12,
        BlendMode::Saturation => 13,
        BlendMode::Color => 14,
        BlendMode::Luminosity => 15,
        BlendMode::Addition => 16,
        BlendMode::Subtract => 17,
        BlendMode::Divide => 18,
    }
}

pub(crate) fn decode_blend_mode(id: u16) -> Result<BlendMode> {
    parse_blend_mode(id)
}

crate::verif_harness! {
    /// parse_blend_mode: for all u16 ids, Ok(mode numbered id) iff id <= 18, else Err.
    #[kani::stub(std::fmt::format, crate::verif_spec::stubs::format_stub)]
    fn k_parse_blend_mode(s) {
        let id = s.u16();
        match parse_blend_mode(id) {
            Ok(m) => assert!(id <= 18 && mode_id(m) == id, "blend mode id decodes to the mode with that number"),
            Err(_) => assert!(id > 18, "only ids above 18 are refused"),
        }
        crate::vcover!(id == 18, "divide");
        crate::vcover!(id == 19, "refused");
    }
}

crate::verif_harness! {
    /// parse_layer_type: 0 -> Image, 1 -> Group, 2 -> Tilemap(le_u32 of the next four bytes) or Err when
    /// they are missing, anything else -> Err; for all u16 ids and all 4-byte / 3-byte continuations.
    #[kani::stub(std::fmt::format, crate::verif_spec::stubs::format_stub)]
    fn k_parse_layer_type(s) {
        let id = s.u16();
        let d: [u8; 4] = s.bytes();
        let short = s.bool();
        let data: &[u8] = if short { &d[..3] } else { &d[..] };
        let mut rd = AseReader::new(data);
        match parse_layer_type(id, &mut rd) {
            Ok(LayerType::Image) => assert!(id == 0, "0 is an image layer"),
            Ok(LayerType::Group) => assert!(id == 1, "1 is a group layer"),
            Ok(LayerType::Tilemap(t)) => assert!(id == 2 && !short && Some(t) == fmt::le_u32(data, 0), "2 is a tilemap layer with its tileset index"),
            Err(_) => assert!(id > 2 || (id == 2 && short), "unknown layer types and truncated tileset index are refused"),
        }
        crate::vcover!(id == 2 && !short, "tilemap");
        crate::vcover!(id == 3, "refused");
    }
}

/// Field-by-field postcondition of `parse_chunk` against the layout in spec/fmt.rs.
pub(crate) fn check_layer_chunk(data: &[u8]) -> bool {
    let got = parse_chunk(data);
    let decoded_ok = got.is_ok();
    let want = fmt::layer(data);
    match (&got, want) {
        (Ok(l), Some(w)) => {
            assert!(l.flags.bits() == w.flags as u32, "flags = le_u16(0) restricted to the 7 defined bits");
            assert!(l.child_level == w.child_level, "child level = le_u16(4)");
            assert!(mode_id(l.blend_mode) == w.blend_mode, "blend mode = le_u16(10)");
            assert!(l.opacity == w.opacity, "opacity = byte 12");
            assert!(l.name.as_bytes() == &data[w.name.0..w.name.1], "name = length-prefixed UTF-8 at 16");
            match l.layer_type {
                LayerType::Image => assert!(w.layer_type == 0 && w.tileset_index.is_none(), "type 0"),
                LayerType::Group => assert!(w.layer_type == 1 && w.tileset_index.is_none(), "type 1"),
                LayerType::Tilemap(t) => assert!(w.layer_type == 2 && w.tileset_index == Some(t), "type 2 with tileset index after the name"),
            }
            assert!(l.user_data.is_none(), "no user data before a user data chunk");
        }
        (Err(_), None) => {}
        (Ok(_), None) => assert!(false, "decoder accepted a chunk the format rejects (short, bad enum or bad UTF-8)"),
        (Err(_), Some(_)) => assert!(false, "decoder rejected a well-formed layer chunk"),
    }
    core::mem::forget(got); // dropping io::Error (bit-packed pointer repr) is very expensive for CBMC
    decoded_ok
}

macro_rules! layer_shape {
    ($hname:ident, $n:expr, $u:expr, [$($len:expr),*]) => {
        crate::verif_harness! {
            /// layer::parse_chunk on every payload of exactly $n bytes whose NAME-LENGTH field is one of the
            /// listed values (every other byte symbolic): Ok iff the layout fits, enums are in range and
            /// the name is UTF-8, and then every stored attribute equals the layout read. No panic, no overflow.
            #[kani::stub(std::fmt::format, crate::verif_spec::stubs::format_stub)]
            #[kani::unwind($u)]
            fn $hname(s) {
                let mut d: [u8; $n] = s.bytes();
                $(
                    crate::verif_spec::pin16(&mut d, 16, $len);
                    let ok = check_layer_chunk(&d);
                    crate::vcover!(ok || ($len as usize) + 18 > $n, "a well-formed payload with this name length decodes");
                    crate::vcover!(!ok, "a malformed payload is rejected");
                )*
            }
        }
    };
}
layer_shape!(k_layer_chunk_17, 17, 3, [0]); // always too short
layer_shape!(k_layer_chunk_18, 18, 3, [0, 1, 0xffff]); // empty name; image / group
layer_shape!(k_layer_chunk_21, 21, 6, [3, 2, 4]); // 3-byte name incl. multi-byte UTF-8; slack byte; too long
layer_shape!(k_layer_chunk_24, 24, 6, [2, 0]); // tilemap layer with 2-byte name + tileset index; trailing bytes
