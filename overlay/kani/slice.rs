//! Contracts for src/slice.rs (C01 slice chunk decode incl. 9-slice and pivot flags).
#![allow(dead_code, unused_imports)]
use super::*;
use crate::verif_spec::fmt;
use crate::verif_spec::src::Src;

pub(crate) fn check_slice_chunk(data: &[u8]) -> bool {
    let got = parse_chunk(data);
    let decoded_ok = got.is_ok();
    let mut want: Option<(usize, u32)> = None;
    let mut offs = [0usize; 16];
    if let Some(h) = fmt::slice_head(data) {
        let mut p = h.keys_at;
        let mut ok = true;
        let mut k = 0usize;
        while k < h.num_keys as usize {
            if k >= 16 {
                ok = false;
                break;
            }
            match fmt::slice_key_at(data, p, h.flags) {
                Some((_, next)) => {
                    offs[k] = p;
                    p = next;
                }
                None => {
                    ok = false;
                    break;
                }
            }
            k += 1;
        }
        if ok {
            want = Some((h.num_keys as usize, h.flags));
        }
    }
    match (&got, want) {
        (Ok(sl), Some((n, flags))) => {
            let h = fmt::slice_head(data).unwrap();
            assert!(sl.name.as_bytes() == &data[h.name.0..h.name.1], "slice name");
            assert!(sl.keys.len() == n, "one key per declared entry");
            assert!(sl.user_data.is_none(), "no user data yet");
            let mut k = 0;
            while k < n {
                let (w, _) = fmt::slice_key_at(data, offs[k], flags).unwrap();
                let g = &sl.keys[k];
                assert!(g.from_frame == w.from_frame && g.origin == w.origin && g.size == w.size, "key frame / origin / size in file order");
                match (&g.slice9, w.slice9) {
                    (None, None) => {}
                    (Some(a), Some(b)) => assert!((a.center_x, a.center_y, a.center_width, a.center_height) == b, "9-slice centre"),
                    _ => assert!(false, "9-slice present iff flag bit 0"),
                }
                assert!(g.pivot == w.pivot, "pivot present iff flag bit 1, with its stored value");
                k += 1;
            }
        }
        (Err(_), None) => {}
        (Ok(_), None) => assert!(false, "decoder accepted a slice chunk the format rejects"),
        (Err(_), Some(_)) => assert!(false, "decoder rejected a well-formed slice chunk"),
    }
    core::mem::forget(got); // dropping io::Error (bit-packed pointer repr) is very expensive for CBMC
    decoded_ok
}

macro_rules! slice_shape {
    ($hname:ident, $n:expr, $u:expr, $can_ok:expr, [$([$(($off:expr, $val:expr)),*]),*]) => {
        crate::verif_harness! {
            /// slice::parse_chunk on every payload of exactly $n bytes (flags, key count and all key values symbolic).
            /// Length fields of strings are pinned to the listed concrete values (one decoder run per pin set); every other byte is symbolic.
            #[kani::stub(std::fmt::format, crate::verif_spec::stubs::format_stub)]
            #[kani::unwind($u)]
            fn $hname(s) {
                let mut d: [u8; $n] = s.bytes();
                $(
                    $( crate::verif_spec::pin16(&mut d, $off, $val); )*
                    let ok = check_slice_chunk(&d);
                    crate::vcover!(ok || !$can_ok, "a well-formed payload decodes");
                    crate::vcover!(!ok, "a malformed payload is rejected");
                )*
            }
        }
    };
}
slice_shape!(k_slice_chunk_14, 14, 4, true, [[(12, 0)]]); // no keys
slice_shape!(k_slice_chunk_34, 34, 4, true, [[(12, 0)]]); // one plain key
slice_shape!(k_slice_chunk_58, 58, 6, true, [[(12, 0)], [(12, 4)]]); // one key with 9-slice + pivot / two plain keys
