//! Contracts for src/pixel.rs (C06 pixel conversions).
#![allow(dead_code, unused_imports)]
use super::*;
use crate::verif_spec::src::Src;
use crate::palette::ColorPaletteEntry;

crate::verif_harness! {
    /// Grayscale (v,a) -> (v,v,v,a) and read_rgba verbatim, for all bytes.
    #[kani::stub(std::fmt::format, crate::verif_spec::stubs::format_stub)]
    fn k_gray_rgba(s) {
        let d: [u8; 4] = s.bytes();
        match Grayscale::new(&d[..2]) {
            Ok(g) => assert!(g.into_rgba() == Rgba([d[0], d[0], d[0], d[1]]), "grayscale (v,a) becomes (v,v,v,a)"),
            Err(_) => assert!(false, "two bytes are a grayscale pixel"),
        }
        match read_rgba(&d) {
            Ok(p) => assert!(p == Rgba(d), "RGBA pixels verbatim"),
            Err(_) => assert!(false, "four bytes are an RGBA pixel"),
        }
        assert!(Grayscale::new(&d[..1]).is_err() && read_rgba(&d[..3]).is_err(), "short pixels are errors");
    }
}

// (the Kani shape for Indexed::as_rgba was dropped: CBMC does not finish on hashbrown; the same contract is the Verus
// obligation v_indexed_as_rgba, unbounded. Harnesses do not build ColorPalette values by struct literal any more, so
// that a change of its fields cannot stop the overlay from compiling.)

macro_rules! from_bytes_shape {
    ($hname:ident, $n:expr) => {
        crate::verif_harness! {
            /// RawPixels::from_bytes on every $n-byte buffer, each format: RGBA in groups of 4, grayscale
            /// pairs, indexed bytes verbatim; Err iff the length is not a multiple of the pixel size.
            #[kani::stub(std::fmt::format, crate::verif_spec::stubs::format_stub)]
            #[kani::unwind(12)]
            fn $hname(s) {
                let d: [u8; $n] = s.bytes();
                match RawPixels::from_bytes(d.to_vec(), PixelFormat::Rgba) {
                    Ok(RawPixels::Rgba(v)) => {
                        assert!($n % 4 == 0 && v.len() == $n / 4, "one RGBA pixel per 4 bytes");
                        let mut i = 0;
                        while i < v.len() { assert!(v[i].0 == [d[4 * i], d[4 * i + 1], d[4 * i + 2], d[4 * i + 3]], "RGBA verbatim"); i += 1; }
                    }
                    Ok(_) => assert!(false, "RGBA format yields RGBA pixels"),
                    Err(_) => assert!($n % 4 != 0, "Err iff length is not a multiple of 4"),
                }
                match RawPixels::from_bytes(d.to_vec(), PixelFormat::Grayscale) {
                    Ok(RawPixels::Grayscale(v)) => {
                        assert!($n % 2 == 0 && v.len() == $n / 2, "one grayscale pixel per 2 bytes");
                        let mut i = 0;
                        while i < v.len() { assert!(v[i].into_rgba().0 == [d[2 * i], d[2 * i], d[2 * i], d[2 * i + 1]], "(v,a) pairs"); i += 1; }
                    }
                    Ok(_) => assert!(false, "grayscale format yields grayscale pixels"),
                    Err(_) => assert!($n % 2 != 0, "Err iff length is odd"),
                }
                match RawPixels::from_bytes(d.to_vec(), PixelFormat::Indexed { transparent_color_index: 0 }) {
                    Ok(RawPixels::Indexed(v)) => assert!(v[..] == d[..], "indexed bytes verbatim"),
                    _ => assert!(false, "indexed data always decodes"),
                }
            }
        }
    };
}
from_bytes_shape!(k_from_bytes_8, 8);
from_bytes_shape!(k_from_bytes_6, 6);
from_bytes_shape!(k_from_bytes_5, 5);
