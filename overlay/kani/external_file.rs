//! Contracts for src/external_file.rs (C01 external files chunk).
#![allow(dead_code, unused_imports)]
use super::*;
use crate::verif_spec::fmt;
use crate::verif_spec::src::Src;

pub(crate) fn check_ext_chunk(data: &[u8]) -> bool {
    let got = ExternalFile::parse_chunk(data);
    let decoded_ok = got.is_ok();
    let mut want: Option<usize> = None;
    let mut offs = [0usize; 16];
    if let Some(n) = fmt::external_files_count(data) {
        let mut p = 12;
        let mut ok = true;
        let mut k = 0usize;
        while k < n as usize {
            if k >= 16 {
                ok = false;
                break;
            }
            match fmt::external_file_at(data, p) {
                Some((_, _, next)) => {
                    offs[k] = p;
                    p = next;
                }
                None => {
                    ok = false;
                    break;
                }
            }
            k += 1;
        }
        if ok {
            want = Some(n as usize);
        }
    }
    match (&got, want) {
        (Ok(v), Some(n)) => {
            assert!(v.len() == n, "one entry per declared external file");
            let mut k = 0;
            while k < n {
                let (id, (a, b), _) = fmt::external_file_at(data, offs[k]).unwrap();
                assert!(v[k].id().value() == id && v[k].name().as_bytes() == &data[a..b], "external file id and name in file order");
                k += 1;
            }
        }
        (Err(_), None) => {}
        (Ok(_), None) => assert!(false, "decoder accepted an external files chunk the format rejects"),
        (Err(_), Some(_)) => assert!(false, "decoder rejected a well-formed external files chunk"),
    }
    core::mem::forget(got); // dropping io::Error (bit-packed pointer repr) is very expensive for CBMC
    decoded_ok
}

macro_rules! ext_shape {
    ($hname:ident, $n:expr, $u:expr, $can_ok:expr, [$([$(($off:expr, $val:expr)),*]),*]) => {
        crate::verif_harness! {
            /// ExternalFile::parse_chunk on every payload of exactly $n bytes (entry count symbolic: a huge declared count must not abort).
            /// Length fields of strings are pinned to the listed concrete values (one decoder run per pin set); every other byte is symbolic.
            #[kani::stub(std::fmt::format, crate::verif_spec::stubs::format_stub)]
            #[kani::unwind($u)]
            fn $hname(s) {
                let mut d: [u8; $n] = s.bytes();
                $(
                    $( crate::verif_spec::pin16(&mut d, $off, $val); )*
                    let ok = check_ext_chunk(&d);
                    crate::vcover!(ok || !$can_ok, "a well-formed payload decodes");
                    crate::vcover!(!ok, "a malformed payload is rejected");
                )*
            }
        }
    };
}
ext_shape!(k_ext_files_12, 12, 3, true, [[]]);
ext_shape!(k_ext_files_27, 27, 4, true, [[(24, 1)], [(24, 0)], [(24, 2)]]);
ext_shape!(k_ext_files_41, 41, 4, true, [[(24, 0), (38, 1)]]);
