//! Contracts for src/palette.rs (C11).
#![allow(dead_code, unused_imports)]
use super::*;
use crate::verif_spec::fmt;
use crate::verif_spec::src::Src;

crate::verif_harness! {
    /// scale_6bit_to_8bit: Err iff c >= 64; else (c<<2)|(c>>4): 0 -> 0, 63 -> 255, strictly monotone. All u8.
    #[kani::stub(std::fmt::format, crate::verif_spec::stubs::format_stub)]
    fn k_scale_6bit(s) {
        let c = s.u8();
        match (scale_6bit_to_8bit(c), fmt::scale6(c)) {
            (Ok(v), Some(w)) => {
                assert!(v == w, "6-bit component scaled by bit replication");
                if c == 0 { assert!(v == 0, "0 maps to 0"); }
                if c == 63 { assert!(v == 255, "63 maps to 255"); }
                if c > 0 {
                    assert!(scale_6bit_to_8bit(c - 1).map_or(false, |p| p < v), "strictly monotone");
                }
            }
            (Err(_), None) => assert!(c >= 64, "only values >= 64 are refused"),
            _ => assert!(false, "Ok iff the component is a 6-bit value"),
        }
        crate::vcover!(c == 63, "top");
        crate::vcover!(c == 64, "refused");
    }
}

/// new-format palette chunk: Ok iff header fits, last >= first and last-first+1 entries can be read;
/// then exactly the indices first..=last are present with the stored RGBA and optional name.
pub(crate) fn check_palette_chunk(data: &[u8], max_entries: u32) -> bool {
    let got = parse_chunk(data);
    let decoded_ok = got.is_ok();
    let mut want = false;
    let mut offs = [0usize; 16];
    let mut first = 0u32;
    let mut n = 0u32;
    if let Some(h) = fmt::palette_head(data) {
        let cnt = (h.last as u64) - (h.first as u64) + 1;
        if cnt <= max_entries as u64 {
            let mut p = 20;
            let mut ok = true;
            let mut k = 0;
            while k < cnt as usize {
                match fmt::palette_entry_at(data, p) {
                    Some((_, _, next)) => {
                        offs[k] = p;
                        p = next;
                    }
                    None => {
                        ok = false;
                        break;
                    }
                }
                k += 1;
            }
            if ok {
                want = true;
                first = h.first;
                n = cnt as u32;
            }
        }
    }
    match (&got, want) {
        (Ok(p), true) => {
            assert!(p.num_colors() == n, "one entry per index in first..=last");
            let mut k = 0u32;
            while k < n {
                let (rgba, name, _) = fmt::palette_entry_at(data, offs[k as usize]).unwrap();
                match p.color(first + k) {
                    None => assert!(false, "entry for every index of the stored range"),
                    Some(e) => {
                        assert!(e.id() == first + k && e.raw_rgba8() == rgba, "entry id and RGBA as stored");
                        match (e.name(), name) {
                            (None, None) => {}
                            (Some(g), Some((a, b))) => assert!(g.as_bytes() == &data[a..b], "entry name as stored"),
                            _ => assert!(false, "name present iff entry flag bit 0"),
                        }
                    }
                }
                k += 1;
            }
            if first > 0 {
                assert!(p.color(first - 1).is_none(), "nothing below the range");
            }
            assert!(first.checked_add(n).map_or(true, |x| p.color(x).is_none()), "nothing above the range");
        }
        (Err(_), false) => {}
        (Ok(_), false) => assert!(false, "decoder accepted a palette chunk the format rejects"),
        (Err(_), true) => assert!(false, "decoder rejected a well-formed palette chunk"),
    }
    core::mem::forget(got); // dropping io::Error (bit-packed pointer repr) is very expensive for CBMC
    decoded_ok
}

macro_rules! palette_shape {
    ($hname:ident, $n:expr, $u:expr, $can_ok:expr, [$([$(($off:expr, $val:expr)),*]),*]) => {
        crate::verif_harness! {
            /// palette::parse_chunk on every payload of exactly $n bytes (first/last index, entry flags, colours symbolic); no overflow for any first/last.
            /// Length fields of strings are pinned to the listed concrete values (one decoder run per pin set); every other byte is symbolic.
            #[kani::stub(std::fmt::format, crate::verif_spec::stubs::format_stub)]
            #[kani::unwind($u)]
            fn $hname(s) {
                let mut d: [u8; $n] = s.bytes();
                $(
                    $( crate::verif_spec::pin16(&mut d, $off, $val); )*
                    let ok = check_palette_chunk(&d, 4);
                    crate::vcover!(ok || !$can_ok, "a well-formed payload decodes");
                    crate::vcover!(!ok, "a malformed payload is rejected");
                )*
            }
        }
    };
}
palette_shape!(k_palette_chunk_20, 20, 4, false, [[]]); // header only
palette_shape!(k_palette_chunk_26, 26, 4, true, [[]]); // one unnamed entry
palette_shape!(k_palette_chunk_35, 35, 9, true, [[(26, 7)], [(26, 1)]]); // one named entry / named + unnamed

/// legacy chunks 0x0004 / 0x0011: opaque entries at the cumulative packet offsets (sum of the skip bytes).
pub(crate) fn check_old_chunk(data: &[u8], six_bit: bool) -> bool {
    let got = if six_bit { parse_old_chunk_11(data) } else { parse_old_chunk_04(data) };
    let decoded_ok = got.is_ok();
    // spec walk over <= 2 packets x <= 3 colours (bounded by the payload size of the harness)
    let mut ok = fmt::le_u16(data, 0).is_some();
    let mut expect: [(u32, [u8; 4]); 40] = [(0, [0; 4]); 40];
    let mut ne = 0usize;
    if ok {
        let packets = fmt::le_u16(data, 0).unwrap();
        let mut p = 2usize;
        let mut skip: u32 = 0;
        let mut k = 0;
        while k < packets {
            if p + 2 > data.len() {
                ok = false;
                break;
            }
            skip += data[p] as u32;
            let mut count = data[p + 1] as u32;
            if count == 0 {
                count = 256;
            }
            p += 2;
            let mut c = 0;
            while c < count {
                if p + 3 > data.len() || ne >= 40 {
                    ok = false;
                    break;
                }
                let mut rgb = [data[p], data[p + 1], data[p + 2]];
                if six_bit {
                    match (fmt::scale6(rgb[0]), fmt::scale6(rgb[1]), fmt::scale6(rgb[2])) {
                        (Some(a), Some(b), Some(cc)) => rgb = [a, b, cc],
                        _ => {
                            // the real decoder reports the first offending component in order r,g,b; any is an error
                            ok = false;
                            break;
                        }
                    }
                }
                expect[ne] = (skip + c, [rgb[0], rgb[1], rgb[2], 255]);
                ne += 1;
                p += 3;
                c += 1;
            }
            if !ok {
                break;
            }
            k += 1;
        }
    }
    match (&got, ok) {
        (Ok(p), true) => {
            // later packets overwrite earlier entries with the same index
            let mut i = 0;
            while i < ne {
                let (idx, rgba) = expect[i];
                let mut last = rgba;
                let mut j = i + 1;
                while j < ne {
                    if expect[j].0 == idx {
                        last = expect[j].1;
                    }
                    j += 1;
                }
                match p.color(idx) {
                    Some(e) => assert!(e.raw_rgba8() == last && e.id() == idx && e.name().is_none(), "legacy entry: opaque colour at skip offset + position"),
                    None => assert!(false, "legacy entry present at the cumulative offset"),
                }
                i += 1;
            }
            assert!(p.num_colors() as usize <= ne, "no entries beyond the packets");
        }
        (Err(_), false) => {}
        (Ok(_), false) => assert!(false, "legacy palette decoder accepted a chunk the format rejects"),
        (Err(_), true) => assert!(false, "legacy palette decoder rejected a well-formed chunk"),
    }
    core::mem::forget(got); // dropping io::Error (bit-packed pointer repr) is very expensive for CBMC
    decoded_ok
}

macro_rules! old_palette_shape {
    ($hname:ident, $n:expr, $six:expr, $u:expr, $can_ok:expr) => {
        crate::verif_harness! {
            /// legacy palette decoder on every payload of exactly $n bytes.
            #[kani::stub(std::fmt::format, crate::verif_spec::stubs::format_stub)]
            #[kani::unwind($u)]
            fn $hname(s) {
                let d: [u8; $n] = s.bytes();
                let ok = check_old_chunk(&d, $six);
                crate::vcover!(ok || !$can_ok, "a well-formed payload of this size decodes");
                crate::vcover!(!ok, "a malformed payload of this size is rejected");
            }
        }
    };
}
old_palette_shape!(k_old04_chunk_10, 10, false, 6, true); // one packet of two colours, or two packets ...
old_palette_shape!(k_old11_chunk_10, 10, true, 6, true);
old_palette_shape!(k_old04_chunk_2, 2, false, 3, true);
old_palette_shape!(k_old11_chunk_13, 13, true, 7, true);

// (the Kani shape for validate_indexed_pixels was dropped for the same reason; Verus obligation v_validate_indexed.)
