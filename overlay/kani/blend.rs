//! Contracts for src/blend.rs (C03, C17, part of C02).  Child module of `blend`, so the private
//! functions are called by path; nothing here re-implements them.
#![allow(dead_code, unused_imports, static_mut_refs)]
use super::*;
use crate::verif_spec::aseprite_ref as r;
use crate::verif_spec::src::Src;
use image::Rgba;

fn in8(x: i32) -> bool {
    (0..=255).contains(&x)
}

// =================================================================================================
// Leaves (K-full: loop-free, whole machine domain of the stated precondition) – label "proved"
// =================================================================================================

crate::verif_harness! {
    /// mul_un8: requires a,b in 0..=255 (every call site passes u8-ranged values);
    /// ensures result == MUL_UN8(a,b) == round(a*b/255) and that the `as u8` cast does not truncate.
    fn k_mul_un8(s) {
        let a = s.i32();
        let b = s.i32();
        s.assume(in8(a) && in8(b));
        let got = mul_un8(a, b) as i32;
        assert!(got == r::mul_un8(a, b), "mul_un8 == MUL_UN8");
        assert!(got == r::round8(a, b), "mul_un8 == round(a*b/255)");
        crate::vcover!(a == 255 && b == 255 && got == 255, "255*255");
        crate::vcover!(a == 0, "zero");
    }
}

crate::verif_harness! {
    /// div_un8: requires 0 <= a < b <= 255 (its three call sites guard exactly this);
    /// ensures result == DIV_UN8(a,b), which lies in 0..=255 (so `as u8` is exact).
    fn k_div_un8(s) {
        let a = s.i32();
        let b = s.i32();
        s.assume(0 <= a && a < b && b <= 255);
        let want = r::div_un8(a, b);
        assert!(in8(want), "DIV_UN8 in range under a<b");
        assert!(div_un8(a, b) as i32 == want, "div_un8 == DIV_UN8");
        crate::vcover!(a == 254 && b == 255, "near one");
    }
}

crate::verif_harness! {
    /// blend8(b,s,o) == b + MUL_UN8(s-b, o) for all u8^3, the sum lies in 0..=255, and blend8(a,a,t)==a.
    fn k_blend8(s) {
        let b = s.u8();
        let c = s.u8();
        let o = s.u8();
        let want = b as i32 + r::mul_un8(c as i32 - b as i32, o as i32);
        assert!(in8(want), "blend8 pre-cast value in 0..=255");
        assert!(blend8(b, c, o) as i32 == want, "blend8 == B + MUL_UN8(S-B, o)");
        if b == c {
            assert!(blend8(b, c, o) == b, "blend8(a,a,t) == a");
        }
        if o == 0 {
            assert!(blend8(b, c, o) == b, "blend8(b,s,0) == b");
        }
        if o == 255 {
            assert!(blend8(b, c, o) == c, "blend8(b,s,255) == s");
        }
        crate::vcover!(b > c && o > 0, "negative difference");
    }
}

macro_rules! channel_harness {
    ($hname:ident, $real:ident, $refn:path) => {
        crate::verif_harness! {
            /// channel function == Aseprite macro on 0..=255^2 and the macro's value is in 0..=255
            /// (hence the truncating `as u8` in the real function is exact).
            fn $hname(s) {
                let b = s.i32();
                let c = s.i32();
                s.assume(in8(b) && in8(c));
                let want = $refn(b, c);
                assert!(in8(want), "reference channel value in 0..=255");
                assert!($real(b, c) as i32 == want, "channel fn == Aseprite macro");
                crate::vcover!(want == 255, "saturates");
                crate::vcover!(want == 0, "zero");
            }
        }
    };
}
channel_harness!(k_ch_multiply, blend_multiply, r::blend_multiply);
channel_harness!(k_ch_screen, blend_screen, r::blend_screen);
channel_harness!(k_ch_overlay, blend_overlay, r::blend_overlay);
channel_harness!(k_ch_darken, blend_darken, r::blend_darken);
channel_harness!(k_ch_lighten, blend_lighten, r::blend_lighten);
channel_harness!(k_ch_color_dodge, blend_color_dodge, r::blend_color_dodge);
channel_harness!(k_ch_color_burn, blend_color_burn, r::blend_color_burn);
channel_harness!(k_ch_hard_light, blend_hard_light, r::blend_hard_light);
channel_harness!(k_ch_difference, blend_difference, r::blend_difference);
channel_harness!(k_ch_exclusion, blend_exclusion, r::blend_exclusion);
channel_harness!(k_ch_divide, blend_divide, r::blend_divide);

crate::verif_harness! {
    /// soft light (f64): result lies in 0..=255 for all 0..=255^2 (CBMC over-approximates sqrt, so
    /// equality with the reference is NOT claimed here – that is the bounded-exec obligation x_soft_light).
    fn k_ch_soft_light_range(s) {
        let b = s.i32();
        let c = s.i32();
        s.assume(in8(b) && in8(c));
        let got = blend_soft_light(b, c);
        assert!(in8(got), "blend_soft_light in 0..=255");
    }
}

crate::verif_harness! {
    /// merge == rgba_blender_merge for all (backdrop, src, opacity) in 2^72; alpha == blend8(Ba,Sa,o).
    fn k_merge(s) {
        let b = s.rgba();
        let c = s.rgba();
        let o = s.u8();
        let got = merge(b, c, o);
        assert!(got == r::merge(b, c, o as i32), "merge == rgba_blender_merge");
        assert!(got.0[3] == blend8(b.0[3], c.0[3], o), "alpha(merge) == blend8(Ba,Sa,o)");
        if b == c {
            assert!(got == b || (b.0[3] == 0 && got == Rgba([0, 0, 0, 0])), "merge(x,x,t) == x (up to rgb of a fully transparent pixel)");
        }
        crate::vcover!(got.0[3] == 0 && b.0[3] != 0, "result alpha 0");
    }
}

crate::verif_harness! {
    /// normal: alpha and the early-return laws, all inputs (cheap part of the contract).
    fn k_normal_alpha(s) {
        let b = s.rgba();
        let c = s.rgba();
        let o = s.u8();
        let got = normal(b, c, o);
        let (ba, sa) = (b.0[3] as i32, c.0[3] as i32);
        let ra = r::normal_alpha(ba, sa, o as i32);
        assert!(in8(ra), "alpha formula in 0..=255");
        assert!(got.0[3] as i32 == ra, "alpha(normal) == A(Ba,Sa,o) (independent of RGB)");
        if ba == 0 {
            assert!(got == Rgba([c.0[0], c.0[1], c.0[2], r::mul_un8(sa, o as i32) as u8]), "transparent backdrop: source colour, alpha scaled");
        } else if sa == 0 {
            assert!(got == b, "transparent source: backdrop unchanged");
        } else if r::mul_un8(sa, o as i32) == 0 {
            assert!(got == b, "zero opacity product over visible backdrop: unchanged");
        }
        if sa == 255 && o == 255 {
            assert!(got == c, "opaque source at full opacity returns the source");
        }
        crate::vcover!(ba != 0 && sa != 0 && ra == 255, "opaque result");
    }
}

macro_rules! normal_channel_harness {
    ($hname:ident, $ch:expr) => {
        crate::verif_harness! {
            /// normal == rgba_blender_normal on colour channel $ch (and alpha) for ALL backdrop / source
            /// pixels and opacities (the three harnesses together give equality of whole pixels).
            /// No overflow, no debug assertion fires.
            #[kani::solver(kissat)]
            fn $hname(s) {
                let b = s.rgba();
                let c = s.rgba();
                let o = s.u8();
                let got = normal(b, c, o);
                let want = r::normal(b, c, o as i32);
                assert!(got.0[$ch] == want.0[$ch], "normal channel == rgba_blender_normal channel");
                assert!(got.0[3] == want.0[3], "normal alpha == rgba_blender_normal alpha");
            }
        }
    };
}
normal_channel_harness!(k_normal_r, 0);
normal_channel_harness!(k_normal_g, 1);
normal_channel_harness!(k_normal_b, 2);

crate::verif_harness! {
    /// normal == rgba_blender_normal on all three channels at once (monolithic, thorough tier).
    #[kani::solver(kissat)]
    fn k_normal_full(s) {
        let b = s.rgba();
        let c = s.rgba();
        let o = s.u8();
        assert!(normal(b, c, o) == r::normal(b, c, o as i32), "normal == rgba_blender_normal");
    }
}

// =================================================================================================
// Wrappers, proved modularly: callees are replaced by UNINTERPRETED FUNCTIONS (memoised fresh
// nondeterministic values).  A harness that passes holds for every deterministic interpretation of
// the callee, in particular the real one; what is proved is the call structure around the callees.
// =================================================================================================
#[cfg(kani)]
pub(crate) mod uf {
    use super::*;
    const N: usize = 6;
    const Z: Color8 = Rgba([0, 0, 0, 0]);

    macro_rules! uf_table {
        ($fname:ident, $n:ident, $args:ident, $res:ident, ($($a:ident : $t:ty),*), $ret:ty, $zero_args:expr, $zero_res:expr, $fresh:expr, $eq:expr) => {
            pub static mut $n: usize = 0;
            pub static mut $args: [($($t,)*); N] = [$zero_args; N];
            pub static mut $res: [$ret; N] = [$zero_res; N];
            pub fn $fname($($a: $t),*) -> $ret {
                unsafe {
                    let key = ($($a,)*);
                    let mut i = 0;
                    while i < N {
                        if i < $n && $eq(&$args[i], &key) {
                            return $res[i];
                        }
                        i += 1;
                    }
                    assert!($n < N, "uninterpreted-function table large enough");
                    let v: $ret = $fresh;
                    $args[$n] = key;
                    $res[$n] = v;
                    $n += 1;
                    v
                }
            }
        };
    }
    fn any_color() -> Color8 {
        Rgba([kani::any(), kani::any(), kani::any(), kani::any()])
    }
    fn bits3(a: &(f64, f64, f64), b: &(f64, f64, f64)) -> bool {
        a.0.to_bits() == b.0.to_bits() && a.1.to_bits() == b.1.to_bits() && a.2.to_bits() == b.2.to_bits()
    }
    fn bits4(a: &(f64, f64, f64, f64), b: &(f64, f64, f64, f64)) -> bool {
        a.0.to_bits() == b.0.to_bits() && a.1.to_bits() == b.1.to_bits() && a.2.to_bits() == b.2.to_bits() && a.3.to_bits() == b.3.to_bits()
    }
    fn any_f64() -> f64 {
        f64::from_bits(kani::any())
    }
    uf_table!(normal_uf, NORMAL_N, NORMAL_ARGS, NORMAL_RES, (b: Color8, s: Color8, o: u8), Color8, (Z, Z, 0), Z, any_color(),
        |x: &(Color8, Color8, u8), y: &(Color8, Color8, u8)| x == y);
    uf_table!(merge_uf, MERGE_N, MERGE_ARGS, MERGE_RES, (b: Color8, s: Color8, o: u8), Color8, (Z, Z, 0), Z, any_color(),
        |x: &(Color8, Color8, u8), y: &(Color8, Color8, u8)| x == y);
    uf_table!(baseline_uf, BASE_N, BASE_ARGS, BASE_RES, (b: Color8, s: Color8, o: u8), Color8, (Z, Z, 0), Z, any_color(),
        |x: &(Color8, Color8, u8), y: &(Color8, Color8, u8)| x == y);
    // a channel function: any u8 (the truncation-free range is what the leaf contracts establish)
    uf_table!(chan_uf, CHAN_N, CHAN_ARGS, CHAN_RES, (b: i32, s: i32), u8, (0, 0), 0u8, kani::any(),
        |x: &(i32, i32), y: &(i32, i32)| x == y);
    // blend_soft_light: any value in 0..=255 (range proved by k_ch_soft_light_range)
    uf_table!(soft_light_uf, SOFT_N, SOFT_ARGS, SOFT_RES, (b: i32, s: i32), i32, (0, 0), 0i32,
        { let v: i32 = kani::any(); kani::assume((0..=255).contains(&v)); v },
        |x: &(i32, i32), y: &(i32, i32)| x == y);
    // f64 kernels of the HSL modes
    uf_table!(lum_uf, LUM_N, LUM_ARGS, LUM_RES, (r: f64, g: f64, b: f64), f64, (0.0, 0.0, 0.0), 0.0, any_f64(), bits3);
    uf_table!(sat_uf, SAT_N, SAT_ARGS, SAT_RES, (r: f64, g: f64, b: f64), f64, (0.0, 0.0, 0.0), 0.0, any_f64(), bits3);
    uf_table!(set_sat_uf, SSAT_N, SSAT_ARGS, SSAT_RES, (r: f64, g: f64, b: f64, s: f64), (f64, f64, f64), (0.0, 0.0, 0.0, 0.0),
        (0.0, 0.0, 0.0), (any_f64(), any_f64(), any_f64()), bits4);
    uf_table!(set_lum_uf, SLUM_N, SLUM_ARGS, SLUM_RES, (r: f64, g: f64, b: f64, l: f64), (f64, f64, f64), (0.0, 0.0, 0.0, 0.0),
        (0.0, 0.0, 0.0), (any_f64(), any_f64(), any_f64()), bits4);
    // ---- `normal` / `merge` as CONTRACTS: uninterpreted, constrained by exactly the clauses that
    // k_normal_alpha / k_merge prove about the real functions.
    pub fn normal_c(b: Color8, s: Color8, o: u8) -> Color8 {
        let v = normal_uf(b, s, o);
        let (ba, sa) = (b.0[3] as i32, s.0[3] as i32);
        let prod = r::mul_un8(sa, o as i32);
        kani::assume(v.0[3] as i32 == r::normal_alpha(ba, sa, o as i32));
        if ba == 0 {
            kani::assume(v == Rgba([s.0[0], s.0[1], s.0[2], prod as u8]));
        } else if sa == 0 || prod == 0 {
            kani::assume(v == b);
        }
        if sa == 255 && o == 255 {
            kani::assume(v == s);
        }
        v
    }
    pub fn merge_c(x: Color8, y: Color8, t: u8) -> Color8 {
        let v = merge_uf(x, y, t);
        kani::assume(v.0[3] == blend8(x.0[3], y.0[3], t));
        if x == y && x.0[3] != 0 {
            kani::assume(v == x);
        }
        v
    }
    // from_rgb_f64: any colour whose alpha is the alpha argument (pass-through is its leaf contract)
    pub static mut PACK_N: usize = 0;
    pub static mut PACK_ARGS: [(u64, u64, u64, u8); N] = [(0, 0, 0, 0); N];
    pub static mut PACK_RES: [Color8; N] = [Z; N];
    pub fn from_rgb_f64_uf(r: f64, g: f64, b: f64, a: u8) -> Color8 {
        unsafe {
            let key = (r.to_bits(), g.to_bits(), b.to_bits(), a);
            let mut i = 0;
            while i < N {
                if i < PACK_N && PACK_ARGS[i] == key {
                    return PACK_RES[i];
                }
                i += 1;
            }
            assert!(PACK_N < N);
            let v = Rgba([kani::any(), kani::any(), kani::any(), a]);
            PACK_ARGS[PACK_N] = key;
            PACK_RES[PACK_N] = v;
            PACK_N += 1;
            v
        }
    }
}

crate::verif_harness! {
    /// blend_channel(b,s,o,f) == normal(b, (f(Br,Sr), f(Bg,Sg), f(Bb,Sb), Sa), o) for every channel
    /// function f and every `normal` (both uninterpreted).
    #[kani::stub(crate::blend::normal, crate::blend::verif_overlay::uf::normal_uf)]
    #[kani::unwind(8)]
    fn k_blend_channel(s) {
        #[cfg(kani)]
        {
            let b = s.rgba();
            let c = s.rgba();
            let o = s.u8();
            let got = blend_channel(b, c, o, uf::chan_uf);
            let ns = Rgba([
                uf::chan_uf(b.0[0] as i32, c.0[0] as i32),
                uf::chan_uf(b.0[1] as i32, c.0[1] as i32),
                uf::chan_uf(b.0[2] as i32, c.0[2] as i32),
                c.0[3],
            ]);
            assert!(got == normal(b, ns, o), "blend_channel == normal(backdrop, f-mapped source with source alpha, opacity)");
        }
    }
}

crate::verif_harness! {
    /// blender(b,s,o,F) has exactly the structure of Aseprite's RGBA_BLENDER_N macro, for every
    /// baseline F, `normal` and `merge` (all uninterpreted).
    #[kani::stub(crate::blend::normal, crate::blend::verif_overlay::uf::normal_uf)]
    #[kani::stub(crate::blend::merge, crate::blend::verif_overlay::uf::merge_uf)]
    #[kani::unwind(8)]
    fn k_blender(s) {
        #[cfg(kani)]
        {
            let b = s.rgba();
            let c = s.rgba();
            let o = s.u8();
            let got = blender(b, c, o, uf::baseline_uf);
            let norm = normal(b, c, o);
            let want = if b.0[3] != 0 {
                let blend = uf::baseline_uf(b, c, o);
                let n2b = merge(norm, blend, b.0[3]);
                let sta = r::mul_un8(c.0[3] as i32, o as i32);
                let ca = r::mul_un8(b.0[3] as i32, sta);
                merge(n2b, blend, ca as u8)
            } else {
                norm
            };
            assert!(got == want, "blender == RGBA_BLENDER_N structure");
            crate::vcover!(b.0[3] != 0, "visible backdrop");
            crate::vcover!(b.0[3] == 0, "transparent backdrop");
        }
    }
}

/// The postcondition of every non-normal mode function: RGBA_BLENDER_N over (uninterpreted) normal
/// and merge, with the "blend" operand normal(backdrop, new_src, opacity).
#[cfg(kani)]
fn mode_post(mode: u16, new_src: Color8, b: Color8, c: Color8, o: u8) -> Color8 {
    r::new_blend_with(&|x, y, z| normal(x, y, z), &|x, y, z| merge(x, y, z), mode, new_src, b, c, o)
}

macro_rules! mode_harness {
    ($hname:ident, $lname:ident, $real:ident, $mode:expr, $chan:ident) => {
        crate::verif_harness! {
            /// mode function == RGBA_BLENDER_N(normal(backdrop, per-channel $chan of (backdrop, source)
            /// with the source alpha, opacity)), for every `normal`, `merge` and channel function (all
            /// uninterpreted here; proved equal to rgba_blender_normal / rgba_blender_merge / the Aseprite
            /// channel macro by k_normal_*, k_merge, k_ch_*).  This pins: which channel function the mode
            /// uses, backdrop/source argument order, alpha pass-through and the wrapper structure.
            #[kani::stub(crate::blend::normal, crate::blend::verif_overlay::uf::normal_uf)]
            #[kani::stub(crate::blend::merge, crate::blend::verif_overlay::uf::merge_uf)]
            #[kani::stub(crate::blend::$chan, crate::blend::verif_overlay::uf::chan_uf)]
            #[kani::unwind(8)]
            fn $hname(s) {
                #[cfg(kani)]
                {
                    let b = s.rgba();
                    let c = s.rgba();
                    let o = s.u8();
                    let got = $real(b, c, o);
                    let ns = Rgba([
                        $chan(b.0[0] as i32, c.0[0] as i32),
                        $chan(b.0[1] as i32, c.0[1] as i32),
                        $chan(b.0[2] as i32, c.0[2] as i32),
                        c.0[3],
                    ]);
                    assert!(got == mode_post($mode, ns, b, c, o), "mode == RGBA_BLENDER_N(rgba_blender_<mode>)");
                    crate::vcover!(b.0[3] != 0 && c.0[3] != 0, "both visible");
                }
            }
        }
        crate::verif_harness! {
            /// C17 laws for this mode, from the CONTRACTS of normal / merge (proved by k_normal_alpha,
            /// k_merge) with every other callee uninterpreted.
            #[kani::stub(crate::blend::normal, crate::blend::verif_overlay::uf::normal_c)]
            #[kani::stub(crate::blend::merge, crate::blend::verif_overlay::uf::merge_c)]
            #[kani::stub(crate::blend::$chan, crate::blend::verif_overlay::uf::chan_uf)]
            #[kani::unwind(8)]
            fn $lname(s) {
                #[cfg(kani)]
                {
                    let b = s.rgba();
                    let c = s.rgba();
                    let o = s.u8();
                    check_laws($real(b, c, o), b, c, o);
                }
            }
        }
    };
}
mode_harness!(k_mode_multiply, k_law_multiply, multiply, 1, blend_multiply);
mode_harness!(k_mode_screen, k_law_screen, screen, 2, blend_screen);
mode_harness!(k_mode_overlay, k_law_overlay, overlay, 3, blend_overlay);
mode_harness!(k_mode_darken, k_law_darken, darken, 4, blend_darken);
mode_harness!(k_mode_lighten, k_law_lighten, lighten, 5, blend_lighten);
mode_harness!(k_mode_color_dodge, k_law_color_dodge, color_dodge, 6, blend_color_dodge);
mode_harness!(k_mode_color_burn, k_law_color_burn, color_burn, 7, blend_color_burn);
mode_harness!(k_mode_hard_light, k_law_hard_light, hard_light, 8, blend_hard_light);
mode_harness!(k_mode_difference, k_law_difference, difference, 10, blend_difference);
mode_harness!(k_mode_exclusion, k_law_exclusion, exclusion, 11, blend_exclusion);
mode_harness!(k_mode_divide, k_law_divide, divide, 18, blend_divide);

macro_rules! whole_mode_harness {
    ($hname:ident, $lname:ident, $real:ident, $mode:expr) => {
        crate::verif_harness! {
            /// addition / subtract: clamped per-channel sum / difference computed in-line (real code,
            /// compared with the reference in-line), RGBA_BLENDER_N around it; normal/merge uninterpreted.
            #[kani::stub(crate::blend::normal, crate::blend::verif_overlay::uf::normal_uf)]
            #[kani::stub(crate::blend::merge, crate::blend::verif_overlay::uf::merge_uf)]
            #[kani::unwind(8)]
            fn $hname(s) {
                #[cfg(kani)]
                {
                    let b = s.rgba();
                    let c = s.rgba();
                    let o = s.u8();
                    let got = $real(b, c, o);
                    assert!(got == mode_post($mode, r::baseline_src($mode, b, c), b, c, o), "mode == RGBA_BLENDER_N(rgba_blender_<mode>)");
                }
            }
        }
        crate::verif_harness! {
            /// C17 laws for this mode from the contracts of normal / merge.
            #[kani::stub(crate::blend::normal, crate::blend::verif_overlay::uf::normal_c)]
            #[kani::stub(crate::blend::merge, crate::blend::verif_overlay::uf::merge_c)]
            #[kani::unwind(8)]
            fn $lname(s) {
                #[cfg(kani)]
                {
                    let b = s.rgba();
                    let c = s.rgba();
                    let o = s.u8();
                    check_laws($real(b, c, o), b, c, o);
                }
            }
        }
    };
}
whole_mode_harness!(k_mode_addition, k_law_addition, addition, 16);
whole_mode_harness!(k_mode_subtract, k_law_subtract, subtract, 17);

/// The mode-independent laws of C17, stated on a result `got` of blending (b, c, o).
#[cfg(kani)]
fn check_laws(got: Color8, b: Color8, c: Color8, o: u8) {
    let (ba, sa) = (b.0[3] as i32, c.0[3] as i32);
    let prod = r::mul_un8(sa, o as i32);
    assert!(got.0[3] as i32 == r::normal_alpha(ba, sa, o as i32), "result alpha == Normal-mode alpha");
    if ba != 0 && (sa == 0 || prod == 0) {
        assert!(got == b, "transparent source or zero opacity product leaves a visible backdrop unchanged");
    }
    if ba == 0 {
        assert!(got == Rgba([c.0[0], c.0[1], c.0[2], prod as u8]), "transparent backdrop: source colour, alpha scaled by opacity");
    }
    crate::vcover!(ba != 0 && sa != 0 && prod != 0, "genuine blend");
    crate::vcover!(ba != 0 && sa != 0 && prod == 0, "zero product");
    crate::vcover!(ba == 0, "transparent backdrop");
}

crate::verif_harness! {
    /// soft_light: integer skeleton around the f64 channel kernel (uninterpreted, range 0..=255).
    #[kani::stub(crate::blend::normal, crate::blend::verif_overlay::uf::normal_uf)]
    #[kani::stub(crate::blend::merge, crate::blend::verif_overlay::uf::merge_uf)]
    #[kani::stub(crate::blend::blend_soft_light, crate::blend::verif_overlay::uf::soft_light_uf)]
    #[kani::unwind(8)]
    fn k_mode_soft_light(s) {
        #[cfg(kani)]
        {
            let b = s.rgba();
            let c = s.rgba();
            let o = s.u8();
            let got = soft_light(b, c, o);
            let ns = Rgba([
                blend_soft_light(b.0[0] as i32, c.0[0] as i32) as u8,
                blend_soft_light(b.0[1] as i32, c.0[1] as i32) as u8,
                blend_soft_light(b.0[2] as i32, c.0[2] as i32) as u8,
                c.0[3],
            ]);
            assert!(got == mode_post(9, ns, b, c, o), "soft_light == RGBA_BLENDER_N over the per-channel kernel");
        }
    }
}

crate::verif_harness! {
    /// C17 laws for soft_light from the contracts of normal / merge (kernel uninterpreted, range 0..=255).
    #[kani::stub(crate::blend::normal, crate::blend::verif_overlay::uf::normal_c)]
    #[kani::stub(crate::blend::merge, crate::blend::verif_overlay::uf::merge_c)]
    #[kani::stub(crate::blend::blend_soft_light, crate::blend::verif_overlay::uf::soft_light_uf)]
    #[kani::unwind(8)]
    fn k_law_soft_light(s) {
        #[cfg(kani)]
        {
            let b = s.rgba();
            let c = s.rgba();
            let o = s.u8();
            check_laws(soft_light(b, c, o), b, c, o);
        }
    }
}

/// as_rgb_f64 of the reference: c/255.0 per channel
#[cfg(kani)]
fn f3(c: Color8) -> (f64, f64, f64) {
    (c.0[0] as f64 / 255.0, c.0[1] as f64 / 255.0, c.0[2] as f64 / 255.0)
}

macro_rules! hsl_harness {
    ($hname:ident, $lname:ident, $real:ident, $mode:expr, |$b:ident, $c:ident| $newsrc:block) => {
        crate::verif_harness! {
            /// C17 laws for this HSL mode from the contracts of normal / merge; f64 kernels uninterpreted,
            /// from_rgb_f64 constrained only by alpha pass-through (its leaf contract).
            #[kani::stub(crate::blend::normal, crate::blend::verif_overlay::uf::normal_c)]
            #[kani::stub(crate::blend::merge, crate::blend::verif_overlay::uf::merge_c)]
            #[kani::stub(crate::blend::luminosity, crate::blend::verif_overlay::uf::lum_uf)]
            #[kani::stub(crate::blend::saturation, crate::blend::verif_overlay::uf::sat_uf)]
            #[kani::stub(crate::blend::set_saturation, crate::blend::verif_overlay::uf::set_sat_uf)]
            #[kani::stub(crate::blend::set_luminocity, crate::blend::verif_overlay::uf::set_lum_uf)]
            #[kani::stub(crate::blend::from_rgb_f64, crate::blend::verif_overlay::uf::from_rgb_f64_uf)]
            #[kani::unwind(8)]
            fn $lname(s) {
                #[cfg(kani)]
                {
                    let b = s.rgba();
                    let c = s.rgba();
                    let o = s.u8();
                    check_laws($real(b, c, o), b, c, o);
                }
            }
        }
        crate::verif_harness! {
            /// HSL mode: integer skeleton (which f64 kernel is applied to backdrop and which to source,
            /// alpha passes through, RGBA_BLENDER_N around it). The f64 kernels are uninterpreted here
            /// and compared with the reference by the bounded-exec obligations x_hsl_*.
            #[kani::stub(crate::blend::normal, crate::blend::verif_overlay::uf::normal_uf)]
            #[kani::stub(crate::blend::merge, crate::blend::verif_overlay::uf::merge_uf)]
            #[kani::stub(crate::blend::luminosity, crate::blend::verif_overlay::uf::lum_uf)]
            #[kani::stub(crate::blend::saturation, crate::blend::verif_overlay::uf::sat_uf)]
            #[kani::stub(crate::blend::set_saturation, crate::blend::verif_overlay::uf::set_sat_uf)]
            #[kani::stub(crate::blend::set_luminocity, crate::blend::verif_overlay::uf::set_lum_uf)]
            #[kani::stub(crate::blend::from_rgb_f64, crate::blend::verif_overlay::uf::from_rgb_f64_uf)]
            #[kani::unwind(8)]
            fn $hname(s) {
                #[cfg(kani)]
                {
                    let $b = s.rgba();
                    let $c = s.rgba();
                    let o = s.u8();
                    let got = $real($b, $c, o);
                    let ns: Color8 = $newsrc;
                    assert!(got == mode_post($mode, ns, $b, $c, o), "HSL mode skeleton == Aseprite's");
                }
            }
        }
    };
}
hsl_harness!(k_mode_hsl_hue, k_law_hsl_hue, hsl_hue, 12, |b, c| {
    let (r0, g0, b0) = f3(b);
    let sat = saturation(r0, g0, b0);
    let lum = luminosity(r0, g0, b0);
    let (r1, g1, b1) = f3(c);
    let (r2, g2, b2) = set_saturation(r1, g1, b1, sat);
    let (r3, g3, b3) = set_luminocity(r2, g2, b2, lum);
    from_rgb_f64(r3, g3, b3, c.0[3])
});
hsl_harness!(k_mode_hsl_saturation, k_law_hsl_saturation, hsl_saturation, 13, |b, c| {
    let (r1, g1, b1) = f3(c);
    let sat = saturation(r1, g1, b1);
    let (r0, g0, b0) = f3(b);
    let lum = luminosity(r0, g0, b0);
    let (r2, g2, b2) = set_saturation(r0, g0, b0, sat);
    let (r3, g3, b3) = set_luminocity(r2, g2, b2, lum);
    from_rgb_f64(r3, g3, b3, c.0[3])
});
hsl_harness!(k_mode_hsl_color, k_law_hsl_color, hsl_color, 14, |b, c| {
    let (r0, g0, b0) = f3(b);
    let lum = luminosity(r0, g0, b0);
    let (r1, g1, b1) = f3(c);
    let (r3, g3, b3) = set_luminocity(r1, g1, b1, lum);
    from_rgb_f64(r3, g3, b3, c.0[3])
});
hsl_harness!(k_mode_hsl_luminosity, k_law_hsl_luminosity, hsl_luminosity, 15, |b, c| {
    let (r1, g1, b1) = f3(c);
    let lum = luminosity(r1, g1, b1);
    let (r0, g0, b0) = f3(b);
    let (r3, g3, b3) = set_luminocity(r0, g0, b0, lum);
    from_rgb_f64(r3, g3, b3, c.0[3])
});

crate::verif_harness! {
    /// from_rgba_i32 / as_rgba_i32 are exact on 0..=255 and from_rgba_i32 passes alpha through.
    fn k_pack_i32(s) {
        let c = s.rgba();
        let (r0, g0, b0, a0) = as_rgba_i32(c);
        assert!(r0 == c.0[0] as i32 && g0 == c.0[1] as i32 && b0 == c.0[2] as i32 && a0 == c.0[3] as i32, "as_rgba_i32 widens");
        assert!(from_rgba_i32(r0, g0, b0, a0) == c, "from_rgba_i32 inverts as_rgba_i32");
    }
}

crate::verif_harness! {
    /// from_rgb_f64(r,g,b,a): for channel values in [0,1] (the range clip_color establishes) the packed
    /// channels are floor(255*v) in 0..=255, no debug assertion fires, and alpha passes through.
    fn k_pack_f64(s) {
        #[cfg(kani)]
        {
            let r0: f64 = kani::any();
            let g0: f64 = kani::any();
            let b0: f64 = kani::any();
            let a = s.u8();
            kani::assume(r0 >= 0.0 && r0 <= 1.0 && g0 >= 0.0 && g0 <= 1.0 && b0 >= 0.0 && b0 <= 1.0);
            let got = from_rgb_f64(r0, g0, b0, a);
            assert!(got.0[3] == a, "alpha passes through from_rgb_f64");
            assert!(got.0[0] as f64 <= r0 * 255.0 && got.0[1] as f64 <= g0 * 255.0 && got.0[2] as f64 <= b0 * 255.0, "truncation toward zero");
        }
    }
}

// ---- access points for Engine X (private kernels) ------------------------------------------------
pub(crate) fn soft_light_kernel(b: i32, s: i32) -> i32 {
    blend_soft_light(b, s)
}
pub(crate) fn hsl_baseline(mode: u16, b: Color8, s: Color8, o: u8) -> Color8 {
    match mode {
        12 => hsl_hue_baseline(b, s, o),
        13 => hsl_saturation_baseline(b, s, o),
        14 => hsl_color_baseline(b, s, o),
        _ => hsl_luminosity_baseline(b, s, o),
    }
}
