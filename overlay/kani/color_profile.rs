//! Contracts for src/color_profile.rs (C15: fixed gamma flag and ICC profiles are refused; C07: none/sRGB accepted).
#![allow(dead_code, unused_imports)]
use super::*;
use crate::verif_spec::fmt;
use crate::verif_spec::src::Src;

pub(crate) fn check_color_profile(d: &[u8]) -> bool {
    let got = parse_chunk(d);
    let decoded_ok = got.is_ok();
    match (&got, fmt::color_profile(d)) {
        (Ok(p), Some(ty)) => {
            assert!((p.profile_type == ColorProfileType::None) == (ty == 0) && (p.profile_type == ColorProfileType::Srgb) == (ty == 1), "profile type");
            assert!(p.fixed_gamma.is_none(), "no gamma");
        }
        (Err(_), None) => {}
        (Ok(_), None) => assert!(false, "an unsupported colour profile (ICC, fixed gamma, unknown type) or a short chunk was accepted"),
        (Err(_), Some(_)) => assert!(false, "a none/sRGB profile chunk was rejected"),
    }
    core::mem::forget(got);
    decoded_ok
}

macro_rules! cp_shape {
    ($hname:ident, $n:expr) => {
        crate::verif_harness! {
            /// color_profile::parse_chunk on every payload of $n bytes: Ok iff >= 16 bytes, type in {0,1}
            /// and the fixed-gamma flag clear; ICC (type 2), unknown types and fixed gamma are refused.
            #[kani::stub(std::fmt::format, crate::verif_spec::stubs::format_stub)]
            fn $hname(s) {
                let d: [u8; $n] = s.bytes();
                let ok = check_color_profile(&d);
                crate::vcover!(ok, "accepted");
                crate::vcover!(!ok, "refused");
            }
        }
    };
}
cp_shape!(k_color_profile_16, 16);
cp_shape!(k_color_profile_20, 20);

crate::verif_harness! {
    /// 15 bytes are always too short.
    #[kani::stub(std::fmt::format, crate::verif_spec::stubs::format_stub)]
    fn k_color_profile_15(s) {
        let d: [u8; 15] = s.bytes();
        assert!(parse_chunk(&d).is_err(), "short colour profile chunk is an error");
    }
}
