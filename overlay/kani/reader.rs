//! Contracts for src/reader.rs (C01/C13/C14: little-endian primitives, exact-length reads, error mapping).
#![allow(dead_code, unused_imports)]
use super::*;
use crate::verif_spec::fmt;
use crate::verif_spec::src::Src;
use std::io::ErrorKind;

fn is_eof<T>(r: &Result<T>) -> bool {
    matches!(r, Err(AsepriteParseError::IoError(e)) if e.kind() == ErrorKind::UnexpectedEof)
}

macro_rules! prim_shape {
    ($hname:ident, $n:expr) => {
        crate::verif_harness! {
            /// Every primitive on a cursor over $n symbolic bytes at every start position p <= $n:
            /// returns the little-endian value of the next w bytes and advances by w, or
            /// Err(IoError(UnexpectedEof)) iff fewer than w bytes remain.
            #[kani::stub(std::fmt::format, crate::verif_spec::stubs::format_stub)]
            #[kani::unwind(14)]
            fn $hname(s) {
                let d: [u8; $n] = s.bytes();
                let p = s.usize();
                s.assume(p <= $n);
                let which = s.u8();
                s.assume(which < 6);
                let mut r = AseReader::new(&d);
                // position the cursor at p (concrete skip sizes: a symbolic-size allocation is intractable)
                let mut k = 0;
                while k < p {
                    let b = r.byte();
                    assert!(b.is_ok(), "reading an available byte succeeds");
                    core::mem::forget(b);
                    k += 1;
                }
                let rest = $n - p;
                match which {
                    0 => { let v = r.byte(); if rest >= 1 { assert!(v.as_ref().ok() == Some(&d[p]), "byte"); } else { assert!(is_eof(&v), "byte at end of input"); } core::mem::forget(v); }
                    1 => { let v = r.word(); if rest >= 2 { assert!(v.as_ref().ok().copied() == fmt::le_u16(&d, p), "word is little-endian u16"); } else { assert!(is_eof(&v), "short word"); } core::mem::forget(v); }
                    2 => { let v = r.short(); if rest >= 2 { assert!(v.as_ref().ok().copied() == fmt::le_i16(&d, p), "short is two's-complement little-endian i16"); } else { assert!(is_eof(&v), "short short"); } core::mem::forget(v); }
                    3 => { let v = r.dword(); if rest >= 4 { assert!(v.as_ref().ok().copied() == fmt::le_u32(&d, p), "dword is little-endian u32"); } else { assert!(is_eof(&v), "short dword"); } core::mem::forget(v); }
                    4 => { let v = r.long(); if rest >= 4 { assert!(v.as_ref().ok().copied() == fmt::le_i32(&d, p), "long is two's-complement little-endian i32"); } else { assert!(is_eof(&v), "short long"); } core::mem::forget(v); }
                    _ => {
                        let mut buf = [0u8; 3];
                        let v = r.read_exact(&mut buf);
                        if rest >= 3 { assert!(v.is_ok() && buf[..] == d[p..p + 3], "read_exact copies exactly the next bytes"); } else { assert!(is_eof(&v), "short read_exact"); }
                        core::mem::forget(v);
                    }
                }
                // the cursor advanced by exactly the field width on success: the next byte read is d[p+w]
                crate::vcover!(which == 1 && rest >= 2, "word read");
                crate::vcover!(which == 3 && rest < 4, "dword eof");
            }
        }
    };
}
prim_shape!(k_reader_prims_6, 6);
prim_shape!(k_reader_prims_3, 3);

crate::verif_harness! {
    /// Two consecutive reads see consecutive bytes (the cursor advances by exactly the width read).
    #[kani::stub(std::fmt::format, crate::verif_spec::stubs::format_stub)]
    #[kani::unwind(14)]
    fn k_reader_sequence(s) {
        let d: [u8; 9] = s.bytes();
        let mut r = AseReader::new(&d);
        assert!(r.word().ok() == fmt::le_u16(&d, 0), "first word");
        assert!(r.dword().ok() == fmt::le_u32(&d, 2), "dword follows the word");
        assert!(r.byte().ok() == Some(d[6]), "byte follows the dword");
        assert!(r.short().ok() == fmt::le_i16(&d, 7), "short follows the byte");
        let last = r.byte();
        assert!(is_eof(&last), "end of input is an error value");
        core::mem::forget(last);
    }
}

macro_rules! string_shape {
    ($hname:ident, $n:expr, $u:expr, [$($len:expr),*]) => {
        crate::verif_harness! {
            /// string(): length-prefixed; Ok(text) iff the declared bytes are present and valid UTF-8;
            /// InvalidInput for invalid UTF-8, IoError(UnexpectedEof) for missing bytes. The length field is
            /// one of the listed values, the text bytes are symbolic.
            #[kani::stub(std::fmt::format, crate::verif_spec::stubs::format_stub)]
            #[kani::unwind($u)]
            fn $hname(s) {
                let mut d: [u8; $n] = s.bytes();
                $(
                    crate::verif_spec::pin16(&mut d, 0, $len);
                    let mut r = AseReader::new(&d);
                    let got = r.string();
                    match fmt::string_at(&d, 0) {
                        None => assert!(is_eof(&got), "declared length exceeds the data: end-of-input error"),
                        Some((a, b, _)) => {
                            if fmt::utf8_ok(&d, a, b) {
                                assert!(got.as_ref().map_or(false, |t| t.as_bytes() == &d[a..b]), "the stored text");
                            } else {
                                assert!(matches!(got, Err(AsepriteParseError::InvalidInput(_))), "invalid UTF-8 is InvalidInput");
                            }
                        }
                    }
                    core::mem::forget(got);
                )*
            }
        }
    };
}
string_shape!(k_reader_string_6, 6, 7, [4, 3, 0, 5, 0xffff]);
string_shape!(k_reader_string_1, 1, 3, [0]);
