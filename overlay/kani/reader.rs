//! Contracts for src/reader.rs (C01/C13/C14: little-endian primitives, exact-length reads, error mapping).
#![allow(dead_code, unused_imports)]
use super::*;
use crate::verif_spec::fmt;
use crate::verif_spec::src::Src;
use std::io::ErrorKind;

fn is_eof<T>(r: &Result<T>) -> bool {
    matches!(r, Err(AsepriteParseError::IoError(e)) if e.kind() == ErrorKind::UnexpectedEof)
}

macro_rules! prim_shape {
    ($hname:ident, $n:expr) => {
        crate::verif_harness! {
            /// Every primitive on a cursor over $n symbolic bytes at every start position p <= $n:
            /// returns the little-endian value of the next w bytes and advances by w, or
            /// Err(IoError(UnexpectedEof)) iff fewer than w bytes remain.
            #[kani::stub(std::fmt::format, crate::verif_spec::stubs::format_stub)]
            #[kani::unwind(14)]
            fn $hname(s) {
                let d: [u8; $n] = s.bytes();
                let p = s.usize();
                s.assume(p <= $n);
                let which = s.u8();
                s.assume(which < 6);
                let mut r = AseReader::new(&d);
                // position the cursor at p (concrete skip sizes: a symbolic-size allocation is intractable)
                let mut k = 0;
                while k < p {
                    let b = r.byte();
                    assert!(b.is_ok(), "reading an available byte succeeds");
                    core::mem::forget(b);
                    k += 1;
                }
                let rest = $n - p;
                match which {
                    0 => { let v = r.byte(); if rest >= 1 { assert!(v.as_ref().ok() == Some(&d[p]), "byte"); } else { assert!(is_eof(&v), "byte at end of input"); } core::mem::forget(v); }
                    1 => { let v = r.word(); if rest >= 2 { assert!(v.as_ref().ok().copied() == fmt::le_u16(&d, p), "word is little-endian u16"); } else { assert!(is_eof(&v), "short word"); } core::mem::forget(v); }
                    2 => { let v = r.short(); if rest >= 2 { assert!(v.as_ref().ok().copied() == fmt::le_i16(&d, p), "short is two's-complement little-endian i16"); } else { assert!(is_eof(&v), "short short"); } core::mem::forget(v); }
                    3 => { let v = r.dword(); if rest >= 4 { assert!(v.as_ref().ok().copied() == fmt::le_u32(&d, p), "dword is little-endian u32"); } else { assert!(is_eof(&v), "short dword"); } core::mem::forget(v); }
                    4 => { let v = r.long(); if rest >= 4 { assert!(v.as_ref().ok().copied() == fmt::le_i32(&d, p), "long is two's-complement little-endian i32"); } else { assert!(is_eof(&v), "short long"); } core::mem::forget(v); }
                    _ => {
                        let v = r.skip_reserved(3);
                        if rest >= 3 { assert!(v.is_ok(), "skip_reserved of available bytes"); } else { assert!(is_eof(&v), "short skip_reserved"); }
                        core::mem::forget(v);
                    }
                }
                // the cursor advanced by exactly the field width on success: the next byte read is d[p+w]
                crate::vcover!(which == 1 && rest >= 2, "word read");
                crate::vcover!(which == 3 && rest < 4, "dword eof");
            }
        }
    };
}
prim_shape!(k_reader_prims_6, 6);
prim_shape!(k_reader_prims_3, 3);

crate::verif_harness! {
    /// Two consecutive reads see consecutive bytes (the cursor advances by exactly the width read).
    #[kani::stub(std::fmt::format, crate::verif_spec::stubs::format_stub)]
    #[kani::unwind(14)]
    fn k_reader_sequence(s) {
        let d: [u8; 9] = s.bytes();
        let mut r = AseReader::new(&d);
        assert!(r.word().ok() == fmt::le_u16(&d, 0), "first word");
        assert!(r.dword().ok() == fmt::le_u32(&d, 2), "dword follows the word");
        assert!(r.byte().ok() == Some(d[6]), "byte follows the dword");
        assert!(r.short().ok() == fmt::le_i16(&d, 7), "short follows the byte");
        let last = r.byte();
        assert!(is_eof(&last), "end of input is an error value");
        core::mem::forget(last);
    }
}

macro_rules! string_shape {
    ($hname:ident, $n:expr, $u:expr, [$($len:expr),*]) => {
        crate::verif_harness! {
            /// string(): length-prefixed; Ok(text) iff the declared bytes are present and valid UTF-8;
            /// InvalidInput for invalid UTF-8, IoError(UnexpectedEof) for missing bytes. The length field is
            /// one of the listed values, the text bytes are symbolic.
            #[kani::stub(std::fmt::format, crate::verif_spec::stubs::format_stub)]
            #[kani::unwind($u)]
            fn $hname(s) {
                let mut d: [u8; $n] = s.bytes();
                $(
                    crate::verif_spec::pin16(&mut d, 0, $len);
                    let mut r = AseReader::new(&d);
                    let got = r.string();
                    match fmt::string_at(&d, 0) {
                        None => assert!(is_eof(&got), "declared length exceeds the data: end-of-input error"),
                        Some((a, b, _)) => {
                            if fmt::utf8_ok(&d, a, b) {
                                assert!(got.as_ref().map_or(false, |t| t.as_bytes() == &d[a..b]), "the stored text");
                            } else {
                                assert!(matches!(got, Err(AsepriteParseError::InvalidInput(_))), "invalid UTF-8 is InvalidInput");
                            }
                        }
                    }
                    core::mem::forget(got);
                )*
            }
        }
    };
}
string_shape!(k_reader_string_6, 6, 7, [4, 3, 0, 5, 0xffff]);
string_shape!(k_reader_string_1, 1, 3, [0]);

/// A reader over `data` whose delivery is scripted: every `read` call consumes one script byte.
/// 0 = Err(Interrupted) (transient), 1 = Err(ConnectionReset) (hard, if `hard`), k >= 2 = deliver
/// min(k - 1, buf.len(), remaining) bytes (at least one while data remains). An exhausted script delivers everything.
pub(crate) struct ScriptReader<'a> {
    pub data: &'a [u8],
    pub pos: usize,
    pub script: &'a [u8],
    pub step: usize,
    pub hard: bool,
}

impl<'a> std::io::Read for ScriptReader<'a> {
    fn read(&mut self, buf: &mut [u8]) -> std::io::Result<usize> {
        let code = if self.step < self.script.len() { self.script[self.step] } else { 255 };
        self.step += 1;
        if code == 0 {
            return Err(ErrorKind::Interrupted.into());
        }
        if code == 1 && self.hard {
            return Err(ErrorKind::ConnectionReset.into());
        }
        let rem = self.data.len() - self.pos;
        let mut n = if code <= 1 { 1 } else { (code - 1) as usize };
        if n > rem {
            n = rem;
        }
        if n > buf.len() {
            n = buf.len();
        }
        let mut i = 0;
        while i < n {
            buf[i] = self.data[self.pos + i];
            i += 1;
        }
        self.pos += n;
        Ok(n)
    }
}

crate::verif_harness! {
    /// C14: for EVERY split of a 7-byte stream into read() return sizes and EVERY placement of transient
    /// Interrupted results (script of 10 symbolic steps), dword / word / byte return exactly what the
    /// in-memory cursor returns, and the 8th byte is the end-of-input error.
    #[kani::stub(std::fmt::format, crate::verif_spec::stubs::format_stub)]
    #[kani::unwind(12)]
    fn k_reader_schedule(s) {
        let d: [u8; 7] = s.bytes();
        let script: [u8; 10] = s.bytes();
        let mut i = 0;
        while i < 10 {
            s.assume(script[i] != 1); // no hard errors in this harness
            i += 1;
        }
        let mut r = AseReader::with(ScriptReader { data: &d, pos: 0, script: &script, step: 0, hard: false });
        let a = r.dword();
        assert!(a.as_ref().ok().copied() == fmt::le_u32(&d, 0), "dword is independent of the read schedule");
        let b = r.word();
        assert!(b.as_ref().ok().copied() == fmt::le_u16(&d, 4), "word after dword, any schedule");
        let c = r.byte();
        assert!(c.as_ref().ok() == Some(&d[6]), "byte after word, any schedule");
        let e = r.byte();
        assert!(is_eof(&e), "end of input is the end-of-input error for any schedule");
        crate::vcover!(script[0] == 0 && script[1] == 2 && script[2] == 0, "interrupt, one byte, interrupt");
        core::mem::forget(a);
        core::mem::forget(b);
        core::mem::forget(c);
        core::mem::forget(e);
    }
}

crate::verif_harness! {
    /// C14: with a hard I/O error injected anywhere in the schedule, every primitive returns either the correct
    /// value or Err(IoError) carrying that very error kind - never a wrong value, never a panic; and once the
    /// data of a primitive has been fully delivered before the error, that primitive is unaffected.
    #[kani::stub(std::fmt::format, crate::verif_spec::stubs::format_stub)]
    #[kani::unwind(12)]
    fn k_reader_hard_error(s) {
        let d: [u8; 6] = s.bytes();
        let script: [u8; 8] = s.bytes();
        let mut r = AseReader::with(ScriptReader { data: &d, pos: 0, script: &script, step: 0, hard: true });
        let a = r.dword();
        let a_ok = match &a {
            Ok(v) => Some(*v) == fmt::le_u32(&d, 0),
            Err(AsepriteParseError::IoError(e)) => e.kind() == ErrorKind::ConnectionReset,
            Err(_) => false,
        };
        assert!(a_ok, "dword: the right value or the injected I/O error");
        if a.is_ok() {
            let b = r.word();
            let b_ok = match &b {
                Ok(v) => Some(*v) == fmt::le_u16(&d, 4),
                Err(AsepriteParseError::IoError(e)) => e.kind() == ErrorKind::ConnectionReset,
                Err(_) => false,
            };
            assert!(b_ok, "word: the right value or the injected I/O error");
            core::mem::forget(b);
        }
        crate::vcover!(a.is_err(), "the hard error reaches the caller");
        crate::vcover!(a.is_ok(), "the dword can still succeed");
        core::mem::forget(a);
    }
}

crate::verif_harness! {
    /// C14, small shape for the quick tier: 5-byte stream, 6 scripted read() calls: dword, skip_reserved(1), end of input.
    #[kani::stub(std::fmt::format, crate::verif_spec::stubs::format_stub)]
    #[kani::unwind(9)]
    fn k_reader_schedule_5(s) {
        let d: [u8; 5] = s.bytes();
        let script: [u8; 6] = s.bytes();
        let mut i = 0;
        while i < 6 {
            s.assume(script[i] != 1);
            i += 1;
        }
        let mut r = AseReader::with(ScriptReader { data: &d, pos: 0, script: &script, step: 0, hard: false });
        let a = r.dword();
        assert!(a.as_ref().ok().copied() == fmt::le_u32(&d, 0), "dword is independent of the read schedule");
        let c = r.skip_reserved(1);
        assert!(c.is_ok(), "skipping an available byte succeeds for any schedule (Interrupted is retried)");
        let e = r.byte();
        assert!(is_eof(&e), "end of input is the end-of-input error for any schedule");
        crate::vcover!(script[0] == 0 && script[1] == 2 && script[2] == 0, "interrupt, one byte, interrupt");
        core::mem::forget(a);
        core::mem::forget(c);
        core::mem::forget(e);
    }
}

crate::verif_harness! {
    /// C14, small shape for the quick tier: 4-byte stream, 5 scripted calls with a hard error anywhere.
    #[kani::stub(std::fmt::format, crate::verif_spec::stubs::format_stub)]
    #[kani::unwind(8)]
    fn k_reader_hard_error_4(s) {
        let d: [u8; 4] = s.bytes();
        let script: [u8; 5] = s.bytes();
        let mut r = AseReader::with(ScriptReader { data: &d, pos: 0, script: &script, step: 0, hard: true });
        let a = r.dword();
        let a_ok = match &a {
            Ok(v) => Some(*v) == fmt::le_u32(&d, 0),
            Err(AsepriteParseError::IoError(e)) => e.kind() == ErrorKind::ConnectionReset,
            Err(_) => false,
        };
        assert!(a_ok, "dword: the right value or the injected I/O error");
        crate::vcover!(a.is_err(), "the hard error reaches the caller");
        crate::vcover!(a.is_ok(), "the dword can still succeed");
        core::mem::forget(a);
    }
}
