//! C16(a): every public value type is Send + Sync – discharged by rustc's trait solver.
//! Compiled only under cfg(asefile_verif_sendsync) so that a violation does not break the other checks.
use crate::*;
fn ok<T: Send + Sync>() {}
#[allow(dead_code)]
fn obligations() {
    ok::<AsepriteFile>();
    ok::<Frame<'static>>();
    ok::<Layer<'static>>();
    ok::<Cel<'static>>();
    ok::<Tilemap<'static>>();
    ok::<Tileset>();
    ok::<TilesetsById>();
    ok::<ColorPalette>();
    ok::<ColorPaletteEntry>();
    ok::<Tag>();
    ok::<Slice>();
    ok::<SliceKey>();
    ok::<UserData>();
    ok::<ExternalFile>();
    ok::<ExternalFilesById>();
    ok::<Tile>();
    ok::<LayersIter<'static>>();
    ok::<AsepriteParseError>();
}
