//! Whole-public-API observation of a loaded sprite as canonical text lines (C07, C16, C14, C19).
#![allow(dead_code)]
use crate::*;
use std::collections::hash_map::DefaultHasher;
use std::hash::{Hash, Hasher};

pub fn img_hash(img: &image::RgbaImage) -> String {
    // fully transparent pixels are canonicalised (RGB of alpha-0 pixels is not observable by the
    // repository's own image comparison)
    let mut h = DefaultHasher::new();
    img.dimensions().hash(&mut h);
    for p in img.pixels() {
        if p.0[3] == 0 {
            [0u8; 4].hash(&mut h);
        } else {
            p.0.hash(&mut h);
        }
    }
    format!("{}x{}#{:016x}", img.width(), img.height(), h.finish())
}

fn ud(u: Option<&UserData>) -> String {
    match u {
        None => "-".to_string(),
        Some(u) => format!("{:?}/{:?}", u.text, u.color.map(|c| c.0)),
    }
}

pub fn observe(f: &AsepriteFile, images: bool) -> Vec<String> {
    let mut o = Vec::new();
    o.push(format!(
        "sprite {}x{} size={:?} frames={} layers={} fmt={:?} ti={:?} indexed={} ud={}",
        f.width(),
        f.height(),
        f.size(),
        f.num_frames(),
        f.num_layers(),
        f.pixel_format(),
        f.transparent_color_index(),
        f.is_indexed_color(),
        ud(f.sprite_user_data())
    ));
    if let Some(p) = f.palette() {
        o.push(format!("palette n={}", p.num_colors()));
        for i in 0..300u32 {
            if let Some(e) = p.color(i) {
                o.push(format!(" pal[{}] id={} rgba={:?} r={} g={} b={} a={} name={:?}", i, e.id(), e.raw_rgba8(), e.red(), e.green(), e.blue(), e.alpha(), e.name()));
            }
        }
    } else {
        o.push("palette none".to_string());
    }
    let mut via_iter = 0;
    for (i, l) in f.layers().enumerate() {
        assert_eq!(l.id(), i as u32);
        via_iter += 1;
    }
    o.push(format!("layers-iter {}", via_iter));
    for i in 0..f.num_layers() {
        let l = f.layer(i);
        o.push(format!(
            " layer[{}] id={} name={:?} flags={:?} blend={:?} op={} type={:?} tilemap={} parent={:?} visible={} ud={} byname={:?}",
            i,
            l.id(),
            l.name(),
            l.flags().bits(),
            l.blend_mode(),
            l.opacity(),
            l.layer_type(),
            l.is_tilemap(),
            l.parent().map(|p| p.id()),
            l.is_visible(),
            ud(l.user_data()),
            f.layer_by_name(l.name()).map(|x| x.id())
        ));
    }
    o.push(format!("tags n={} get(n)={}", f.num_tags(), f.get_tag(f.num_tags()).is_none()));
    for i in 0..f.num_tags() {
        let t = f.tag(i);
        let g = f.get_tag(i).unwrap();
        assert_eq!(t.name(), g.name());
        o.push(format!(
            " tag[{}] name={:?} from={} to={} dir={:?} repeat={:?} ud={} byname_from={:?}",
            i,
            t.name(),
            t.from_frame(),
            t.to_frame(),
            t.animation_direction(),
            t.repeat(),
            ud(t.user_data()),
            f.tag_by_name(t.name()).map(|x| (x.from_frame(), x.to_frame(), x.repeat()))
        ));
    }
    for (i, s) in f.slices().iter().enumerate() {
        o.push(format!(" slice[{}] name={:?} ud={} keys={}", i, s.name, ud(s.user_data.as_ref()), s.keys.len()));
        for (k, key) in s.keys.iter().enumerate() {
            o.push(format!(
                "  key[{}] from={} origin={:?} size={:?} nine={:?} pivot={:?}",
                k,
                key.from_frame,
                key.origin,
                key.size,
                key.slice9.as_ref().map(|n| (n.center_x, n.center_y, n.center_width, n.center_height)),
                key.pivot
            ));
        }
    }
    let mut ef: Vec<_> = f.external_files().map().iter().map(|(k, v)| (k.value(), v.id().value(), v.name().to_string())).collect();
    ef.sort();
    for e in &ef {
        let by = f.external_file_by_id(&ExternalFileId::new(e.0)).map(|x| x.name().to_string());
        o.push(format!(" extfile {:?} by_id={:?}", e, by));
    }
    let mut ts: Vec<&Tileset> = f.tilesets().iter().collect();
    ts.sort_by_key(|t| t.id());
    o.push(format!("tilesets n={} empty={}", f.tilesets().len(), f.tilesets().is_empty()));
    for t in ts {
        let sz = t.tile_size();
        o.push(format!(
            " tileset id={} zero={} count={} size={}x{} base={} name={:?} ext={:?} get={}",
            t.id(),
            t.empty_tile_is_id_zero(),
            t.tile_count(),
            sz.width(),
            sz.height(),
            t.base_index(),
            t.name(),
            t.external_file().map(|e| (e.external_file_id().value(), e.tileset_id())),
            f.tilesets().get(t.id()).is_some()
        ));
        if images {
            o.push(format!("  image {}", img_hash(&t.image())));
            for i in 0..t.tile_count().min(8) {
                o.push(format!("  tile[{}] {}", i, img_hash(&t.tile_image(i))));
            }
        }
    }
    for fr in 0..f.num_frames() {
        let frame = f.frame(fr);
        o.push(format!("frame[{}] id={} dur={}{}", fr, frame.id(), frame.duration(), if images { format!(" img={}", img_hash(&frame.image())) } else { String::new() }));
        for l in 0..f.num_layers() {
            let c = f.cel(fr, l);
            let c2 = frame.layer(l);
            let lay = f.layer(l);
            let c3 = lay.frame(fr);
            assert_eq!((c2.frame(), c2.layer()), (c3.frame(), c3.layer()));
            o.push(format!(
                " cel[{},{}] coords=({},{}) empty={} tl={:?} tilemap={} ud={}{}",
                fr,
                l,
                c.frame(),
                c.layer(),
                c.is_empty(),
                c.top_left(),
                c.is_tilemap(),
                ud(c.user_data()),
                if images { format!(" img={}", img_hash(&c.image())) } else { String::new() }
            ));
            if let Some(tm) = f.tilemap(l, fr) {
                let mut tiles = String::new();
                for y in 0..tm.height().min(6) {
                    for x in 0..tm.width().min(6) {
                        tiles.push_str(&format!("{},", tm.tile(x, y).id()));
                    }
                }
                o.push(format!(
                    "  tilemap {}x{} tile={:?} ofs={:?} pxofs={:?} tileset={} tiles={}{}",
                    tm.width(),
                    tm.height(),
                    tm.tile_size(),
                    tm.tile_offsets(),
                    tm.pixel_offsets(),
                    tm.tileset().id(),
                    tiles,
                    if images { format!(" img={}", img_hash(&tm.image())) } else { String::new() }
                ));
            }
        }
    }
    // the optional utilities are observations of the sprite too (C16/C18): the palette mapper must not depend on
    // anything but the palette contents (e.g. not on a per-instance hash seed when colours occur more than once)
    #[cfg(feature = "utils")]
    if let Some(pal) = f.palette() {
        use crate::util::{to_indexed_image, MappingOptions, PaletteMapper};
        let mapper = PaletteMapper::new(pal, MappingOptions { failure: 255, transparent: Some(254) });
        let mut s = String::new();
        let mut idx: Vec<u32> = (0..300).filter(|i| pal.color(*i).is_some()).collect();
        idx.truncate(300);
        for i in idx {
            let c = pal.color(i).unwrap();
            s.push_str(&format!("{},", mapper.lookup(c.red(), c.green(), c.blue(), 255)));
        }
        o.push(format!("palette-mapper lookups of every entry colour: {}", s));
        if images && f.num_frames() > 0 {
            let (dim, data) = to_indexed_image(f.frame(0).image(), &mapper);
            let mut h = std::collections::hash_map::DefaultHasher::new();
            std::hash::Hash::hash(&data, &mut h);
            o.push(format!("to_indexed_image(frame 0) {:?} {:x}", dim, std::hash::Hasher::finish(&h)));
        }
    }
    o
}

pub fn first_diff(a: &[String], b: &[String]) -> Option<String> {
    for i in 0..a.len().max(b.len()) {
        let (x, y) = (a.get(i), b.get(i));
        if x != y {
            return Some(format!("line {}: {:?} vs {:?}", i, x, y));
        }
    }
    None
}
