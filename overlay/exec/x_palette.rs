//! C11: palettes decode correctly; new palette wins over legacy chunks; indexed files need a complete palette.
use super::enc::*;
use super::gen::*;
use super::x_structure::check_palette;
use super::xutil::*;
use crate::*;

#[test]
fn x_palette_precedence() {
    let mut st = Stats::new("x_palette_precedence", "seeded palettes (2..=256 entries, first index 0) x {new only, legacy 0x0004 only, legacy 0x0011 only, new+legacy in both orders and kinds}; legacy count byte 0 = 256 entries");
    let mut r = Rng::new(seed() ^ 0x1101);
    let n = budget(60, 600);
    for i in 0..n {
        let mut s = Sprite::new(2, 2, Fmt::Rgba, 1);
        s.layers.push(LayerM::image("a"));
        let cnt = *r.pick(&[2u32, 3, 7, 64, 255, 256]);
        s.palette = Some((0..cnt).map(|k| PalEntry { idx: k, rgba: [r.u8(), r.u8(), r.u8(), if r.chance(1, 3) { r.u8() } else { 255 }], name: if r.chance(1, 5) { Some(r.pick(NAMES).to_string()) } else { None } }).collect());
        let d = EncOpts::default();
        let combos = [
            ("new only", EncOpts { ..d.clone() }),
            ("legacy 0x0004 only", EncOpts { new_palette: false, legacy_palette: 4, ..d.clone() }),
            ("legacy 0x0011 only", EncOpts { new_palette: false, legacy_palette: 0x11, ..d.clone() }),
            ("legacy 0x0004 then new", EncOpts { legacy_palette: 4, legacy_first: true, ..d.clone() }),
            ("new then legacy 0x0004", EncOpts { legacy_palette: 4, legacy_first: false, ..d.clone() }),
            ("legacy 0x0011 then new", EncOpts { legacy_palette: 0x11, legacy_first: true, ..d.clone() }),
            ("new then legacy 0x0011", EncOpts { legacy_palette: 0x11, legacy_first: false, ..d.clone() }),
        ];
        for (name, o) in combos.iter() {
            let (bytes, _) = encode_with(&s, o);
            st.case(&bytes, true);
            match load(&bytes) {
                Err(e) => st.fail(format!("palette #{} [{}] fails to load: {}", i, name, e), Some(&bytes)),
                Ok(f) => {
                    if let Err(e) = check_palette(&s, o, &f) {
                        st.fail(format!("palette #{} ({} entries) [{}]: {}", i, cnt, name, e), Some(&bytes));
                    }
                }
            }
        }
    }
    // every 6-bit component value through a legacy 0x0011 chunk
    {
        let mut s = Sprite::new(1, 1, Fmt::Rgba, 1);
        s.layers.push(LayerM::image("a"));
        s.palette = Some((0..64u32).map(|k| PalEntry { idx: k, rgba: [(k << 2) as u8, ((63 - k) << 2) as u8, (k << 2) as u8, 255], name: None }).collect());
        let o = EncOpts { new_palette: false, legacy_palette: 0x11, ..EncOpts::default() };
        let (bytes, _) = encode_with(&s, &o);
        st.case(&bytes, true);
        match load(&bytes) {
            Err(e) => st.fail(format!("6-bit ramp fails to load: {}", e), Some(&bytes)),
            Ok(f) => {
                let p = f.palette().unwrap();
                for k in 0..64u32 {
                    let want = ((k << 2) | (k >> 4)) as u8;
                    if p.color(k).map(|c| (c.red(), c.alpha())) != Some((want, 255)) {
                        st.fail(format!("6-bit component {} scales to {:?}, expected {}", k, p.color(k).map(|c| c.red()), want), Some(&bytes));
                    }
                }
                if p.color(0).map(|c| c.red()) != Some(0) || p.color(63).map(|c| c.red()) != Some(255) {
                    st.fail("6-bit scaling end points".into(), Some(&bytes));
                }
            }
        }
    }
    // multi-packet legacy chunk with skips: entries at the cumulative skip offsets
    {
        let mut w = W::new();
        w.u16(2);
        w.u8(3);
        w.u8(2);
        w.bytes(&[10, 11, 12, 20, 21, 22]);
        w.u8(4);
        w.u8(1);
        w.bytes(&[30, 31, 32]);
        let s = {
            let mut s = Sprite::new(1, 1, Fmt::Rgba, 1);
            s.layers.push(LayerM::image("a"));
            s
        };
        let o = EncOpts::default();
        let mut out = header(&s, &o, 0);
        out.extend_from_slice(&frame_bytes(&[(0x2004, layer_payload(&s.layers[0], 0)), (0x0004, w.0.clone())], 100, &o));
        st.case(&out, true);
        match load(&out) {
            Err(e) => st.fail(format!("multi-packet legacy palette fails to load: {}", e), Some(&out)),
            Ok(f) => {
                let p = f.palette().unwrap();
                let got: Vec<(u32, [u8; 4])> = (0..12).filter_map(|i| p.color(i).map(|c| (i, c.raw_rgba8()))).collect();
                let want = vec![(3u32, [10u8, 11, 12, 255]), (4, [20, 21, 22, 255]), (7, [30, 31, 32, 255])];
                if got != want {
                    st.fail(format!("legacy packets with skips 3 and 4: entries {:?}, expected {:?}", got, want), Some(&out));
                }
            }
        }
    }
    st.sample("256 entries: legacy count byte 0 means 256".into());
    st.finish();
}

#[test]
fn x_indexed_needs_palette() {
    let mut st = Stats::new("x_indexed_needs_palette", "indexed sprites with pixels: no palette at all; every single pixel (cel and tileset) replaced by an index absent from a (possibly sparse) palette; all must fail to load, the unmodified file must load");
    let mut r = Rng::new(seed() ^ 0x1102);
    let n = budget(80, 800);
    let g = GenOpts { extras: false, ..GenOpts::default() };
    let mut done = 0;
    while done < n {
        let mut s = rand_sprite(&mut r, &g);
        if !matches!(s.fmt, Fmt::Indexed(_)) {
            continue;
        }
        let ncels: usize = s.frames.iter().map(|f| f.cels.iter().filter(|c| matches!(c.kind, CelKind::Raw { .. })).count()).sum();
        if ncels == 0 {
            continue;
        }
        done += 1;
        let bytes = encode(&s);
        st.case(&bytes, true);
        if let Err(e) = load(&bytes) {
            st.fail(format!("indexed model fails to load: {}", e), Some(&bytes));
            continue;
        }
        // no palette at all
        let o = EncOpts { new_palette: false, ..EncOpts::default() };
        let mut t = s.clone();
        t.sprite_ud = None;
        let (b2, _) = encode_with(&t, &o);
        st.case(&b2, true);
        if load(&b2).is_ok() {
            st.fail("indexed sprite with pixels but without any palette loads".into(), Some(&b2));
        }
        // an absent index in one pixel
        let pal = s.palette.clone().unwrap();
        let absent: Vec<u8> = (0..=255u8).filter(|i| !pal.iter().any(|e| e.idx == *i as u32)).collect();
        // two kinds of absent index: one BELOW the number of colours (exists for sparse palettes) and any other
        let below: Vec<u8> = absent.iter().copied().filter(|i| (*i as usize) < pal.len()).collect();
        let bads: Vec<u8> = if below.is_empty() { vec![*r.pick(&absent)] } else { vec![*r.pick(&below), *r.pick(&absent)] };
        for bad in bads {
        let mut targets = Vec::new();
        for (fi, f) in s.frames.iter().enumerate() {
            for (ci, c) in f.cels.iter().enumerate() {
                if let CelKind::Raw { px, .. } = &c.kind {
                    targets.push((fi, ci, r.below(px.len() as u64) as usize));
                }
            }
        }
        for (fi, ci, pi) in targets {
            let mut t = s.clone();
            if let CelKind::Raw { px, .. } = &mut t.frames[fi].cels[ci].kind {
                px[pi] = bad;
            }
            let b = encode(&t);
            st.case(&b, true);
            if load(&b).is_ok() {
                st.fail(format!("pixel index {} is absent from the palette (indices {:?}..) but the file loads", bad, pal[0].idx), Some(&b));
            }
        }
        for ti in 0..s.tilesets.len() {
            let mut t = s.clone();
            let k = r.below(t.tilesets[ti].px.len() as u64) as usize;
            t.tilesets[ti].px[k] = bad;
            let b = encode(&t);
            st.case(&b, true);
            if load(&b).is_ok() {
                st.fail(format!("tileset pixel index {} is absent from the palette but the file loads", bad), Some(&b));
            }
        }
        }
        s.sprite_ud = None;
    }
    st.sample("palette indices 3..=8, pixel 0 -> Err".into());
    st.finish();
}
