//! Bookkeeping for bounded-exec obligations: case counting (hashed), samples, failure reports.
#![allow(dead_code)]
use std::collections::hash_map::DefaultHasher;
use std::collections::HashSet;
use std::hash::{Hash, Hasher};

pub fn tier_thorough() -> bool {
    std::env::var("VERIF_TIER").ok().as_deref() == Some("thorough")
}
pub fn seed() -> u64 {
    std::env::var("VERIF_SEED").ok().and_then(|s| s.parse().ok()).unwrap_or(0)
}
/// n for the quick tier, m for the thorough tier
pub fn budget(quick: usize, thorough: usize) -> usize {
    if tier_thorough() {
        thorough
    } else {
        quick
    }
}

pub struct Stats {
    pub id: &'static str,
    pub evals: u64,
    pub distinct: HashSet<u64>,
    pub samples: Vec<String>,
    pub fails: Vec<String>,
    pub categories: HashSet<String>,
    pub bound: String,
    /// for obligations with millions of cases: a 2^26-bit Bloom-style bitset instead of a hash set;
    /// collisions only ever UNDER-count distinct cases
    pub bits: Vec<u64>,
    pub bits_set: u64,
}

pub fn hash_of<T: Hash>(t: &T) -> u64 {
    let mut h = DefaultHasher::new();
    t.hash(&mut h);
    h.finish()
}

fn jstr(s: &str) -> String {
    let mut o = String::from("\"");
    for c in s.chars() {
        match c {
            '"' => o.push_str("\\\""),
            '\\' => o.push_str("\\\\"),
            '\n' => o.push_str("\\n"),
            '\r' => o.push_str("\\r"),
            '\t' => o.push_str("\\t"),
            c if (c as u32) < 0x20 => o.push_str(&format!("\\u{:04x}", c as u32)),
            c => o.push(c),
        }
    }
    o.push('"');
    o
}

impl Stats {
    pub fn new(id: &'static str, bound: &str) -> Stats {
        Stats { id, evals: 0, distinct: HashSet::new(), samples: vec![], fails: vec![], categories: HashSet::new(), bound: bound.to_string(), bits: Vec::new(), bits_set: 0 }
    }
    /// one executed case; `key` identifies it, `nontrivial` says whether it exercises the property
    pub fn case<T: Hash>(&mut self, key: &T, nontrivial: bool) {
        self.evals += 1;
        if nontrivial {
            self.distinct.insert(hash_of(key));
        }
    }
    /// one executed case, counted in the bitset (cheap; conservative under-count of distinct cases)
    pub fn case_bits<T: Hash>(&mut self, key: &T) {
        self.evals += 1;
        if self.bits.is_empty() {
            self.bits = vec![0u64; 1 << 20];
        }
        let h = hash_of(key) & ((1 << 26) - 1);
        let (w, b) = ((h >> 6) as usize, h & 63);
        if self.bits[w] >> b & 1 == 0 {
            self.bits[w] |= 1 << b;
            self.bits_set += 1;
        }
    }
    pub fn sample(&mut self, s: String) {
        if self.samples.len() < 4 {
            self.samples.push(s);
        }
    }
    /// Record a failing case. Failures are grouped by category (the message with the bracketed input
    /// name removed and digits normalised); the first case of each category is written out and reported.
    pub fn fail(&mut self, what: String, file: Option<&[u8]>) {
        let mut cat = String::new();
        let mut depth = 0;
        let mut last_digit = false;
        for c in what.chars() {
            match c {
                '[' => depth += 1,
                ']' => depth -= 1,
                _ if depth > 0 => {}
                c if c.is_ascii_digit() => {
                    if !last_digit {
                        cat.push('N');
                    }
                    last_digit = true;
                    continue;
                }
                c => cat.push(c),
            }
            last_digit = false;
        }
        let first_of_category = self.categories.insert(cat);
        let mut w = what;
        if first_of_category && self.categories.len() <= 60 {
            if let (Some(bytes), Ok(dir)) = (file, std::env::var("VERIF_XOUT")) {
                let p = format!("{}/{}-{}.aseprite", dir, self.id, self.categories.len() - 1);
                if std::fs::write(&p, bytes).is_ok() {
                    w = format!("{} [input file: {}]", w, p);
                }
            }
            println!("XFAIL {{\"id\":{},\"what\":{}}}", jstr(self.id), jstr(&w));
        }
        self.fails.push(w);
    }
    pub fn finish(self) {
        let samples: Vec<String> = self.samples.iter().map(|s| jstr(s)).collect();
        println!(
            "XSTAT {{\"id\":{},\"evaluations\":{},\"distinct_nontrivial\":{},\"failures\":{},\"bound\":{},\"samples\":[{}]}}",
            jstr(self.id),
            self.evals,
            self.distinct.len() as u64 + self.bits_set,
            self.fails.len(),
            jstr(&self.bound),
            samples.join(",")
        );
        if !self.fails.is_empty() {
            panic!("{}: {} failing case(s); first: {}", self.id, self.fails.len(), self.fails[0]);
        }
    }
}

pub fn load(bytes: &[u8]) -> crate::Result<crate::AsepriteFile> {
    crate::AsepriteFile::read(bytes)
}
