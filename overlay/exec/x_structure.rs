//! C01 (decoded structure == model), C10 (user data attachment), C19 (access paths agree).
use super::enc::*;
use super::gen::*;
use super::xutil::*;
use crate::layer::verif_overlay::mode_id;
use crate::*;

fn ud_eq(got: Option<&UserData>, want: &Option<UD>) -> bool {
    match (got, want) {
        (None, None) => true,
        (Some(g), Some(w)) => g.text == w.text && g.color.map(|c| c.0) == w.color,
        _ => false,
    }
}

macro_rules! chk {
    ($c:expr, $($fmt:tt)*) => {
        if !($c) {
            return Err(format!($($fmt)*));
        }
    };
}

/// Every observable attribute of the loaded sprite equals the model (C01) incl. user data (C10).
pub fn check_structure(s: &Sprite, f: &AsepriteFile) -> std::result::Result<(), String> {
    chk!(f.width() == s.w as usize && f.height() == s.h as usize && f.size() == (s.w as usize, s.h as usize), "canvas size");
    chk!(f.num_frames() == s.frames.len() as u32, "frame count {} != {}", f.num_frames(), s.frames.len());
    chk!(f.num_layers() == s.layers.len() as u32, "layer count");
    match (&s.fmt, f.pixel_format()) {
        (Fmt::Rgba, PixelFormat::Rgba) | (Fmt::Gray, PixelFormat::Grayscale) => {
            chk!(f.transparent_color_index().is_none() && !f.is_indexed_color(), "direct colour accessors")
        }
        (Fmt::Indexed(t), PixelFormat::Indexed { transparent_color_index }) => {
            chk!(*t == transparent_color_index && f.transparent_color_index() == Some(*t) && f.is_indexed_color(), "transparent index")
        }
        _ => return Err("pixel format".into()),
    }
    for (i, fr) in s.frames.iter().enumerate() {
        let g = f.frame(i as u32);
        chk!(g.id() == i as u32 && g.duration() == fr.duration as u32, "frame {} duration {} != {}", i, g.duration(), fr.duration);
    }
    let mut n = 0;
    for (i, l) in f.layers().enumerate() {
        chk!(l.id() == i as u32, "layers() order");
        n += 1;
    }
    chk!(n == s.layers.len(), "layers() visits every layer once");
    for (i, m) in s.layers.iter().enumerate() {
        let l = f.layer(i as u32);
        chk!(l.name() == m.name, "layer {} name", i);
        chk!(l.flags().bits() == (m.flags & 0x7f) as u32, "layer {} flags {:x} != {:x}", i, l.flags().bits(), m.flags);
        chk!(mode_id(l.blend_mode()) == m.blend, "layer {} blend mode", i);
        chk!(l.opacity() == m.opacity, "layer {} opacity", i);
        let ty = match l.layer_type() {
            LayerType::Image => (0, None),
            LayerType::Group => (1, None),
            LayerType::Tilemap(t) => (2, Some(t)),
        };
        chk!(ty.0 == m.ty && (m.ty != 2 || ty.1 == Some(m.tileset)), "layer {} type", i);
        chk!(l.is_tilemap() == (m.ty == 2), "is_tilemap");
        chk!(ud_eq(l.user_data(), &m.ud), "layer {} user data {:?} != {:?}", i, l.user_data(), m.ud);
        let first = s.layers.iter().position(|x| x.name == m.name).unwrap();
        chk!(f.layer_by_name(&m.name).map(|x| x.id()) == Some(first as u32), "layer_by_name returns the lowest id");
    }
    chk!(f.layer_by_name("\u{0}no such layer").is_none(), "layer_by_name of an absent name");
    // near misses: the lookup is by EXACT name (case, surrounding blanks, prefixes are different names)
    for m in s.layers.iter() {
        for q in [m.name.to_uppercase(), m.name.to_lowercase(), format!("{} ", m.name), format!(" {}", m.name), m.name.chars().skip(1).collect::<String>()] {
            let want = s.layers.iter().position(|x| x.name == q).map(|i| i as u32);
            chk!(f.layer_by_name(&q).map(|x| x.id()) == want, "layer_by_name({:?}) must be the lowest layer with exactly that name ({:?})", q, want);
        }
    }
    chk!(f.num_tags() == s.tags.len() as u32, "tag count");
    chk!(f.get_tag(s.tags.len() as u32).is_none() && f.get_tag(u32::MAX).is_none(), "get_tag out of range");
    for (i, m) in s.tags.iter().enumerate() {
        for t in [f.tag(i as u32), f.get_tag(i as u32).unwrap()] {
            chk!(t.name() == m.name && t.from_frame() == m.from as u32 && t.to_frame() == m.to as u32, "tag {} name/range", i);
            let dir = match t.animation_direction() {
                AnimationDirection::Forward => 0,
                AnimationDirection::Reverse => 1,
                AnimationDirection::PingPong => 2,
            };
            chk!(dir == m.dir, "tag {} direction", i);
            chk!(t.repeat().map_or(0, |r| r.get()) == m.repeat as u32, "tag {} repeat", i);
            chk!(ud_eq(t.user_data(), &m.ud) || (m.ud.is_none() && t.user_data().map_or(true, |u| u.text.is_none() && u.color.is_none())), "tag {} user data {:?} vs {:?}", i, t.user_data(), m.ud);
        }
        let first = s.tags.iter().position(|x| x.name == m.name).unwrap();
        let bn = f.tag_by_name(&m.name).unwrap();
        chk!(std::ptr::eq(bn, f.tag(first as u32)), "tag_by_name returns the lowest id");
    }
    chk!(f.tag_by_name("\u{0}none").is_none(), "tag_by_name absent");
    for m in s.tags.iter() {
        for q in [m.name.to_uppercase(), m.name.to_lowercase(), format!("{} ", m.name), m.name.chars().skip(1).collect::<String>()] {
            let want = s.tags.iter().position(|x| x.name == q);
            let got = f.tag_by_name(&q);
            chk!(got.is_some() == want.is_some() && want.map_or(true, |i| std::ptr::eq(got.unwrap(), f.tag(i as u32))), "tag_by_name({:?}) must be the lowest tag with exactly that name", q);
        }
    }
    chk!(f.slices().len() == s.slices.len(), "slice count");
    for (i, m) in s.slices.iter().enumerate() {
        let g = &f.slices()[i];
        chk!(g.name == m.name && g.keys.len() == m.keys.len(), "slice {} name / key count", i);
        chk!(ud_eq(g.user_data.as_ref(), &m.ud), "slice {} user data", i);
        let has9 = m.keys.first().map_or(false, |k| k.nine.is_some());
        let hasp = m.keys.first().map_or(false, |k| k.pivot.is_some());
        for (k, mk) in m.keys.iter().enumerate() {
            let gk = &g.keys[k];
            chk!(gk.from_frame == mk.frame && gk.origin == (mk.x, mk.y) && gk.size == (mk.w, mk.h), "slice {} key {} geometry", i, k);
            let g9 = gk.slice9.as_ref().map(|n| (n.center_x, n.center_y, n.center_width, n.center_height));
            chk!(g9 == if has9 { mk.nine } else { None }, "slice {} key {} nine-patch", i, k);
            chk!(gk.pivot == if hasp { mk.pivot } else { None }, "slice {} key {} pivot", i, k);
        }
    }
    chk!(f.external_files().map().len() == s.ext_files.len(), "external file count");
    for (id, name) in &s.ext_files {
        let e = f.external_file_by_id(&ExternalFileId::new(*id));
        chk!(e.map(|e| (e.id().value(), e.name())) == Some((*id, name.as_str())), "external file {}", id);
        chk!(f.external_files().get(&ExternalFileId::new(*id)).is_some(), "external_files().get");
    }
    chk!(f.external_file_by_id(&ExternalFileId::new(0xFFFF_FFF0)).is_none(), "absent external file");
    chk!(f.tilesets().len() == s.tilesets.len() as u32 && f.tilesets().is_empty() == s.tilesets.is_empty(), "tileset count");
    chk!(f.tilesets().iter().count() == s.tilesets.len(), "tilesets().iter()");
    for m in &s.tilesets {
        let t = match f.tilesets().get(m.id) {
            Some(t) => t,
            None => return Err(format!("tileset {} missing", m.id)),
        };
        chk!(t.id() == m.id && t.tile_count() == m.count && t.tile_size().width() == m.tw && t.tile_size().height() == m.th, "tileset {} geometry", m.id);
        chk!(t.base_index() == m.base && t.name() == m.name && t.empty_tile_is_id_zero() == (m.flags & 4 != 0), "tileset {} attributes", m.id);
        chk!(t.external_file().map(|e| (e.external_file_id().value(), e.tileset_id())) == if m.flags & 1 != 0 { m.external } else { None }, "tileset external ref");
    }
    chk!(f.tilesets().get(0xFFFF_FFF1).is_none(), "absent tileset");
    chk!(ud_eq(f.sprite_user_data(), &s.sprite_ud), "sprite user data");
    // cels: presence, offsets, user data (C06 accessors, C10)
    for fi in 0..s.frames.len() {
        for li in 0..s.layers.len() {
            let c = f.cel(fi as u32, li as u32);
            let m = s.frames[fi].cels.iter().find(|c| c.layer as usize == li);
            chk!(c.frame() == fi as u32 && c.layer() == li as u32, "cel coordinates ({}, {})", fi, li);
            match m {
                None => chk!(c.is_empty() && c.top_left() == (0, 0) && c.user_data().is_none() && !c.is_tilemap(), "absent cel ({}, {})", fi, li),
                Some(m) => {
                    chk!(!c.is_empty() && c.top_left() == (m.x as i32, m.y as i32), "cel ({}, {}) offset {:?} != ({}, {})", fi, li, c.top_left(), m.x, m.y);
                    chk!(ud_eq(c.user_data(), &m.ud), "cel ({}, {}) user data", fi, li);
                    chk!(c.is_tilemap() == matches!(m.kind, CelKind::Tilemap { .. }), "is_tilemap");
                }
            }
        }
    }
    Ok(())
}

pub fn check_palette(s: &Sprite, o: &EncOpts, f: &AsepriteFile) -> std::result::Result<(), String> {
    match (&expected_palette(s, o), f.palette()) {
        (None, None) => Ok(()),
        (Some(p), Some(g)) => {
            chk!(g.num_colors() == p.len() as u32, "palette size {} != {}", g.num_colors(), p.len());
            for e in p {
                let c = match g.color(e.idx) {
                    Some(c) => c,
                    None => return Err(format!("palette entry {} missing", e.idx)),
                };
                chk!(c.id() == e.idx && c.raw_rgba8() == e.rgba && c.name() == e.name.as_deref(), "palette entry {}", e.idx);
                chk!([c.red(), c.green(), c.blue(), c.alpha()] == e.rgba, "palette entry {} components", e.idx);
            }
            let first = p[0].idx;
            let last = p[p.len() - 1].idx;
            chk!((first == 0 || g.color(first - 1).is_none()) && g.color(last + 1).is_none(), "entries outside the range");
            Ok(())
        }
        _ => Err("palette presence".into()),
    }
}

#[test]
fn x_roundtrip_structure() {
    let mut st = Stats::new("x_roundtrip_structure", "seeded random models: <=4 layers, <=3 frames, canvas <=6x6, <=3 tags/slices/files, <=2 tilesets; boundary-biased attribute values");
    let n = budget(600, 6000);
    let g = GenOpts::default();
    let mut r = Rng::new(seed() ^ 0x5101);
    for i in 0..n {
        let s = rand_sprite(&mut r, &g);
        let bytes = encode(&s);
        st.case(&bytes, s.layers.len() > 1 || !s.tags.is_empty());
        match load(&bytes) {
            Err(e) => st.fail(format!("well-formed model #{} fails to load: {}", i, e), Some(&bytes)),
            Ok(f) => {
                if let Err(e) = check_structure(&s, &f).and_then(|_| check_palette(&s, &EncOpts::default(), &f)) {
                    st.fail(format!("model #{}: {}", i, e), Some(&bytes));
                }
            }
        }
        if i < 2 {
            st.sample(format!("{}x{} {:?} frames={} layers={:?} tags={} slices={}", s.w, s.h, s.fmt, s.frames.len(), s.layers.iter().map(|l| (l.ty, l.level)).collect::<Vec<_>>(), s.tags.len(), s.slices.len()));
        }
    }
    st.finish();
}

#[test]
fn x_header_extremes() {
    // frame counts up to the format maximum (header-only frames), extreme canvas sizes, durations
    let mut st = Stats::new("x_header_extremes", "frame counts {1,2,255,256,65535} x canvas {1,65535} x durations; no cels");
    for &nf in &[1usize, 2, 255, 256, 65535] {
        for &(w, h) in &[(1u16, 1u16), (65535, 1), (1, 65535), (640, 480)] {
            let mut s = Sprite::new(w, h, Fmt::Rgba, nf);
            for (i, f) in s.frames.iter_mut().enumerate() {
                f.duration = (i as u16).wrapping_mul(257) ^ 0x8001;
            }
            s.layers.push(LayerM::image("only"));
            let bytes = encode(&s);
            st.case(&bytes, true);
            match load(&bytes) {
                Err(e) => st.fail(format!("{} frames {}x{} fails to load: {}", nf, w, h, e), None),
                Ok(f) => {
                    if let Err(e) = check_structure(&s, &f) {
                        st.fail(format!("{} frames {}x{}: {}", nf, w, h, e), None);
                    }
                }
            }
        }
    }
    st.sample("65535 header-only frames, 1x65535 canvas".into());
    st.finish();
}

/// C19: the three routes to a cel agree (coordinates, emptiness, offset, user data, image).
pub fn check_routes(f: &AsepriteFile, images: bool) -> std::result::Result<(), String> {
    for fr in 0..f.num_frames() {
        for l in 0..f.num_layers() {
            let a = f.cel(fr, l);
            let frame = f.frame(fr);
            let b = frame.layer(l);
            let layer = f.layer(l);
            let c = layer.frame(fr);
            for (nm, x) in [("frame.layer", &b), ("layer.frame", &c)] {
                chk!((x.frame(), x.layer()) == (fr, l) && (a.frame(), a.layer()) == (fr, l), "{}: coordinates at ({}, {})", nm, fr, l);
                chk!(x.is_empty() == a.is_empty() && x.top_left() == a.top_left() && x.is_tilemap() == a.is_tilemap(), "{}: emptiness/offset at ({}, {})", nm, fr, l);
                chk!(x.user_data() == a.user_data(), "{}: user data at ({}, {})", nm, fr, l);
                if images {
                    chk!(x.image() == a.image(), "{}: image at ({}, {})", nm, fr, l);
                }
            }
            if let Some(tm) = f.tilemap(l, fr) {
                if images {
                    chk!(tm.image() == a.image(), "tilemap image != cel image at ({}, {})", fr, l);
                }
            }
        }
    }
    Ok(())
}

#[test]
fn x_routes() {
    let mut st = Stats::new("x_routes", "random models with frames != layers (1..4 x 1..4), every (frame, layer)");
    let n = budget(200, 2000);
    let mut r = Rng::new(seed() ^ 0x1901);
    let mut done = 0;
    while done < n {
        let g = GenOpts { max_frames: 4, max_layers: 4, ..GenOpts::default() };
        let s = rand_sprite(&mut r, &g);
        if s.frames.len() == s.layers.len() {
            continue;
        }
        done += 1;
        let bytes = encode(&s);
        st.case(&bytes, true);
        match load(&bytes) {
            Err(e) => st.fail(format!("load: {}", e), Some(&bytes)),
            Ok(f) => {
                if let Err(e) = check_routes(&f, true) {
                    st.fail(e, Some(&bytes));
                }
                // a frame in which exactly one visible layer has a cel renders exactly that cel's image
                for fr in 0..f.num_frames() {
                    let vis: Vec<u32> = (0..f.num_layers()).filter(|&l| f.layer(l).is_visible() && !f.cel(fr, l).is_empty()).collect();
                    if vis.len() == 1 && f.frame(fr).image() != f.cel(fr, vis[0]).image() {
                        st.fail(format!("single visible cel: frame {} image != cel ({}, {}) image", fr, fr, vis[0]), Some(&bytes));
                    }
                }
            }
        }
        if done == 1 {
            st.sample(format!("{} frames x {} layers", s.frames.len(), s.layers.len()));
        }
    }
    // layer ids are u32 in the API but cel ids store the layer as u16: a sprite with more layers than a cel can
    // name must either be refused or keep every id distinct (65537 layers, one cel in layer 0; ~1.6 MB)
    for nlayers in [65536usize, 65537] {
        let mut s = Sprite::new(1, 1, Fmt::Rgba, 1);
        for _ in 0..nlayers {
            s.layers.push(LayerM::image(""));
        }
        s.frames[0].cels.push(CelM { layer: 0, x: 0, y: 0, opacity: 255, kind: CelKind::Raw { w: 1, h: 1, px: vec![255, 0, 0, 255] }, ud: None, zlib: None });
        let bytes = encode(&s);
        st.case(&(nlayers, bytes.len()), true);
        if let Ok(f) = load(&bytes) {
            for l in [0u32, 1, 65535, nlayers as u32 - 1] {
                let a = f.cel(0, l);
                let frame = f.frame(0);
                let b = frame.layer(l);
                let layer = f.layer(l);
                let c = layer.frame(0);
                for (nm, x) in [("direct", &a), ("frame.layer", &b), ("layer.frame", &c)] {
                    if (x.frame(), x.layer()) != (0, l) || x.is_empty() != (l != 0) {
                        st.fail(format!("{} layers: route {} to cel (0, {}) reports frame {}, layer {}, empty {} (the only cel is in layer 0)", nlayers, nm, l, x.frame(), x.layer(), x.is_empty()), None);
                    }
                }
            }
        } else if nlayers <= 65536 {
            st.fail(format!("a sprite with {} layers (all addressable by a 16-bit cel layer index) is refused", nlayers), None);
        }
    }
    st.finish();
}
