//! C02 (frame composition), C06 (cel pixels), C08 (tilemaps), C09 (parents / visibility).
use super::enc::*;
use super::gen::*;
use super::spec_img::*;
use super::xutil::*;
use crate::*;

pub fn check_images(s: &Sprite, f: &AsepriteFile) -> std::result::Result<(), String> {
    for fi in 0..s.frames.len() {
        img_eq(&f.frame(fi as u32).image(), &frame_image(s, fi), s.w, s.h).map_err(|e| format!("frame {} image: {}", fi, e))?;
        for li in 0..s.layers.len() {
            img_eq(&f.cel(fi as u32, li as u32).image(), &cel_image(s, fi, li), s.w, s.h).map_err(|e| format!("cel ({}, {}) image: {}", fi, li, e))?;
        }
    }
    for li in 0..s.layers.len() {
        let l = f.layer(li as u32);
        if l.parent().map(|p| p.id() as usize) != parent(s, li) {
            return Err(format!("layer {} parent {:?} != {:?}", li, l.parent().map(|p| p.id()), parent(s, li)));
        }
        if l.is_visible() != visible(s, li) {
            return Err(format!("layer {} visibility", li));
        }
    }
    Ok(())
}

#[test]
fn x_frames_vs_spec() {
    let mut st = Stats::new("x_frames_vs_spec", "seeded random stacks: <=5 layers, all 19 modes, opacities 0..255, hidden layers/groups, linked/empty/tilemap cels, offsets incl. i16 extremes, canvas <=6x6");
    let n = budget(500, 6000);
    let g = GenOpts { max_layers: 5, extras: false, ..GenOpts::default() };
    let mut r = Rng::new(seed() ^ 0x0201);
    for i in 0..n {
        let s = rand_sprite(&mut r, &g);
        let bytes = encode(&s);
        let ncels: usize = s.frames.iter().map(|f| f.cels.len()).sum();
        st.case(&bytes, ncels >= 2);
        match load(&bytes) {
            Err(e) => st.fail(format!("model #{} fails to load: {}", i, e), Some(&bytes)),
            Ok(f) => {
                if let Err(e) = check_images(&s, &f) {
                    st.fail(format!("model #{}: {}", i, e), Some(&bytes));
                }
            }
        }
        if i < 2 {
            st.sample(format!("{}x{} {:?}: layers (mode, opacity, flags) {:?}; cels per frame {:?}", s.w, s.h, s.fmt, s.layers.iter().map(|l| (l.blend, l.opacity, l.flags)).collect::<Vec<_>>(), s.frames.iter().map(|f| f.cels.len()).collect::<Vec<_>>()));
        }
    }
    st.finish();
}

#[test]
fn x_cel_order_irrelevant() {
    // all permutations of the cel chunks of a frame (<= 4 cels) give the same frame image
    let mut st = Stats::new("x_cel_order_irrelevant", "all permutations of <=4 cel chunks per frame on seeded 4-layer stacks");
    let n = budget(40, 400);
    let g = GenOpts { max_layers: 4, max_frames: 1, extras: false, tilemaps: false, ..GenOpts::default() };
    let mut r = Rng::new(seed() ^ 0x0202);
    for _ in 0..n {
        let s = rand_sprite(&mut r, &g);
        let k = s.frames[0].cels.len();
        let nperm: u64 = (1..=k as u64).product();
        let want = frame_image(&s, 0);
        for p in 0..nperm {
            let o = EncOpts { cel_perm: p, ..EncOpts::default() };
            let (bytes, _) = encode_with(&s, &o);
            st.case(&bytes, k >= 2 && p > 0);
            match load(&bytes) {
                Err(e) => st.fail(format!("permutation {} fails to load: {}", p, e), Some(&bytes)),
                Ok(f) => {
                    if let Err(e) = img_eq(&f.frame(0).image(), &want, s.w, s.h) {
                        st.fail(format!("cel chunk permutation {} of {} changes the frame image: {}", p, nperm, e), Some(&bytes));
                    }
                }
            }
        }
    }
    st.sample("4 cels, 24 chunk orders".into());
    st.finish();
}

#[test]
fn x_forest_exhaustive() {
    // C09: every forest level sequence of up to N layers x every visible-flag assignment
    let maxn = budget(6, 8);
    let mut st = Stats::new("x_forest_exhaustive", &format!("EXHAUSTIVE: every level sequence (first 0, each <= previous+1) of 1..={} layers x all visible-flag assignments", maxn));
    fn rec(levels: &mut Vec<u16>, maxn: usize, st: &mut Stats) {
        if !levels.is_empty() {
            run_forest(levels, st);
        }
        if levels.len() == maxn {
            return;
        }
        let max = if levels.is_empty() { 0 } else { levels[levels.len() - 1] + 1 };
        for lv in 0..=max {
            levels.push(lv);
            rec(levels, maxn, st);
            levels.pop();
        }
    }
    fn run_forest(levels: &[u16], st: &mut Stats) {
        let n = levels.len();
        for mask in 0u32..(1 << n) {
            let mut s = Sprite::new(2, 1, Fmt::Rgba, 1);
            for (i, &lv) in levels.iter().enumerate() {
                let mut l = LayerM::image("l");
                l.level = lv;
                l.flags = if mask >> i & 1 == 1 { 1 } else { 0 };
                // a layer is a group iff the next layer is its child
                l.ty = if i + 1 < n && levels[i + 1] > lv { 1 } else { 0 };
                s.layers.push(l);
                if s.layers[i].ty == 0 {
                    // each image layer paints pixel 0 with its own opaque colour and pixel 1 additively
                    s.frames[0].cels.push(CelM { layer: i as u16, x: 0, y: 0, opacity: 255, kind: CelKind::Raw { w: 2, h: 1, px: vec![i as u8 + 1, 0, 0, 255, 0, 1 << (i % 8), 0, 40] }, ud: None, zlib: None });
                }
            }
            let bytes = encode(&s);
            st.case(&(levels.to_vec(), mask), n >= 2);
            match load(&bytes) {
                Err(e) => st.fail(format!("forest {:?} fails to load: {}", levels, e), Some(&bytes)),
                Ok(f) => {
                    if let Err(e) = check_images(&s, &f) {
                        st.fail(format!("forest {:?} flags {:b}: {}", levels, mask, e), Some(&bytes));
                    }
                    for i in 0..n {
                        if let Some(p) = f.layer(i as u32).parent() {
                            if p.id() >= i as u32 {
                                st.fail(format!("forest {:?}: parent id {} >= child id {}", levels, p.id(), i), Some(&bytes));
                            }
                        }
                    }
                }
            }
        }
    }
    let mut lv = Vec::new();
    rec(&mut lv, maxn, &mut st);
    st.sample("levels [0,1,2,1,0,1] x 64 flag assignments".into());
    st.finish();
}
