//! C04 (loading is total) and C05 (a sprite that loads is fully usable): fault enumeration.
//! Hostile inputs are processed by a CHILD PROCESS (this test binary re-executed) on a 2 MiB thread,
//! so that aborts (allocation failure), stack overflows and hangs are observed as the child's fate.
use super::enc::*;
use super::gen::*;
use super::obs::observe;
use super::xutil::*;
use crate::*;
use std::io::{BufRead, BufReader, Read, Write};
use std::process::{Command, Stdio};
use std::time::{Duration, Instant};

#[derive(Debug, Clone, PartialEq)]
pub enum Fate {
    Loaded,           // Ok and (if probed) every accessor returned
    Rejected,         // Err value
    PanicLoad(String),
    PanicUse(String), // loaded, then an accessor panicked
    Abort(String),    // child died while loading (abort / SIGSEGV / stack overflow)
    Hang,
    AbortUse(String), // child died after a successful load, inside an accessor
    HangUse,
    NotRun,           // the sweep was cut short: 6 inputs already hung / killed the child (each costs 20 s)
}
/// hangs and aborts seen so far in this process (all batches)
pub static DEAD_CHILDREN: std::sync::atomic::AtomicUsize = std::sync::atomic::AtomicUsize::new(0);
const MAX_DEAD_CHILDREN: usize = 6;

/// Everything C05 lists, on a loaded sprite. Canvas area is capped so that legitimately huge
/// canvases are not rendered.
pub fn use_everything(f: &AsepriteFile) {
    let small = f.width() * f.height() <= 1 << 16;
    let _ = format!("{:?}", f);
    let _ = observe(f, small);
    for fr in 0..f.num_frames().min(4) {
        for l in 0..f.num_layers().min(64) {
            if let Some(tm) = f.tilemap(l, fr) {
                for &x in &[0u32, 1, tm.width().wrapping_sub(1), tm.width(), (1 << 31) - 1, 1 << 31, u32::MAX] {
                    for &y in &[0u32, 1, tm.height().wrapping_sub(1), tm.height(), (1 << 31) - 1, 1 << 31, u32::MAX] {
                        let _ = tm.tile(x, y).id();
                    }
                }
                let _ = tm.tileset().tile_count();
            }
        }
    }
    for t in f.tilesets().iter() {
        if (t.tile_count() as u64) * (t.tile_size().width() as u64) * (t.tile_size().height() as u64) <= 1 << 16 {
            let _ = t.image();
            for i in 0..t.tile_count().min(16) {
                let _ = t.tile_image(i);
            }
        }
    }
    // deep ancestor walks
    if f.num_layers() > 0 {
        let _ = f.layer(f.num_layers() - 1).is_visible();
    }
}

fn panic_msg(e: Box<dyn std::any::Any + Send>) -> String {
    if let Some(s) = e.downcast_ref::<&str>() {
        s.to_string()
    } else if let Some(s) = e.downcast_ref::<String>() {
        s.clone()
    } else {
        "panic".to_string()
    }
}

fn run_one(bytes: &[u8], probe: bool) -> Fate {
    let r = std::panic::catch_unwind(|| AsepriteFile::read(bytes));
    match r {
        Err(e) => Fate::PanicLoad(panic_msg(e).chars().take(160).collect()),
        Ok(Err(_)) => Fate::Rejected,
        Ok(Ok(f)) => {
            if !probe {
                return Fate::Loaded;
            }
            {
                let out = std::io::stdout();
                let mut o = out.lock();
                let _ = writeln!(o, "CLOAD");
                let _ = o.flush();
            }
            match std::panic::catch_unwind(std::panic::AssertUnwindSafe(|| use_everything(&f))) {
                Ok(()) => Fate::Loaded,
                Err(e) => Fate::PanicUse(panic_msg(e).chars().take(160).collect()),
            }
        }
    }
}

#[repr(C)]
struct RLimit {
    cur: u64,
    max: u64,
}
extern "C" {
    fn setrlimit(resource: i32, rlim: *const RLimit) -> i32;
}
/// RLIMIT_AS (Linux: resource 9) for this process; best effort
fn limit_address_space(bytes: u64) {
    #[cfg(target_os = "linux")]
    unsafe {
        let l = RLimit { cur: bytes, max: bytes };
        let _ = setrlimit(9, &l);
    }
}

/// Child entry point: reads a batch file (u32 count, then u32 len + bytes each) and prints one line per case.
#[test]
fn x_child() {
    let path = match std::env::var("VERIF_CHILD_BATCH") {
        Ok(p) => p,
        Err(_) => return,
    };
    let start: usize = std::env::var("VERIF_CHILD_START").ok().and_then(|s| s.parse().ok()).unwrap_or(0);
    let probe = std::env::var("VERIF_CHILD_PROBE").is_ok();
    // Memory policy of the child: 4 GiB of address space. Every input of the sweeps is smaller than 64 KiB, for
    // which even the generous budget of property C12 (64 MiB + 8 KiB per input byte) is below 1 GiB - so an
    // allocation failure (= process abort) under this limit is caused by a size that is merely DECLARED in the file.
    limit_address_space(4 << 30);
    let mut data = Vec::new();
    std::fs::File::open(&path).unwrap().read_to_end(&mut data).unwrap();
    std::panic::set_hook(Box::new(|_| {}));
    let h = std::thread::Builder::new()
        .stack_size(2 * 1024 * 1024)
        .spawn(move || {
            let n = u32::from_le_bytes([data[0], data[1], data[2], data[3]]) as usize;
            let mut p = 4;
            let out = std::io::stdout();
            for i in 0..n {
                let len = u32::from_le_bytes([data[p], data[p + 1], data[p + 2], data[p + 3]]) as usize;
                p += 4;
                let bytes = &data[p..p + len];
                p += len;
                if i < start {
                    continue;
                }
                {
                    let mut o = out.lock();
                    let _ = writeln!(o, "CBEGIN {}", i);
                    let _ = o.flush();
                }
                let fate = run_one(bytes, probe);
                let mut o = out.lock();
                let _ = match fate {
                    Fate::Loaded => writeln!(o, "CEND {} L", i),
                    Fate::Rejected => writeln!(o, "CEND {} R", i),
                    Fate::PanicLoad(m) => writeln!(o, "CEND {} P {}", i, m.replace('\n', " ")),
                    Fate::PanicUse(m) => writeln!(o, "CEND {} U {}", i, m.replace('\n', " ")),
                    _ => Ok(()),
                };
                let _ = o.flush();
            }
        })
        .unwrap();
    let _ = h.join();
    println!("CDONE");
}

/// watchdog budget in seconds (20 for a sweep; 180 while ONE input that exceeded it is re-run alone to confirm the hang)
pub static WATCHDOG_SECS: std::sync::atomic::AtomicU64 = std::sync::atomic::AtomicU64::new(20);

/// Run a batch in child processes; returns one fate per input.
pub fn run_batch(inputs: &[Vec<u8>], probe: bool, tag: &str) -> Vec<Fate> {
    let dir = std::env::var("VERIF_XTMP").unwrap_or_else(|_| std::env::temp_dir().to_string_lossy().to_string());
    let path = format!("{}/verif-batch-{}-{}.bin", dir, tag, std::process::id());
    {
        let mut f = std::io::BufWriter::new(std::fs::File::create(&path).unwrap());
        f.write_all(&(inputs.len() as u32).to_le_bytes()).unwrap();
        for i in inputs {
            f.write_all(&(i.len() as u32).to_le_bytes()).unwrap();
            f.write_all(i).unwrap();
        }
    }
    let mut fates: Vec<Option<Fate>> = vec![None; inputs.len()];
    let mut start = 0usize;
    let exe = std::env::current_exe().unwrap();
    let mut cut_short = false;
    while start < inputs.len() {
        if DEAD_CHILDREN.load(std::sync::atomic::Ordering::SeqCst) >= MAX_DEAD_CHILDREN {
            cut_short = true;
            break;
        }
        let mut child = Command::new(&exe)
            .args(["verif_exec::x_total::x_child", "--exact", "--nocapture", "--test-threads", "1"])
            .env("VERIF_CHILD_BATCH", &path)
            .env("VERIF_CHILD_START", start.to_string())
            .envs(if probe { vec![("VERIF_CHILD_PROBE", "1")] } else { vec![] })
            .env("RUST_MIN_STACK", "2097152")
            .stdout(Stdio::piped())
            .stderr(Stdio::piped())
            .spawn()
            .unwrap();
        let stdout = child.stdout.take().unwrap();
        let mut stderr = child.stderr.take().unwrap();
        // reader thread + watchdog: 20 s without progress = hang
        let (tx, rx) = std::sync::mpsc::channel::<String>();
        let t = std::thread::spawn(move || {
            for line in BufReader::new(stdout).lines().flatten() {
                if tx.send(line).is_err() {
                    break;
                }
            }
        });
        let errt = std::thread::spawn(move || {
            let mut s = String::new();
            let _ = stderr.read_to_string(&mut s);
            s
        });
        let mut current: Option<usize> = None;
        let mut loaded = false;
        let mut done = false;
        let mut hung = false;
        loop {
            match rx.recv_timeout(Duration::from_secs(WATCHDOG_SECS.load(std::sync::atomic::Ordering::SeqCst))) {
                Ok(line) => {
                    let mut it = line.splitn(4, ' ');
                    match it.next() {
                        Some("CBEGIN") => {
                            current = it.next().and_then(|x| x.parse().ok());
                            loaded = false;
                        }
                        Some("CLOAD") => loaded = true,
                        Some("CEND") => {
                            let i: usize = it.next().and_then(|x| x.parse().ok()).unwrap();
                            let k = it.next().unwrap_or("");
                            let msg = it.next().unwrap_or("").to_string();
                            fates[i] = Some(match k {
                                "L" => Fate::Loaded,
                                "R" => Fate::Rejected,
                                "P" => Fate::PanicLoad(msg),
                                _ => Fate::PanicUse(msg),
                            });
                            current = None;
                            start = i + 1;
                        }
                        Some("CDONE") => done = true,
                        _ => {}
                    }
                }
                Err(std::sync::mpsc::RecvTimeoutError::Timeout) => {
                    hung = true;
                    let _ = child.kill();
                    break;
                }
                Err(_) => break,
            }
        }
        let status = child.wait().ok();
        let _ = t.join();
        let err = errt.join().unwrap_or_default();
        if done {
            break;
        }
        // the child died or hung while processing `current`
        let i = current.unwrap_or(start);
        if i >= inputs.len() {
            break;
        }
        // a wall-clock watchdog must not turn a loaded machine into a finding: an input that exceeded the budget is
        // re-run ALONE with nine times the budget; only if it still does not return is it a hang (DESIGN 10.6)
        if hung && WATCHDOG_SECS.load(std::sync::atomic::Ordering::SeqCst) == 20 {
            WATCHDOG_SECS.store(180, std::sync::atomic::Ordering::SeqCst);
            let again = run_batch(&inputs[i..i + 1], probe, &format!("{}-confirm", tag));
            WATCHDOG_SECS.store(20, std::sync::atomic::Ordering::SeqCst);
            match again.into_iter().next() {
                Some(Fate::Hang) | Some(Fate::HangUse) | Some(Fate::NotRun) | None => {}
                Some(f) => {
                    fates[i] = Some(f);
                    start = i + 1;
                    continue;
                }
            }
        }
        let why = err.lines().rev().find(|l| !l.trim().is_empty()).unwrap_or("").chars().take(160).collect::<String>();
        let desc = format!("{:?} {}", status.map(|s| s.to_string()), why);
        DEAD_CHILDREN.fetch_add(1, std::sync::atomic::Ordering::SeqCst);
        fates[i] = Some(match (hung, loaded) {
            (true, false) => Fate::Hang,
            (true, true) => Fate::HangUse,
            (false, false) => Fate::Abort(desc),
            (false, true) => Fate::AbortUse(desc),
        });
        start = i + 1;
    }
    let _ = std::fs::remove_file(&path);
    fates.into_iter().map(|f| f.unwrap_or(if cut_short { Fate::NotRun } else { Fate::Abort("no report".into()) })).collect()
}

pub const BOUNDARY: &[u64] = &[0, 1, 2, 0x7f, 0x80, 0xfe, 0xff, 0x100, 0x7fff, 0x8000, 0xfffe, 0xffff, 0x10000, 0x7fff_ffff, 0x8000_0000, 0xffff_fffe, 0xffff_ffff];

/// every 1/2/4-byte window of the file set to each boundary value that fits
pub fn window_mutants(base: &[u8], stride: usize, out: &mut Vec<Vec<u8>>) {
    let mut off = 0;
    while off < base.len() {
        for &w in &[1usize, 2, 4] {
            if off + w > base.len() {
                continue;
            }
            for &v in BOUNDARY {
                if w < 8 && v >= 1u64 << (8 * w) {
                    continue;
                }
                let mut m = base.to_vec();
                m[off..off + w].copy_from_slice(&v.to_le_bytes()[..w]);
                if m != base {
                    out.push(m);
                }
            }
        }
        off += stride;
    }
}

pub fn double_mutants(base: &[u8], r: &mut Rng, n: usize, out: &mut Vec<Vec<u8>>) {
    for _ in 0..n {
        let mut m = base.to_vec();
        for _ in 0..2 {
            let w = *r.pick(&[1usize, 2, 4]);
            if m.len() < w {
                continue;
            }
            let off = r.below((m.len() - w + 1) as u64) as usize;
            let mut v = *r.pick(BOUNDARY);
            if w < 8 {
                v &= (1u64 << (8 * w)) - 1;
            }
            m[off..off + w].copy_from_slice(&v.to_le_bytes()[..w]);
        }
        out.push(m);
    }
}

fn corpus_files() -> Vec<(String, Vec<u8>)> {
    let mut v = Vec::new();
    let dir = std::path::Path::new(env!("CARGO_MANIFEST_DIR")).join("tests/data");
    if let Ok(rd) = std::fs::read_dir(dir) {
        for e in rd.flatten() {
            let p = e.path();
            if p.extension().map_or(false, |x| x == "aseprite" || x == "ase") {
                if let Ok(b) = std::fs::read(&p) {
                    v.push((p.file_name().unwrap().to_string_lossy().to_string(), b));
                }
            }
        }
    }
    v.sort();
    v
}

fn special_models() -> Vec<(String, Vec<u8>)> {
    let mut v = Vec::new();
    // a 150-byte file whose frame and first chunk DECLARE ~4 GiB: the declared size must not be reserved
    {
        let mut s = Sprite::new(2, 2, Fmt::Rgba, 1);
        s.layers.push(LayerM::image("a"));
        let mut b = encode(&s);
        if b.len() >= 128 + 16 + 6 {
            b[128..132].copy_from_slice(&0xffff_ffffu32.to_le_bytes()); // frame size
            b[144..148].copy_from_slice(&0xffff_ff00u32.to_le_bytes()); // size of the first chunk (within the frame budget)
            v.push(("frame and chunk declare 4 GiB".into(), b));
        }
    }
    // first layer with a non-zero child level; deep nesting; many layers
    for &lv in &[1u16, 2, 65535] {
        let mut s = Sprite::new(2, 2, Fmt::Rgba, 1);
        let mut l = LayerM::image("x");
        l.level = lv;
        s.layers.push(l);
        v.push((format!("first layer level {}", lv), encode(&s)));
    }
    for &depth in &[300usize, 5000, 65535] {
        let mut s = Sprite::new(2, 2, Fmt::Rgba, 1);
        for i in 0..depth {
            let mut l = LayerM::image("g");
            l.level = i.min(65535) as u16;
            l.ty = 1;
            s.layers.push(l);
        }
        let mut last = LayerM::image("leaf");
        last.level = depth.min(65535) as u16;
        s.layers.push(last);
        s.frames[0].cels.push(CelM { layer: depth as u16, x: 0, y: 0, opacity: 255, kind: CelKind::Raw { w: 1, h: 1, px: vec![1, 2, 3, 255] }, ud: None, zlib: None });
        v.push((format!("nesting depth {}", depth), encode(&s)));
    }
    // level jumps (not a forest): 0, 5, 3, 9
    {
        let mut s = Sprite::new(2, 2, Fmt::Rgba, 1);
        for &lv in &[0u16, 5, 3, 9, 1] {
            let mut l = LayerM::image("j");
            l.level = lv;
            s.layers.push(l);
        }
        v.push(("level jumps".into(), encode(&s)));
    }
    // cel on a layer index beyond the layer count; link to frames out of range / to itself / to a linked cel
    for &(layer, link) in &[(5u16, None), (65535, None), (0, Some(7u16)), (0, Some(0)), (0, Some(1))] {
        let mut s = Sprite::new(2, 2, Fmt::Rgba, 3);
        s.layers.push(LayerM::image("a"));
        let kind = match link {
            None => CelKind::Raw { w: 1, h: 1, px: vec![9, 9, 9, 255] },
            Some(t) => CelKind::Linked(t),
        };
        s.frames[0].cels.push(CelM { layer, x: 0, y: 0, opacity: 255, kind, ud: None, zlib: None });
        s.frames[1].cels.push(CelM { layer: 0, x: 0, y: 0, opacity: 255, kind: CelKind::Linked(2), ud: None, zlib: None });
        s.frames[2].cels.push(CelM { layer: 0, x: 0, y: 0, opacity: 255, kind: CelKind::Raw { w: 1, h: 1, px: vec![1, 1, 1, 255] }, ud: None, zlib: None });
        v.push((format!("cel layer {} link {:?}", layer, link), encode(&s)));
    }
    // declared size != decoded size (compressed cel), both directions
    for &(dw, dh) in &[(3u16, 3u16), (1, 1), (0, 5), (65535, 65535)] {
        let mut s = Sprite::new(4, 4, Fmt::Rgba, 1);
        s.layers.push(LayerM::image("a"));
        s.frames[0].cels.push(CelM { layer: 0, x: 0, y: 0, opacity: 255, kind: CelKind::Raw { w: 2, h: 2, px: vec![7; 16] }, ud: None, zlib: Some(6) });
        let mut b = encode(&s);
        // patch the declared width/height of the (only) cel: find the cel chunk
        if let Some(p) = find_chunk(&b, 0x2005) {
            b[p + 6 + 16..p + 6 + 18].copy_from_slice(&dw.to_le_bytes());
            b[p + 6 + 18..p + 6 + 20].copy_from_slice(&dh.to_le_bytes());
        }
        v.push((format!("compressed cel declares {}x{} but holds 2x2", dw, dh), b));
    }
    // tilemaps: tile id >= count, tile size 0, tile count mismatch, declared map size != data, huge tile sizes
    for case in 0..8 {
        let mut s = Sprite::new(4, 4, Fmt::Rgba, 1);
        let mut ts = TilesetM { id: 0, flags: 2 | 4, count: 2, tw: 2, th: 2, base: 1, name: "t".into(), external: None, px: vec![5; 2 * 4 * 4] };
        let mut l = LayerM::image("tm");
        l.ty = 2;
        let mut tiles = vec![0u32, 1, 1, 0];
        let (mut mw, mut mh) = (2u16, 2u16);
        let what;
        match case {
            0 => { tiles[1] = 2; what = "tile id == tile count"; }
            1 => { tiles[2] = 0x1fff_ffff; what = "tile id huge"; }
            2 => { ts.tw = 0; ts.px = vec![]; what = "tile width 0"; }
            3 => { ts.th = 0; ts.px = vec![]; what = "tile height 0"; }
            4 => { ts.count = 9; what = "tile count larger than pixel data"; }
            5 => { mw = 3; mh = 3; what = "tilemap declares 3x3 but holds 4 tiles"; }
            6 => { ts.tw = 65535; ts.th = 65535; ts.count = 65535; ts.px = vec![0; 16]; what = "tile size 65535x65535 x 65535 tiles"; }
            _ => { l.tileset = 9; what = "tilemap layer references a missing tileset"; }
        }
        s.tilesets.push(ts);
        s.layers.push(l);
        s.frames[0].cels.push(CelM { layer: 0, x: 0, y: 0, opacity: 255, kind: CelKind::Tilemap { w: mw, h: mh, tiles }, ud: None, zlib: Some(6) });
        v.push((what.to_string(), encode(&s)));
    }
    // tile x tile-width product beyond i32: a 32770-tile wide map of 65535-pixel wide tiles
    {
        let mut s = Sprite::new(4, 4, Fmt::Indexed(0), 1);
        s.palette = Some(Sprite::gray_palette(2));
        s.tilesets.push(TilesetM { id: 0, flags: 6, count: 1, tw: 65535, th: 1, base: 1, name: "wide".into(), external: None, px: vec![1; 65535] });
        let mut l = LayerM::image("tm");
        l.ty = 2;
        s.layers.push(l);
        s.frames[0].cels.push(CelM { layer: 0, x: 0, y: 0, opacity: 255, kind: CelKind::Tilemap { w: 32770, h: 1, tiles: vec![0; 32770] }, ud: None, zlib: Some(6) });
        v.push(("tilemap 32770 tiles wide, tiles 65535 px wide".into(), encode(&s)));
    }
    // tilemap cel in an image layer / raw cel in a tilemap layer
    {
        let mut s = Sprite::new(4, 4, Fmt::Rgba, 1);
        s.tilesets.push(TilesetM { id: 0, flags: 6, count: 1, tw: 2, th: 2, base: 1, name: "t".into(), external: None, px: vec![5; 16] });
        s.layers.push(LayerM::image("img"));
        let mut l = LayerM::image("tm");
        l.ty = 2;
        s.layers.push(l);
        s.frames[0].cels.push(CelM { layer: 0, x: 0, y: 0, opacity: 255, kind: CelKind::Tilemap { w: 1, h: 1, tiles: vec![0] }, ud: None, zlib: Some(6) });
        s.frames[0].cels.push(CelM { layer: 1, x: 0, y: 0, opacity: 255, kind: CelKind::Raw { w: 1, h: 1, px: vec![1, 2, 3, 4] }, ud: None, zlib: None });
        v.push(("cel kinds swapped between image and tilemap layer".into(), encode(&s)));
    }
    // palette ranges, external file counts, tag counts (declared counts far beyond the data)
    {
        let mut s = Sprite::new(1, 1, Fmt::Indexed(0), 1);
        s.palette = Some(Sprite::gray_palette(2));
        s.layers.push(LayerM::image("a"));
        let b = encode(&s);
        if let Some(p) = find_chunk(&b, 0x2019) {
            for &(first, last) in &[(0u32, u32::MAX), (1, 0), (u32::MAX, u32::MAX), (0, 0x7fff_ffff)] {
                let mut m = b.clone();
                m[p + 6 + 4..p + 6 + 8].copy_from_slice(&first.to_le_bytes());
                m[p + 6 + 8..p + 6 + 12].copy_from_slice(&last.to_le_bytes());
                v.push((format!("palette range {}..={}", first, last), m));
            }
        }
    }
    {
        let mut s = Sprite::new(1, 1, Fmt::Rgba, 1);
        s.layers.push(LayerM::image("a"));
        s.ext_files.push((1, "f".into()));
        s.tags.push(TagM { from: 0, to: 0, dir: 0, repeat: 0, name: "t".into(), ud: None });
        let b = encode(&s);
        if let Some(p) = find_chunk(&b, 0x2008) {
            for &n in &[u32::MAX, 0x8000_0000, 0x0fff_ffff, 2] {
                let mut m = b.clone();
                m[p + 6..p + 10].copy_from_slice(&n.to_le_bytes());
                v.push((format!("external files chunk declares {} entries", n), m));
            }
        }
        if let Some(p) = find_chunk(&b, 0x2018) {
            let mut m = b.clone();
            m[p + 6..p + 8].copy_from_slice(&0xffffu16.to_le_bytes());
            v.push(("tags chunk declares 65535 tags".into(), m));
        }
    }
    // inadmissible chunk sequences around user data: dangling record, more records than tags, records after an
    // empty tags chunk, record for a cel that failed, record after a tags chunk in a later frame
    {
        let o = EncOpts::default();
        let hdr = |frames: usize| header(&Sprite::new(2, 2, Fmt::Rgba, frames), &o, 0);
        let ud = |k: usize| (0x2020u16, ud_payload(&UD { text: Some(format!("u{}", k)), color: if k % 2 == 0 { Some([1, 2, 3, 4]) } else { None } }));
        let tagsn = |n: usize| (0x2018u16, tags_payload(&(0..n).map(|i| TagM { from: 0, to: 0, dir: 0, repeat: 0, name: format!("t{}", i), ud: None }).collect::<Vec<_>>(), 0));
        let layer = (0x2004u16, layer_payload(&LayerM::image("l"), 0));
        let seqs: Vec<(&str, Vec<(u16, Vec<u8>)>)> = vec![
            ("user data as the first chunk", vec![ud(0)]),
            ("tags(0) then a user data chunk", vec![layer.clone(), tagsn(0), ud(0)]),
            ("tags(1) then two user data chunks", vec![layer.clone(), tagsn(1), ud(0), ud(1)]),
            ("tags(2) then three user data chunks", vec![layer.clone(), tagsn(2), ud(0), ud(1), ud(2)]),
            ("tags(3) then five user data chunks", vec![tagsn(3), ud(0), ud(1), ud(2), ud(3), ud(4)]),
            ("user data after an ignorable first chunk", vec![(0x2006, vec![0; 20]), ud(0)]),
            ("two tags chunks then records", vec![tagsn(2), ud(0), tagsn(1), ud(1), ud(2)]),
        ];
        for (name, chunks) in seqs {
            let mut b = hdr(1);
            b.extend_from_slice(&frame_bytes(&chunks, 100, &o));
            v.push((format!("chunk sequence: {}", name), b));
        }
        // records in the second frame after a (there ignored) tags chunk
        let mut b = hdr(2);
        b.extend_from_slice(&frame_bytes(&[layer.clone()], 100, &o));
        b.extend_from_slice(&frame_bytes(&[tagsn(1), ud(0), ud(1)], 100, &o));
        v.push(("chunk sequence: tags chunk and records in frame 1".into(), b));
    }
    // very long chunk sequences
    {
        let mut s = Sprite::new(1, 1, Fmt::Rgba, 1);
        for _ in 0..70000 {
            s.layers.push(LayerM::image(""));
        }
        v.push(("70000 layer chunks in one frame".into(), encode_with(&s, &EncOpts { count_field: CountField::New, color_profile: None, ..EncOpts::default() }).0));
    }
    v
}

/// offset of the first chunk of the given type in the first frame
pub fn find_chunk(b: &[u8], ty: u16) -> Option<usize> {
    let mut p = 128 + 16;
    while p + 6 <= b.len() {
        let size = u32::from_le_bytes([b[p], b[p + 1], b[p + 2], b[p + 3]]) as usize;
        let t = u16::from_le_bytes([b[p + 4], b[p + 5]]);
        if t == ty {
            return Some(p);
        }
        if size < 6 {
            return None;
        }
        p += size;
    }
    None
}

/// Run one family of inputs derived from `base_name` and record fates. `for_c05`: only what happens
/// AFTER a successful load is attributed (C05); otherwise only what happens DURING load (C04).
fn process(st: &mut Stats, base_name: &str, inputs: Vec<Vec<u8>>, for_c05: bool, tally: &mut [u64; 4]) {
    if inputs.is_empty() {
        return;
    }
    let fates = run_batch(&inputs, for_c05, if for_c05 { "use" } else { "load" });
    for (i, f) in fates.iter().enumerate() {
        if matches!(f, Fate::NotRun) {
            continue;
        }
        let nontrivial = if for_c05 { matches!(f, Fate::Loaded | Fate::PanicUse(_)) } else { !matches!(f, Fate::Loaded) };
        st.case(&inputs[i], nontrivial);
        match f {
            Fate::Loaded => tally[0] += 1,
            Fate::Rejected => tally[1] += 1,
            _ => tally[2] += 1,
        }
        let name = format!("{} / variant {}", base_name, i);
        match f {
            Fate::PanicLoad(m) if !for_c05 => st.fail(format!("load PANICS on [{}]: {}", name, m), Some(&inputs[i])),
            Fate::Abort(m) if !for_c05 => st.fail(format!("process ABORTS while loading [{}]: {}", name, m), Some(&inputs[i])),
            Fate::Hang if !for_c05 => st.fail(format!("no result within 20 s while loading [{}]", name), Some(&inputs[i])),
            Fate::PanicUse(m) if for_c05 => st.fail(format!("loads, then an accessor PANICS on [{}]: {}", name, m), Some(&inputs[i])),
            Fate::AbortUse(m) if for_c05 => st.fail(format!("loads, then the process ABORTS in an accessor on [{}]: {}", name, m), Some(&inputs[i])),
            Fate::HangUse if for_c05 => st.fail(format!("loads, then an accessor does not return within 20 s on [{}]", name), Some(&inputs[i])),
            _ => {}
        }
    }
}

fn fault_sweep(st: &mut Stats, r: &mut Rng, for_c05: bool) -> [u64; 4] {
    let thorough = tier_thorough();
    let mut tally = [0u64; 4];
    for (n, b) in special_models() {
        process(st, &n, vec![b], for_c05, &mut tally);
    }
    if std::env::var("VERIF_ONLY_SPECIAL").is_ok() {
        return tally;
    }
    let g = GenOpts { max_layers: 3, max_frames: 2, max_dim: 4, ..GenOpts::default() };
    for i in 0..(if thorough { 24 } else { 3 }) {
        let b = encode(&rand_sprite(r, &g));
        let mut inputs = Vec::new();
        window_mutants(&b, 1, &mut inputs);
        double_mutants(&b, r, if thorough { 3000 } else { 300 }, &mut inputs);
        for cut in 0..b.len() {
            inputs.push(b[..cut].to_vec());
        }
        process(st, &format!("generated #{} ({} bytes): window/double/truncation", i, b.len()), inputs, for_c05, &mut tally);
    }
    let mut corpus = corpus_files();
    corpus.sort_by_key(|(_, b)| b.len());
    for (k, (n, b)) in corpus.iter().enumerate() {
        if !thorough && (k >= 12 || b.len() > 8000) {
            continue;
        }
        if b.len() > 400_000 {
            continue;
        }
        let mut inputs = Vec::new();
        let stride = if thorough { (b.len() / 1500).max(1) } else { (b.len() / 60).max(1) };
        window_mutants(b, stride, &mut inputs);
        // the first bytes hold the header, the first frame header and the first chunks: every offset
        let head = &b[..b.len().min(if thorough { 400 } else { 200 })];
        let mut hm = Vec::new();
        window_mutants(head, 1, &mut hm);
        for mut m in hm {
            m.extend_from_slice(&b[head.len()..]);
            inputs.push(m);
        }
        double_mutants(b, r, if thorough { 500 } else { 40 }, &mut inputs);
        process(st, &format!("tests/data/{}", n), inputs, for_c05, &mut tally);
    }
    let mut inputs = Vec::new();
    for i in 0..(if thorough { 4000 } else { 500 }) {
        let len = r.below(400) as usize;
        let mut b: Vec<u8> = (0..len).map(|_| r.next() as u8).collect();
        if i % 2 == 0 && b.len() >= 6 {
            b[4] = 0xE0;
            b[5] = 0xA5;
        }
        inputs.push(b);
    }
    process(st, "random bytes", inputs, for_c05, &mut tally);
    tally
}

#[test]
fn x_total_load() {
    let mut st = Stats::new("x_total_load", "boundary-value corruption of every 1/2/4-byte window + double-field corruption + every truncation of generated files; sampled windows (every offset of the first 400 bytes) of the corpus files; hostile special models; random bytes. Test profile: optimised, overflow checks + debug assertions ON; child process, 2 MiB thread, 20 s watchdog");
    let mut r = Rng::new(seed() ^ 0x0401);
    let t = fault_sweep(&mut st, &mut r, false);
    st.sample(format!("{} loaded, {} rejected, {} other", t[0], t[1], t[2]));
    st.finish();
}

#[test]
fn x_usable_after_load() {
    let mut st = Stats::new("x_usable_after_load", "same fault family as x_total_load; every input that LOADS is then driven through every public accessor (frame/cel/tilemap/tile/tileset images on canvases <= 65536 px, tile lookups at extreme coordinates, parents, Debug) in the child process");
    let mut r = Rng::new(seed() ^ 0x0401);
    let t = fault_sweep(&mut st, &mut r, true);
    st.sample(format!("{} loaded and fully exercised, {} rejected, {} other", t[0], t[1], t[2]));
    st.finish();
}

/// C04 under the child's memory policy (4 GiB of address space, inputs below 64 KiB): a cel chunk that merely NAMES
/// layer 65535 must not make the loader reserve a row of 65536 slots for its frame (the defect repaired by the sparse
/// cel table, see known_findings.json): a few hundred such frames used to exhaust the address space.
#[test]
fn x_cel_table_memory() {
    let mut st = Stats::new("x_cel_table_memory", "n in {50, 200, 800} frames, each with one linked-cel chunk naming layer 65535 (files of 2 / 8 / 32 KiB); child process under RLIMIT_AS = 4 GiB");
    let mut inputs = Vec::new();
    for &n in &[50usize, 200, 800] {
        let mut s = Sprite::new(1, 1, Fmt::Rgba, n);
        s.layers.push(LayerM::image("a"));
        for f in 0..n {
            s.frames[f].cels.push(CelM { layer: 65535, x: 0, y: 0, opacity: 255, kind: CelKind::Linked(0), ud: None, zlib: None });
        }
        inputs.push((n, encode(&s)));
    }
    let bytes: Vec<Vec<u8>> = inputs.iter().map(|(_, b)| b.clone()).collect();
    let fates = run_batch(&bytes, false, "celtable");
    for ((n, b), f) in inputs.iter().zip(fates.iter()) {
        st.case(&(*n, b.len()), true);
        match f {
            Fate::Loaded | Fate::Rejected => {}
            Fate::NotRun => {}
            other => st.fail(format!("cel table growth: {} frames each naming layer 65535 ({} bytes) do not yield a sprite or an error value under a 4 GiB address-space limit: {:?}", n, b.len(), other), Some(b)),
        }
    }
    st.sample("800 frames x one linked cel at layer 65535 (32 KiB)".into());
    st.finish();
}

/// Replay helper: load the file named by VERIF_REPLAY_FILE with the real library and exercise it.
#[test]
fn x_replay_file() {
    let path = match std::env::var("VERIF_REPLAY_FILE") {
        Ok(p) => p,
        Err(_) => return,
    };
    let bytes = std::fs::read(&path).expect("replay input file");
    println!("REPLAY-FILE {} ({} bytes)", path, bytes.len());
    match run_one(&bytes, true) {
        Fate::Loaded => println!("REPLAY-RESULT loads; every accessor returns"),
        Fate::Rejected => println!("REPLAY-RESULT rejected: {}", AsepriteFile::read(&bytes[..]).err().map(|e| e.to_string()).unwrap_or_default()),
        Fate::PanicLoad(m) => println!("REPLAY-RESULT PANIC while loading: {}", m),
        Fate::PanicUse(m) => println!("REPLAY-RESULT loads, then PANIC in an accessor: {}", m),
        f => println!("REPLAY-RESULT {:?}", f),
    }
}
