//! C10: user data is attached to the entity it follows and to nothing else – exhaustive over all
//! admissible chunk-kind sequences up to a length bound, seeded random beyond.
use super::enc::*;
use super::gen::Rng;
use super::xutil::*;
use crate::*;

#[derive(Clone, Copy, Debug, PartialEq, Eq, Hash)]
enum K {
    L,      // layer
    C,      // cel (on the next layer that has no cel yet)
    S,      // slice
    T(u8),  // tags chunk with n tags
    O,      // legacy palette chunk
    P,      // new palette chunk
    I,      // ignorable chunk (cel extra / mask / path)
    U(u8),  // user data with flags (bit 0 text, bit 1 colour; 0 = the flag-less placeholder record)
}
const ALPHA: [K; 12] = [K::L, K::C, K::S, K::T(1), K::T(2), K::O, K::P, K::I, K::U(0), K::U(1), K::U(2), K::U(3)];

#[derive(Clone, Copy, PartialEq, Debug)]
enum Ctx {
    None,
    Layer(usize),
    Cel(usize),
    Slice(usize),
    Tag(usize),
    Sprite,
}

/// The attachment rule of the property as a pure fold. Returns None if the sequence is not admissible.
#[derive(Default, Debug, PartialEq)]
struct Expect {
    layers: Vec<Option<usize>>,
    cels: Vec<Option<usize>>, // cel k sits on layer k
    slices: Vec<Option<usize>>,
    tags: Vec<Option<usize>>,
    sprite: Option<usize>,
}
fn spec(seq: &[K]) -> Option<Expect> {
    let mut e = Expect::default();
    let mut ctx = Ctx::None;
    let mut seen_tags = false;
    for (i, k) in seq.iter().enumerate() {
        match *k {
            K::L => {
                e.layers.push(None);
                ctx = Ctx::Layer(e.layers.len() - 1);
            }
            K::C => {
                if e.cels.len() >= e.layers.len() {
                    return None; // a cel needs a layer of its own
                }
                e.cels.push(None);
                ctx = Ctx::Cel(e.cels.len() - 1);
            }
            K::S => {
                e.slices.push(None);
                ctx = Ctx::Slice(e.slices.len() - 1);
            }
            K::T(n) => {
                if seen_tags {
                    return None; // one tags chunk per file
                }
                seen_tags = true;
                e.tags = vec![None; n as usize];
                ctx = Ctx::Tag(0);
            }
            K::O => ctx = Ctx::Sprite,
            K::P | K::I => {}
            K::U(_) => match ctx {
                Ctx::None => return None,
                Ctx::Layer(l) => {
                    if e.layers[l].is_some() {
                        return None;
                    }
                    e.layers[l] = Some(i);
                }
                Ctx::Cel(c) => {
                    if e.cels[c].is_some() {
                        return None;
                    }
                    e.cels[c] = Some(i);
                }
                Ctx::Slice(s) => {
                    if e.slices[s].is_some() {
                        return None;
                    }
                    e.slices[s] = Some(i);
                }
                Ctx::Sprite => {
                    if e.sprite.is_some() {
                        return None;
                    }
                    e.sprite = Some(i);
                }
                Ctx::Tag(t) => {
                    if t >= e.tags.len() {
                        return None; // at most n records follow a tags(n) chunk
                    }
                    e.tags[t] = Some(i);
                    ctx = Ctx::Tag(t + 1);
                }
            },
        }
    }
    Some(e)
}

fn ud_for(i: usize, flags: u8) -> UD {
    UD { text: if flags & 1 != 0 { Some(format!("u{}", i)) } else { None }, color: if flags & 2 != 0 { Some([i as u8, 9, 8, 7]) } else { None } }
}

fn encode_seq(seq: &[K]) -> Vec<u8> {
    let mut s = Sprite::new(2, 2, Fmt::Rgba, 1);
    let o = EncOpts::default();
    let mut chunks: Vec<(u16, Vec<u8>)> = Vec::new();
    let (mut nl, mut nc, mut ns) = (0usize, 0usize, 0usize);
    for (i, k) in seq.iter().enumerate() {
        match *k {
            K::L => {
                chunks.push((0x2004, layer_payload(&LayerM::image(&format!("l{}", nl)), 0)));
                nl += 1;
            }
            K::C => {
                let c = CelM { layer: nc as u16, x: 0, y: 0, opacity: 255, kind: CelKind::Raw { w: 1, h: 1, px: vec![1, 2, 3, 255] }, ud: None, zlib: None };
                chunks.push((0x2005, cel_payload(&c, 0)));
                nc += 1;
            }
            K::S => {
                chunks.push((0x2022, slice_payload(&SliceM { name: format!("s{}", ns), keys: vec![], ud: None })));
                ns += 1;
            }
            K::T(n) => {
                let tags: Vec<TagM> = (0..n).map(|t| TagM { from: 0, to: 0, dir: 0, repeat: 0, name: format!("t{}", t), ud: None }).collect();
                chunks.push((0x2018, tags_payload(&tags, 0)));
            }
            K::O => chunks.push((0x0004, legacy_palette_payload(4, &[[1, 2, 3]]))),
            K::P => chunks.push((0x2019, palette_payload(&Sprite::gray_palette(2)))),
            K::I => chunks.push(([0x2006u16, 0x2016, 0x2017][i % 3], vec![0x5A; 24])),
            K::U(fl) => chunks.push((0x2020, ud_payload(&ud_for(i, fl)))),
        }
    }
    let mut out = header(&s, &o, 0);
    out.extend_from_slice(&frame_bytes(&chunks, 100, &o));
    s.frames[0].duration = 100;
    out
}

fn ud_matches(seq: &[K], got: Option<&UserData>, want: Option<usize>) -> bool {
    match (got, want) {
        (None, None) => true,
        (Some(g), Some(i)) => {
            let fl = match seq[i] {
                K::U(f) => f,
                _ => 0,
            };
            let w = ud_for(i, fl);
            g.text == w.text && g.color.map(|c| c.0) == w.color
        }
        _ => false,
    }
}

fn check_seq(seq: &[K], st: &mut Stats) {
    let e = match spec(seq) {
        Some(e) => e,
        None => return,
    };
    let bytes = encode_seq(seq);
    st.case(&seq.to_vec(), seq.iter().any(|k| matches!(k, K::U(_))));
    let f = match load(&bytes) {
        Ok(f) => f,
        Err(err) => {
            st.fail(format!("admissible sequence {:?} fails to load: {}", seq, err), Some(&bytes));
            return;
        }
    };
    let mut bad = Vec::new();
    if f.num_layers() as usize != e.layers.len() {
        bad.push("layer count".to_string());
    } else {
        for (l, w) in e.layers.iter().enumerate() {
            if !ud_matches(seq, f.layer(l as u32).user_data(), *w) {
                bad.push(format!("layer {}", l));
            }
        }
        for l in 0..e.layers.len() {
            let w = e.cels.get(l).copied().flatten();
            if !ud_matches(seq, f.cel(0, l as u32).user_data(), w) {
                bad.push(format!("cel on layer {}", l));
            }
        }
    }
    if f.slices().len() != e.slices.len() {
        bad.push("slice count".into());
    } else {
        for (k, w) in e.slices.iter().enumerate() {
            if !ud_matches(seq, f.slices()[k].user_data.as_ref(), *w) {
                bad.push(format!("slice {}", k));
            }
        }
    }
    if f.num_tags() as usize != e.tags.len() {
        bad.push("tag count".into());
    } else {
        for (k, w) in e.tags.iter().enumerate() {
            if !ud_matches(seq, f.tag(k as u32).user_data(), *w) {
                bad.push(format!("tag {}", k));
            }
        }
    }
    if !ud_matches(seq, f.sprite_user_data(), e.sprite) {
        bad.push("sprite".into());
    }
    if !bad.is_empty() {
        st.fail(format!("sequence {:?}: wrong user data on {}", seq, bad.join(", ")), Some(&bytes));
    }
}

#[test]
fn x_userdata_exhaustive() {
    let maxlen = budget(5, 6);
    let mut st = Stats::new("x_userdata_exhaustive", &format!("EXHAUSTIVE: every admissible sequence of up to {} chunks over {{layer, cel, slice, tags(1), tags(2), legacy palette, palette, ignorable, user data with each of the 4 flag combinations}}; seeded random sequences up to length 40", maxlen));
    fn rec(seq: &mut Vec<K>, maxlen: usize, st: &mut Stats) {
        if !seq.is_empty() {
            if spec(seq).is_none() {
                return; // inadmissible prefixes stay inadmissible
            }
            check_seq(seq, st);
        }
        if seq.len() == maxlen {
            return;
        }
        for k in ALPHA {
            seq.push(k);
            rec(seq, maxlen, st);
            seq.pop();
        }
    }
    let mut seq = Vec::new();
    rec(&mut seq, maxlen, &mut st);
    // random longer sequences
    let mut r = Rng::new(seed() ^ 0x1001);
    let n = budget(2000, 20000);
    let mut done = 0;
    while done < n {
        let len = r.range(7, 40) as usize;
        let mut seq = Vec::new();
        for _ in 0..len {
            let k = *r.pick(&ALPHA);
            seq.push(k);
            if spec(&seq).is_none() {
                seq.pop();
            }
        }
        check_seq(&seq, &mut st);
        done += 1;
    }
    st.sample("[L, U(1), C, I, U(2), T(2), U(0), U(3)] -> layer 0, cel 0, tag 0 (empty record), tag 1".into());
    st.finish();
}
