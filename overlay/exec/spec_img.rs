//! Composition spec (C02, C06, C08, C09, C19): what the images must be, computed from the MODEL with
//! the Aseprite blend reference – never from the library's own rendering code.
#![allow(dead_code)]
use super::enc::*;
use crate::verif_spec::aseprite_ref as r;
use image::Rgba;

pub type Img = Vec<[u8; 4]>; // row-major, w*h

pub fn round8(a: u8, b: u8) -> u8 {
    ((2 * a as u32 * b as u32 + 255) / 510) as u8
}

/// parent = nearest preceding layer with a smaller nesting level
pub fn parent(s: &Sprite, l: usize) -> Option<usize> {
    let lv = s.layers[l].level;
    if lv == 0 {
        return None;
    }
    (0..l).rev().find(|&k| s.layers[k].level < lv)
}
pub fn visible(s: &Sprite, l: usize) -> bool {
    let mut cur = Some(l);
    while let Some(k) = cur {
        if s.layers[k].flags & 1 == 0 {
            return false;
        }
        cur = parent(s, k);
    }
    true
}

pub fn pal_lookup(s: &Sprite, idx: u8) -> Option<[u8; 4]> {
    s.palette.as_ref()?.iter().find(|e| e.idx == idx as u32).map(|e| e.rgba)
}

/// RGBA value of pixel i of a raw pixel buffer in the sprite's format
pub fn px_rgba(s: &Sprite, bytes: &[u8], i: usize, background: bool) -> [u8; 4] {
    match s.fmt {
        Fmt::Rgba => [bytes[4 * i], bytes[4 * i + 1], bytes[4 * i + 2], bytes[4 * i + 3]],
        Fmt::Gray => [bytes[2 * i], bytes[2 * i], bytes[2 * i], bytes[2 * i + 1]],
        Fmt::Indexed(ti) => {
            let idx = bytes[i];
            let c = pal_lookup(s, idx).expect("model pixel index in palette");
            if idx == ti && !background {
                [c[0], c[1], c[2], 0]
            } else {
                c
            }
        }
    }
}

pub fn find_cel(s: &Sprite, f: usize, l: usize) -> Option<&CelM> {
    s.frames[f].cels.iter().find(|c| c.layer as usize == l)
}

pub struct Rect {
    pub x: i32,
    pub y: i32,
    pub w: usize,
    pub h: usize,
    pub px: Img,
    pub opacity: u8,
}

/// The pixel rectangle a cel contributes (linked cels resolve to the target cel of the same layer).
pub fn cel_rect(s: &Sprite, f: usize, l: usize) -> Option<Rect> {
    let c = find_cel(s, f, l)?;
    let c = match c.kind {
        CelKind::Linked(t) => find_cel(s, t as usize, l)?,
        _ => c,
    };
    let background = s.layers[l].flags & 8 != 0;
    match &c.kind {
        CelKind::Raw { w, h, px } => {
            let n = *w as usize * *h as usize;
            Some(Rect { x: c.x as i32, y: c.y as i32, w: *w as usize, h: *h as usize, px: (0..n).map(|i| px_rgba(s, px, i, background)).collect(), opacity: c.opacity })
        }
        CelKind::Tilemap { w, h, tiles } => {
            let ts = s.tilesets.iter().find(|t| t.id == s.layers[l].tileset)?;
            let (tw, th) = (ts.tw as usize, ts.th as usize);
            let (pw, ph) = (*w as usize * tw, *h as usize * th);
            let mut px = vec![[0u8; 4]; pw * ph];
            for ty in 0..*h as usize {
                for tx in 0..*w as usize {
                    let id = (tiles[ty * *w as usize + tx] & 0x1fff_ffff) as usize;
                    for py in 0..th {
                        for pxx in 0..tw {
                            let si = id * tw * th + py * tw + pxx;
                            px[(ty * th + py) * pw + tx * tw + pxx] = px_rgba(s, &ts.px, si, false);
                        }
                    }
                }
            }
            Some(Rect { x: c.x as i32, y: c.y as i32, w: pw, h: ph, px, opacity: c.opacity })
        }
        CelKind::Linked(_) => None,
    }
}

pub fn blit(s: &Sprite, canvas: &mut Img, rect: &Rect, mode: u16, opacity: u8) {
    let (cw, ch) = (s.w as i32, s.h as i32);
    for ry in 0..rect.h as i32 {
        for rx in 0..rect.w as i32 {
            let (x, y) = (rect.x + rx, rect.y + ry);
            if x < 0 || y < 0 || x >= cw || y >= ch {
                continue;
            }
            let ci = (y * cw + x) as usize;
            let src = rect.px[(ry as usize) * rect.w + rx as usize];
            canvas[ci] = r::blend(mode, Rgba(canvas[ci]), Rgba(src), opacity).0;
        }
    }
}

pub fn blank(s: &Sprite) -> Img {
    vec![[0u8; 4]; s.w as usize * s.h as usize]
}

/// Cel::image: transparent canvas + this cel blended with the layer's mode and opacity product
pub fn cel_image(s: &Sprite, f: usize, l: usize) -> Img {
    let mut img = blank(s);
    if let Some(rect) = cel_rect(s, f, l) {
        let op = round8(s.layers[l].opacity, rect.opacity);
        blit(s, &mut img, &rect, s.layers[l].blend, op);
    }
    img
}

/// Frame::image: bottom-to-top composition of the visible layers that have a cel in frame f
pub fn frame_image(s: &Sprite, f: usize) -> Img {
    let mut img = blank(s);
    for l in 0..s.layers.len() {
        if !visible(s, l) {
            continue;
        }
        if let Some(rect) = cel_rect(s, f, l) {
            let op = round8(s.layers[l].opacity, rect.opacity);
            blit(s, &mut img, &rect, s.layers[l].blend, op);
        }
    }
    img
}

/// image equality where fully transparent pixels compare equal regardless of RGB
pub fn img_eq(got: &image::RgbaImage, want: &Img, w: u16, h: u16) -> Result<(), String> {
    if got.dimensions() != (w as u32, h as u32) {
        return Err(format!("dimensions {:?} != ({}, {})", got.dimensions(), w, h));
    }
    for (i, p) in got.pixels().enumerate() {
        let wv = want[i];
        if p.0 != wv && !(p.0[3] == 0 && wv[3] == 0) {
            return Err(format!("pixel ({}, {}) = {:?}, spec {:?}", i % w as usize, i / w as usize, p.0, wv));
        }
    }
    Ok(())
}
