//! C08: tilemap and tileset images agree with tile lookups.
use super::enc::*;
use super::gen::*;
use super::spec_img::*;
use super::xutil::*;
use crate::*;

#[test]
fn x_tilemap_views() {
    let mut st = Stats::new("x_tilemap_views", "seeded sprites with tilesets (tile sizes 1..4 x 1..5, counts 1..4, three formats) and tilemap cels at tile-aligned offsets incl. partly / fully off-canvas: tilemap image vs tile lookups, size in tiles, offsets, stacked tileset image");
    let n = budget(300, 3000);
    let mut r = Rng::new(seed() ^ 0x0801);
    let g = GenOpts { extras: false, max_dim: 9, ..GenOpts::default() };
    let mut done = 0;
    let mut tries = 0;
    while done < n && tries < n * 40 {
        tries += 1;
        let s = rand_sprite(&mut r, &g);
        if !s.layers.iter().any(|l| l.ty == 2) {
            continue;
        }
        done += 1;
        let bytes = encode(&s);
        let f = match load(&bytes) {
            Ok(f) => f,
            Err(e) => {
                st.fail(format!("model fails to load: {}", e), Some(&bytes));
                continue;
            }
        };
        st.case(&bytes, true);
        for ts in &s.tilesets {
            let t = f.tilesets().get(ts.id).unwrap();
            let full = t.image();
            if full.dimensions() != (ts.tw as u32, ts.th as u32 * ts.count) {
                st.fail(format!("tileset image dimensions {:?}", full.dimensions()), Some(&bytes));
                continue;
            }
            for i in 0..ts.count {
                let ti = t.tile_image(i);
                if ti.dimensions() != (ts.tw as u32, ts.th as u32) {
                    st.fail(format!("tile image {} dimensions {:?} != tile size", i, ti.dimensions()), Some(&bytes));
                    continue;
                }
                for y in 0..ts.th as u32 {
                    for x in 0..ts.tw as u32 {
                        let want = px_rgba(&s, &ts.px, (i as usize * ts.th as usize + y as usize) * ts.tw as usize + x as usize, false);
                        if ti.get_pixel(x, y).0 != want {
                            st.fail(format!("tile image {} pixel ({}, {}) = {:?}, stored pixel {:?}", i, x, y, ti.get_pixel(x, y).0, want), Some(&bytes));
                        }
                        if full.get_pixel(x, i * ts.th as u32 + y).0 != ti.get_pixel(x, y).0 {
                            st.fail(format!("stacked tileset image differs from tile image {} at ({}, {})", i, x, y), Some(&bytes));
                        }
                    }
                }
            }
        }
        for (li, l) in s.layers.iter().enumerate() {
            if l.ty != 2 {
                if f.tilemap(li as u32, 0).is_some() {
                    st.fail(format!("tilemap() on non-tilemap layer {}", li), Some(&bytes));
                }
                continue;
            }
            let ts = s.tilesets.iter().find(|t| t.id == l.tileset).unwrap();
            for fi in 0..s.frames.len() {
                let cm = find_cel(&s, fi, li);
                let tm = f.tilemap(li as u32, fi as u32);
                let (cm, tm) = match (cm, tm) {
                    (None, None) => continue,
                    (Some(c), Some(t)) => (c, t),
                    _ => {
                        st.fail(format!("tilemap presence mismatch at ({}, {})", fi, li), Some(&bytes));
                        continue;
                    }
                };
                let (mw, mh, tiles) = match &cm.kind {
                    CelKind::Tilemap { w, h, tiles } => (*w as i64, *h as i64, tiles),
                    _ => continue,
                };
                let (tw, th) = (ts.tw as u32, ts.th as u32);
                if (tm.width(), tm.height()) != ((s.w as u32 + tw - 1) / tw, (s.h as u32 + th - 1) / th) {
                    st.fail(format!("tilemap size {}x{} != canvas / tile size rounded up", tm.width(), tm.height()), Some(&bytes));
                }
                if tm.tile_size() != (tw, th) || tm.tileset().id() != ts.id {
                    st.fail("tile_size / tileset".into(), Some(&bytes));
                }
                if tm.pixel_offsets() != (cm.x as i32, cm.y as i32) || tm.tile_offsets() != (cm.x as i32 / tw as i32, cm.y as i32 / th as i32) {
                    st.fail(format!("offsets {:?} {:?} for cel at ({}, {})", tm.pixel_offsets(), tm.tile_offsets(), cm.x, cm.y), Some(&bytes));
                }
                let (ox, oy) = (cm.x as i64 / tw as i64, cm.y as i64 / th as i64);
                // lookups: inside the stored area -> stored tile; outside -> tile 0
                let xs: Vec<u32> = (0..tm.width() + 2).chain([u32::MAX, 1 << 31, (1 << 31) - 1]).collect();
                let ys: Vec<u32> = (0..tm.height() + 2).chain([u32::MAX, 1 << 31]).collect();
                for &y in &ys {
                    for &x in &xs {
                        let (sx, sy) = (x as i64 - ox, y as i64 - oy);
                        let want = if sx >= 0 && sy >= 0 && sx < mw && sy < mh { tiles[(sy * mw + sx) as usize] & 0x1fff_ffff } else { 0 };
                        if tm.tile(x, y).id() != want {
                            st.fail(format!("tile({}, {}) = {} but the stored map (offset {},{} size {}x{}) says {}", x, y, tm.tile(x, y).id(), ox, oy, mw, mh, want), Some(&bytes));
                        }
                    }
                }
                // image: every canvas pixel shows the pixel of the tile the lookup reports (alpha scaled)
                let img = tm.image();
                let want_img = cel_image(&s, fi, li);
                if let Err(e) = img_eq(&img, &want_img, s.w, s.h) {
                    st.fail(format!("tilemap image at ({}, {}): {}", fi, li, e), Some(&bytes));
                }
                let t = f.tilesets().get(ts.id).unwrap();
                let op = round8(l.opacity, cm.opacity);
                for cy in 0..s.h as i64 {
                    for cx in 0..s.w as i64 {
                        // tile coordinates of this canvas pixel relative to the canvas grid shifted by the cel offset
                        let (rx, ry) = (cx - cm.x as i64, cy - cm.y as i64);
                        if rx < 0 || ry < 0 {
                            continue;
                        }
                        let (tx, ty) = (rx / tw as i64 + ox, ry / th as i64 + oy);
                        if tx < 0 || ty < 0 {
                            continue;
                        }
                        let tile = tm.tile(tx as u32, ty as u32).id();
                        let inside = rx / (tw as i64) < mw && ry / (th as i64) < mh;
                        let p = img.get_pixel(cx as u32, cy as u32).0;
                        if inside {
                            let tp = t.tile_image(tile).get_pixel((rx % tw as i64) as u32, (ry % th as i64) as u32).0;
                            let want = crate::verif_spec::aseprite_ref::blend(l.blend, image::Rgba([0, 0, 0, 0]), image::Rgba(tp), op).0;
                            if p != want && !(p[3] == 0 && want[3] == 0) {
                                st.fail(format!("tilemap image pixel ({}, {}) = {:?}; tile {} pixel gives {:?}", cx, cy, p, tile, want), Some(&bytes));
                            }
                        } else if p[3] != 0 {
                            st.fail(format!("tilemap image pixel ({}, {}) outside the stored area is not transparent", cx, cy), Some(&bytes));
                        }
                    }
                }
            }
        }
        if done == 1 {
            st.sample(format!("canvas {}x{}, tilesets {:?}", s.w, s.h, s.tilesets.iter().map(|t| (t.tw, t.th, t.count)).collect::<Vec<_>>()));
        }
    }
    st.finish();
}
