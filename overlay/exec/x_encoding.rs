//! C07 (neutral encoding choices), C13 (truncation), C14 (reader behaviour / I/O errors), C15 (refusals).
use super::enc::*;
use super::gen::*;
use super::obs::*;
use super::x_total::find_chunk;
use super::xutil::*;
use crate::*;
use std::io::{self, Read};

fn variants(r: &mut Rng, s: &Sprite) -> Vec<(String, EncOpts)> {
    let d = EncOpts::default();
    let mut v: Vec<(String, EncOpts)> = vec![
        ("count in old field only".into(), EncOpts { count_field: CountField::OldOnly, ..d.clone() }),
        ("count in new field, old = 0xFFFF".into(), EncOpts { count_field: CountField::NewOnlyOldFFFF, ..d.clone() }),
        ("count in new field, old = 0".into(), EncOpts { count_field: CountField::NewOnlyOldZero, ..d.clone() }),
        ("no colour profile chunk".into(), EncOpts { color_profile: None, ..d.clone() }),
        ("'none' colour profile".into(), EncOpts { color_profile: Some(0), ..d.clone() }),
        ("cel-extra chunk after every chunk".into(), EncOpts { ignorable_after: vec![usize::MAX], ignorable_kind: 0x2006, ..d.clone() }),
        ("mask chunk after every chunk".into(), EncOpts { ignorable_after: vec![usize::MAX], ignorable_kind: 0x2016, ..d.clone() }),
        ("path chunk after every chunk".into(), EncOpts { ignorable_after: vec![usize::MAX], ignorable_kind: 0x2017, ..d.clone() }),
        ("unused header / layer / cel fields set to 0xFF".into(), EncOpts { junk: 0xFF, ..d.clone() }),
        ("unused fields set to 0x5A".into(), EncOpts { junk: 0x5A, ..d.clone() }),
        ("pixel ratio (0, 7)".into(), EncOpts { pixel_ratio: (0, 7), ..d.clone() }),
        ("pixel ratio (9, 0)".into(), EncOpts { pixel_ratio: (9, 0), ..d.clone() }),
        ("pixel ratio (0, 0)".into(), EncOpts { pixel_ratio: (0, 0), ..d.clone() }),
        ("3 extra bytes at the end of every chunk".into(), EncOpts { chunk_padding: 3, ..d.clone() }),
        ("1 extra byte at the end of every chunk".into(), EncOpts { chunk_padding: 1, ..d.clone() }),
        ("17 bytes after the last frame".into(), EncOpts { trailing: 17, ..d.clone() }),
        ("frame size field larger than the chunks".into(), EncOpts { frame_size_slack: 9, ..d.clone() }),
    ];
    for k in 0..3u64 {
        v.push((format!("cel chunk order permutation {}", k + 1), EncOpts { cel_perm: 1 + r.below(23), ..d.clone() }));
    }
    for pos in 0..4 {
        v.push((format!("one ignorable chunk after chunk {}", pos), EncOpts { ignorable_after: vec![pos], ignorable_kind: [0x2006u16, 0x2016, 0x2017][pos % 3], ..d.clone() }));
    }
    // a redundant legacy palette beside the new palette, both orders and both kinds (only when the
    // palette starts at index 0 so that the legacy chunk describes the same colours)
    if s.palette.as_ref().map_or(false, |p| p[0].idx == 0) && s.sprite_ud.is_none() {
        for &(kind, first) in &[(4u16, true), (4, false), (0x11, true), (0x11, false)] {
            v.push((format!("redundant legacy palette 0x{:04x} {} the new palette", kind, if first { "before" } else { "after" }), EncOpts { legacy_palette: kind, legacy_first: first, ..d.clone() }));
        }
    }
    v
}

/// the same model with different per-cel compression choices
fn recompress(s: &Sprite, choice: Option<u32>) -> Sprite {
    let mut t = s.clone();
    for f in t.frames.iter_mut() {
        for c in f.cels.iter_mut() {
            if let CelKind::Raw { .. } = c.kind {
                c.zlib = choice;
            } else if let CelKind::Tilemap { .. } = c.kind {
                c.zlib = Some(choice.unwrap_or(6));
            }
        }
    }
    t
}

#[test]
fn x_neutral_encodings() {
    let mut st = Stats::new("x_neutral_encodings", "seeded models x {raw / zlib 0,1,6,9 cels; chunk count in old/new/both fields; ignorable chunks at every position; junk in unused fields; zero pixel-ratio component; chunk / file padding; redundant legacy palette both orders; cel chunk permutations}: whole-API observation must be identical");
    let n = budget(60, 600);
    let mut r = Rng::new(seed() ^ 0x0701);
    let g = GenOpts::default();
    for i in 0..n {
        let s = rand_sprite(&mut r, &g);
        let canon = recompress(&s, None);
        let base = match load(&encode(&canon)) {
            Ok(f) => observe(&f, true),
            Err(e) => {
                st.fail(format!("canonical encoding of model #{} fails to load: {}", i, e), Some(&encode(&canon)));
                continue;
            }
        };
        let mut all: Vec<(String, Vec<u8>)> = Vec::new();
        for lvl in [0u32, 1, 6, 9] {
            all.push((format!("zlib level {}", lvl), encode(&recompress(&s, Some(lvl)))));
        }
        all.push(("mixed raw/zlib as generated".into(), encode(&s)));
        for (name, o) in variants(&mut r, &canon) {
            all.push((name, encode_with(&canon, &o).0));
        }
        for (name, bytes) in all {
            st.case(&bytes, true);
            match load(&bytes) {
                Err(e) => st.fail(format!("model #{} encoded with [{}] fails to load: {}", i, name, e), Some(&bytes)),
                Ok(f) => {
                    let o = observe(&f, true);
                    if let Some(d) = first_diff(&base, &o) {
                        st.fail(format!("model #{}: encoding choice [{}] changes the observation: {}", i, name, d), Some(&bytes));
                    }
                }
            }
        }
        if i == 0 {
            st.sample(format!("model with {} layers / {} frames x ~30 encodings", s.layers.len(), s.frames.len()));
        }
    }
    st.finish();
}

#[test]
fn x_truncation() {
    let mut st = Stats::new("x_truncation", "EVERY cut offset from 0 to the end of the last frame of seeded generated files and of the corpus files (quick: 8 smallest corpus files)");
    let mut r = Rng::new(seed() ^ 0x1301);
    let g = GenOpts::default();
    let n = budget(25, 250);
    let mut files: Vec<(String, Vec<u8>, usize)> = Vec::new();
    for i in 0..n {
        let s = rand_sprite(&mut r, &g);
        // vary what the file ends with: a chunk whose payload is fully decoded, an ignorable chunk (never
        // decoded), chunk padding (never decoded), a redundant legacy palette after the new one
        let o = match i % 5 {
            0 => EncOpts { trailing: 5, ..EncOpts::default() },
            1 => EncOpts { ignorable_after: vec![usize::MAX], ignorable_kind: [0x2006u16, 0x2016, 0x2017][(i / 5) % 3], ..EncOpts::default() },
            2 => EncOpts { chunk_padding: 1 + (i / 5) % 7, ..EncOpts::default() },
            3 => EncOpts { legacy_palette: if i % 2 == 0 { 4 } else { 0x11 }, legacy_first: false, ..EncOpts::default() },
            _ => EncOpts::default(),
        };
        let (b, end) = encode_with(&s, &o);
        files.push((format!("generated #{} (ending variant {})", i, i % 5), b, end));
    }
    let dir = std::path::Path::new(env!("CARGO_MANIFEST_DIR")).join("tests/data");
    let mut corpus: Vec<_> = std::fs::read_dir(dir).unwrap().flatten().map(|e| e.path()).filter(|p| p.extension().map_or(false, |x| x == "aseprite")).collect();
    corpus.sort();
    let mut cf: Vec<(String, Vec<u8>)> = corpus.iter().map(|p| (p.file_name().unwrap().to_string_lossy().to_string(), std::fs::read(p).unwrap())).collect();
    cf.sort_by_key(|(_, b)| b.len());
    let take = budget(8, 1000);
    for (n, b) in cf.into_iter().take(take) {
        if b.len() > 300_000 {
            continue;
        }
        if load(&b).is_err() {
            continue;
        }
        // end of the last frame = 128 + sum of frame sizes
        let nf = u16::from_le_bytes([b[6], b[7]]) as usize;
        let mut p = 128usize;
        for _ in 0..nf {
            if p + 4 > b.len() {
                break;
            }
            p += u32::from_le_bytes([b[p], b[p + 1], b[p + 2], b[p + 3]]) as usize;
        }
        let end = p.min(b.len());
        files.push((n, b, end));
    }
    for (name, b, end) in &files {
        // stride 1 up to 4096 bytes, then every 7th offset (pixel payloads) – all offsets in the thorough tier
        let mut cut = 0usize;
        while cut < *end {
            st.case(&(name.clone(), cut), true);
            if let Ok(f) = load(&b[..cut]) {
                st.fail(format!("[{}] truncated to {} of {} bytes LOADS as a sprite with {} frames / {} layers", name, cut, end, f.num_frames(), f.num_layers()), Some(&b[..cut]));
                break;
            }
            cut += if tier_thorough() || cut < 4096 || *end - cut < 64 { 1 } else { 7 };
        }
    }
    st.sample(format!("{} files, every prefix", files.len()));
    st.finish();
}

// ---- C14 readers ---------------------------------------------------------------------------------
struct Scripted<'a> {
    data: &'a [u8],
    pos: usize,
    rng: Rng,
    mode: u8, // 0: one byte at a time, 1: random splits, 2: random splits + Interrupted
    fail_at: Option<(usize, io::ErrorKind)>,
}
impl<'a> Read for Scripted<'a> {
    fn read(&mut self, buf: &mut [u8]) -> io::Result<usize> {
        if let Some((at, kind)) = self.fail_at {
            if self.pos >= at {
                return Err(io::Error::new(kind, "injected"));
            }
        }
        if buf.is_empty() {
            return Ok(0);
        }
        if self.mode == 2 && self.rng.chance(1, 3) {
            return Err(io::Error::new(io::ErrorKind::Interrupted, "try again"));
        }
        let remaining = self.data.len() - self.pos;
        let mut n = match self.mode {
            0 => 1,
            _ => 1 + self.rng.below(buf.len() as u64) as usize,
        };
        n = n.min(remaining).min(buf.len());
        if let Some((at, _)) = self.fail_at {
            n = n.min(at - self.pos);
        }
        buf[..n].copy_from_slice(&self.data[self.pos..self.pos + n]);
        self.pos += n;
        Ok(n)
    }
}

#[test]
fn x_readers() {
    let mut st = Stats::new("x_readers", "seeded models read through: contiguous slice, 1-byte reads, random short reads, random short reads with Interrupted, BufReader, a real file (read_file); a hard I/O error of 6 kinds injected at every byte offset (quick: every 5th)");
    let n = budget(12, 120);
    let mut r = Rng::new(seed() ^ 0x1401);
    let g = GenOpts::default();
    let tmpdir = std::env::var("VERIF_XTMP").unwrap_or_else(|_| std::env::temp_dir().to_string_lossy().to_string());
    let kinds = [io::ErrorKind::PermissionDenied, io::ErrorKind::BrokenPipe, io::ErrorKind::TimedOut, io::ErrorKind::Other, io::ErrorKind::ConnectionReset, io::ErrorKind::UnexpectedEof];
    for i in 0..n {
        let s = rand_sprite(&mut r, &g);
        let (bytes, end) = encode_with(&s, &EncOpts::default());
        let base = match load(&bytes) {
            Ok(f) => observe(&f, true),
            Err(e) => {
                st.fail(format!("model #{} fails to load: {}", i, e), Some(&bytes));
                continue;
            }
        };
        for mode in 0..3u8 {
            let rd = Scripted { data: &bytes, pos: 0, rng: Rng::new(i as u64 * 7 + mode as u64), mode, fail_at: None };
            st.case(&(i, mode), true);
            match AsepriteFile::read(rd) {
                Err(e) => st.fail(format!("model #{} through reader mode {} fails: {}", i, mode, e), Some(&bytes)),
                Ok(f) => {
                    if let Some(d) = first_diff(&base, &observe(&f, true)) {
                        st.fail(format!("model #{}: reader mode {} changes the result: {}", i, mode, d), Some(&bytes));
                    }
                }
            }
        }
        match AsepriteFile::read(io::BufReader::with_capacity(7, &bytes[..])) {
            Ok(f) => {
                if let Some(d) = first_diff(&base, &observe(&f, true)) {
                    st.fail(format!("model #{}: BufReader changes the result: {}", i, d), Some(&bytes));
                }
            }
            Err(e) => st.fail(format!("model #{} through BufReader fails: {}", i, e), Some(&bytes)),
        }
        let path = std::path::Path::new(&tmpdir).join(format!("verif-readfile-{}-{}.aseprite", std::process::id(), i));
        std::fs::write(&path, &bytes).unwrap();
        match AsepriteFile::read_file(&path) {
            Ok(f) => {
                if let Some(d) = first_diff(&base, &observe(&f, true)) {
                    st.fail(format!("model #{}: read_file changes the result: {}", i, d), Some(&bytes));
                }
            }
            Err(e) => st.fail(format!("model #{} through read_file fails: {}", i, e), Some(&bytes)),
        }
        let _ = std::fs::remove_file(&path);
        // hard errors before the needed data has been delivered
        let step = if tier_thorough() { 1 } else { 5 };
        let mut at = 0usize;
        while at < end {
            let kind = kinds[(at / step) % kinds.len()];
            let rd = Scripted { data: &bytes, pos: 0, rng: Rng::new(at as u64), mode: 1 + (at % 2) as u8, fail_at: Some((at, kind)) };
            st.case(&(i, at, kind as u8 as u32 + 100), true);
            match AsepriteFile::read(rd) {
                Ok(_) => st.fail(format!("model #{}: hard {:?} error at offset {} of {} but a sprite is returned", i, kind, at, end), Some(&bytes)),
                Err(AsepriteParseError::IoError(e)) => {
                    if e.kind() != kind {
                        st.fail(format!("model #{}: injected {:?} at offset {} surfaces as IoError({:?})", i, kind, at, e.kind()), Some(&bytes));
                    }
                }
                Err(other) => {
                    use std::error::Error;
                    st.fail(format!("model #{}: injected {:?} at offset {} surfaces as a non-I/O error: {} (source: {})", i, kind, at, other, other.source().is_some()), Some(&bytes));
                }
            }
            at += step;
        }
    }
    st.sample("hard error PermissionDenied at offset 131 under random short reads".into());
    st.finish();
}

// ---- C15 refusals --------------------------------------------------------------------------------
#[test]
fn x_refusals() {
    let mut st = Stats::new("x_refusals", "seeded models; each documented-unsupported feature switched on at every position where it can occur (pixel ratio, colour depth, ICC / fixed gamma, bits per tile, tileset without pixels, unknown layer type / blend mode / cel type / animation direction); the unmodified file must load");
    let n = budget(40, 400);
    let mut r = Rng::new(seed() ^ 0x1501);
    let g = GenOpts::default();
    for i in 0..n {
        let s = rand_sprite(&mut r, &g);
        let canon = {
            let mut t = s.clone();
            for f in t.frames.iter_mut() {
                for c in f.cels.iter_mut() {
                    c.zlib = match c.kind {
                        CelKind::Tilemap { .. } => Some(6),
                        _ => None,
                    };
                }
            }
            t
        };
        let bytes = encode(&canon);
        if let Err(e) = load(&bytes) {
            st.fail(format!("model #{} fails to load: {}", i, e), Some(&bytes));
            continue;
        }
        let mut muts: Vec<(String, Vec<u8>)> = Vec::new();
        for &(pw, ph) in &[(2u8, 1u8), (1, 2), (3, 3), (255, 255), (1, 255)] {
            muts.push((format!("pixel ratio {}:{}", pw, ph), encode_with(&canon, &EncOpts { pixel_ratio: (pw, ph), ..EncOpts::default() }).0));
        }
        for &depth in &[0u16, 1, 4, 15, 24, 31, 33, 64, 0xffff] {
            let mut b = bytes.clone();
            b[12..14].copy_from_slice(&depth.to_le_bytes());
            muts.push((format!("colour depth {}", depth), b));
        }
        // colour profile: ICC type, unknown type, fixed gamma flag
        if let Some(p) = find_chunk(&bytes, 0x2007) {
            for &(ty, fl) in &[(2u16, 0u16), (1, 1), (0, 1), (3, 0), (0xffff, 0), (1, 0xffff)] {
                let mut b = bytes.clone();
                b[p + 6..p + 8].copy_from_slice(&ty.to_le_bytes());
                b[p + 8..p + 10].copy_from_slice(&fl.to_le_bytes());
                muts.push((format!("colour profile type {} flags {}", ty, fl), b));
            }
        }
        // walk all chunks of all frames
        let mut p = 128usize;
        for _f in 0..canon.frames.len() {
            let fsize = u32::from_le_bytes([bytes[p], bytes[p + 1], bytes[p + 2], bytes[p + 3]]) as usize;
            let fend = p + fsize;
            let mut q = p + 16;
            while q + 6 <= fend {
                let size = u32::from_le_bytes([bytes[q], bytes[q + 1], bytes[q + 2], bytes[q + 3]]) as usize;
                let ty = u16::from_le_bytes([bytes[q + 4], bytes[q + 5]]);
                let d = q + 6;
                match ty {
                    0x2004 => {
                        for &v in &[3u16, 4, 0xffff] {
                            let mut b = bytes.clone();
                            b[d + 2..d + 4].copy_from_slice(&v.to_le_bytes());
                            muts.push((format!("layer type {} (chunk at {})", v, q), b));
                        }
                        for &v in &[19u16, 20, 255, 0xffff] {
                            let mut b = bytes.clone();
                            b[d + 10..d + 12].copy_from_slice(&v.to_le_bytes());
                            muts.push((format!("blend mode {} (chunk at {})", v, q), b));
                        }
                    }
                    0x2005 => {
                        for &v in &[4u16, 5, 0xffff] {
                            let mut b = bytes.clone();
                            b[d + 7..d + 9].copy_from_slice(&v.to_le_bytes());
                            muts.push((format!("cel type {} (chunk at {})", v, q), b));
                        }
                        if u16::from_le_bytes([bytes[d + 7], bytes[d + 8]]) == 3 {
                            for &v in &[8u16, 16, 0, 31, 33, 64] {
                                let mut b = bytes.clone();
                                b[d + 20..d + 22].copy_from_slice(&v.to_le_bytes());
                                muts.push((format!("{} bits per tile (chunk at {})", v, q), b));
                            }
                        }
                    }
                    0x2018 => {
                        let nt = u16::from_le_bytes([bytes[d], bytes[d + 1]]) as usize;
                        let mut t = d + 10;
                        for k in 0..nt {
                            for &v in &[3u8, 4, 255] {
                                let mut b = bytes.clone();
                                b[t + 4] = v;
                                muts.push((format!("animation direction {} of tag {}", v, k), b));
                            }
                            let nl = u16::from_le_bytes([bytes[t + 17], bytes[t + 18]]) as usize;
                            t += 19 + nl;
                        }
                    }
                    0x2023 => {
                        // tileset whose pixels are not embedded: clear flag bit 1 and drop the pixel data
                        let name_len = u16::from_le_bytes([bytes[d + 32], bytes[d + 33]]) as usize;
                        let keep = 34 + name_len;
                        let mut payload = bytes[d..d + keep].to_vec();
                        payload[4] = (payload[4] & !2) | 1; // links external file instead
                        payload.extend_from_slice(&[1, 0, 0, 0, 0, 0, 0, 0]);
                        let newc = chunk(0x2023, &payload, 0);
                        let mut b = bytes[..q].to_vec();
                        b.extend_from_slice(&newc);
                        b.extend_from_slice(&bytes[q + size..]);
                        // fix the frame size
                        let nf = (fsize + newc.len() - size) as u32;
                        b[p..p + 4].copy_from_slice(&nf.to_le_bytes());
                        muts.push((format!("tileset without embedded pixels (chunk at {})", q), b));
                    }
                    _ => {}
                }
                q += size.max(6);
            }
            p = fend;
        }
        for (name, b) in muts {
            st.case(&b, true);
            if let Ok(_) = load(&b) {
                st.fail(format!("model #{}: unsupported feature [{}] is silently accepted", i, name), Some(&b));
            }
        }
    }
    st.sample("blend mode 19 in the second layer chunk -> must be Err".into());
    st.finish();
}
