//! Engine X: bounded stand-ins that EXECUTE the real code (never counted as proved).
//! Compiled only with `--cfg asefile_verif` in the test profile (overflow checks + debug assertions on).
#![allow(dead_code, unused_imports, clippy::all)]
pub mod enc;
pub mod gen;
pub mod obs;
pub mod spec_img;
pub mod xutil;

mod x_structure; // C01, C19
mod x_render; // C02, C06, C08, C09
mod x_total; // C04, C05
mod x_userdata; // C10
mod x_encoding; // C07, C13, C14, C15
mod x_palette; // C11
mod x_tilemap; // C08
mod x_blend; // C03, C17
mod x_misc; // C16, C18
mod x_decoders; // C01, C04, C11, C15 (decoder contracts executed natively)
