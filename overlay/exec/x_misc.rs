//! C16 (immutable, deterministic, thread-safe value) and C18 (utils).
use super::enc::*;
use super::gen::*;
use super::obs::*;
use super::xutil::*;
use crate::*;

#[test]
fn x_determinism() {
    let mut st = Stats::new("x_determinism", "seeded models + corpus files: load twice -> equal observations; observation repeated 3x and interleaved with other accessors -> equal; 16 threads observing one shared reference concurrently -> all equal (a sanity stand-in: interleavings are not explored)");
    let n = budget(40, 400);
    let mut r = Rng::new(seed() ^ 0x1601);
    let g = GenOpts::default();
    let mut inputs: Vec<Vec<u8>> = (0..n).map(|_| encode(&rand_sprite(&mut r, &g))).collect();
    let dir = std::path::Path::new(env!("CARGO_MANIFEST_DIR")).join("tests/data");
    let mut corpus: Vec<_> = std::fs::read_dir(dir).unwrap().flatten().map(|e| e.path()).filter(|p| p.extension().map_or(false, |x| x == "aseprite")).collect();
    corpus.sort();
    // corpus files whose palettes repeat colours first (the palette mapper is an observation too)
    corpus.sort_by_key(|p| !["palette.aseprite", "indexed.aseprite", "util_indexed.aseprite", "256_color_old_palette_chunk.aseprite"].contains(&p.file_name().and_then(|n| n.to_str()).unwrap_or("")));
    for p in corpus.iter().take(budget(10, 100)) {
        if let Ok(b) = std::fs::read(p) {
            if b.len() < 60_000 {
                inputs.push(b);
            }
        }
    }
    // indexed sprites in which the SAME palette index means different things on different layers (transparent index on a
    // normal layer, opaque on a background layer): any state shared between cels shows up as call-order dependence
    for &ti in &[0u8, 1] {
        let mut s = Sprite::new(3, 1, Fmt::Indexed(ti), 2);
        let mut bg = LayerM::image("bg");
        bg.flags = 1 | 8;
        s.layers.push(bg);
        s.layers.push(LayerM::image("fg"));
        s.palette = Some(vec![
            PalEntry { idx: 0, rgba: [255, 0, 0, 255], name: None },
            PalEntry { idx: 1, rgba: [0, 255, 0, 255], name: None },
            PalEntry { idx: 2, rgba: [0, 0, 255, 200], name: None },
        ]);
        for f in 0..2 {
            s.frames[f].cels.push(CelM { layer: 0, x: 0, y: 0, opacity: 255, kind: CelKind::Raw { w: 3, h: 1, px: vec![ti, 1 - ti, 2] }, ud: None, zlib: None });
            s.frames[f].cels.push(CelM { layer: 1, x: 0, y: 0, opacity: 255, kind: CelKind::Raw { w: 3, h: 1, px: vec![2, ti, ti] }, ud: None, zlib: Some(6) });
        }
        inputs.push(encode(&s));
    }
    for (i, bytes) in inputs.iter().enumerate() {
        let (f1, f2) = match (load(bytes), load(bytes)) {
            (Ok(a), Ok(b)) => (a, b),
            (Err(_), Err(_)) => continue,
            _ => {
                st.fail(format!("input #{}: loading the same bytes twice gives Ok once and Err once", i), Some(bytes));
                continue;
            }
        };
        st.case(bytes, true);
        let base = observe(&f1, true);
        // the second value is first used in the OPPOSITE order (last frame / top layer first, cels before frames)
        for fr in (0..f2.num_frames()).rev() {
            for l in (0..f2.num_layers()).rev() {
                let _ = f2.cel(fr, l).image();
            }
            let _ = f2.frame(fr).image();
        }
        if let Some(d) = first_diff(&base, &observe(&f2, true)) {
            st.fail(format!("input #{}: two loads of the same bytes differ: {}", i, d), Some(bytes));
        }
        // repeated and reordered calls on the same value
        for round in 0..3 {
            for fr in (0..f1.num_frames()).rev() {
                let _ = f1.frame(fr).image();
                for l in 0..f1.num_layers() {
                    let _ = f1.cel(fr, l).image();
                    let _ = f1.layer(l).is_visible();
                }
            }
            let _ = format!("{:?}", f1.palette().map(|p| p.num_colors()));
            if let Some(d) = first_diff(&base, &observe(&f1, true)) {
                st.fail(format!("input #{}: observation changes after repeated/reordered calls (round {}): {}", i, round, d), Some(bytes));
            }
        }
        // concurrent readers on one shared reference
        let fref = &f1;
        let baseref = &base;
        let diffs: Vec<Option<String>> = std::thread::scope(|sc| {
            let hs: Vec<_> = (0..16).map(|t| sc.spawn(move || {
                let mut d = None;
                for _ in 0..(1 + t % 3) {
                    if let Some(x) = first_diff(baseref, &observe(fref, true)) {
                        d = Some(x);
                    }
                }
                d
            })).collect();
            hs.into_iter().map(|h| h.join().unwrap_or(Some("thread panicked".into()))).collect()
        });
        for (t, d) in diffs.into_iter().enumerate() {
            if let Some(d) = d {
                st.fail(format!("input #{}: thread {} of 16 observes something different: {}", i, t, d), Some(bytes));
            }
        }
    }
    st.sample("16 threads x full observation of one shared AsepriteFile".into());
    st.finish();
}

#[cfg(feature = "utils")]
#[test]
fn x_utils() {
    use crate::util::*;
    use image::{Rgba, RgbaImage};
    let mut st = Stats::new("x_utils", "extrude_border on all sizes 1..=8 x 1..=8 plus seeded sizes up to 64x64 with random pixels; PaletteMapper on seeded palettes (duplicates, sparse indices, indices >= 256 via a legacy-free new palette) with every option combination; to_indexed_image on seeded images");
    let mut r = Rng::new(seed() ^ 0x1801);
    let mut sizes: Vec<(u32, u32)> = Vec::new();
    for w in 1..=8 {
        for h in 1..=8 {
            sizes.push((w, h));
        }
    }
    for _ in 0..budget(30, 300) {
        sizes.push((r.range(1, 64) as u32, r.range(1, 64) as u32));
    }
    for (w, h) in sizes {
        let mut img = RgbaImage::new(w, h);
        for p in img.pixels_mut() {
            *p = Rgba([r.next() as u8, r.next() as u8, r.next() as u8, r.next() as u8]);
        }
        st.case(&(w, h, img.as_raw().clone()), true);
        let out = match std::panic::catch_unwind(|| extrude_border(img.clone())) {
            Ok(o) => o,
            Err(_) => {
                st.fail(format!("extrude_border panics on a {}x{} image", w, h), None);
                continue;
            }
        };
        if out.dimensions() != (w + 2, h + 2) {
            st.fail(format!("extrude_border {}x{} -> {:?}", w, h, out.dimensions()), None);
            continue;
        }
        for y in 0..h + 2 {
            for x in 0..w + 2 {
                let sx = (x as i64 - 1).clamp(0, w as i64 - 1) as u32;
                let sy = (y as i64 - 1).clamp(0, h as i64 - 1) as u32;
                if out.get_pixel(x, y) != img.get_pixel(sx, sy) {
                    st.fail(format!("extrude_border {}x{}: pixel ({}, {}) != input ({}, {})", w, h, x, y, sx, sy), None);
                }
            }
        }
    }
    // palette mapper
    for i in 0..budget(200, 2000) {
        let first = *r.pick(&[0u32, 0, 1, 250, 254, 256, 300]);
        let n = r.range(1, 12) as u32;
        let few: Vec<[u8; 3]> = (0..4).map(|_| [r.u8(), r.u8(), r.u8()]).collect();
        let entries: Vec<PalEntry> = (0..n).map(|k| {
            let c = if r.chance(1, 2) { *r.pick(&few) } else { [r.next() as u8, r.next() as u8, r.next() as u8] };
            PalEntry { idx: first + k, rgba: [c[0], c[1], c[2], r.u8()], name: None }
        }).collect();
        let mut s = Sprite::new(1, 1, Fmt::Rgba, 1);
        s.layers.push(LayerM::image("a"));
        s.palette = Some(entries.clone());
        let bytes = encode(&s);
        let f = match load(&bytes) {
            Ok(f) => f,
            Err(e) => {
                st.fail(format!("palette sprite fails to load: {}", e), Some(&bytes));
                continue;
            }
        };
        let pal = f.palette().unwrap();
        let failure = r.u8();
        let transparent = if r.chance(1, 2) { Some(r.u8()) } else { None };
        let mapper = PaletteMapper::new(pal, MappingOptions { failure, transparent });
        st.case(&(i, bytes.clone(), failure, transparent), true);
        let mut queries: Vec<[u8; 4]> = entries.iter().map(|e| [e.rgba[0], e.rgba[1], e.rgba[2], 255]).collect();
        for _ in 0..6 {
            queries.push([r.u8(), r.u8(), r.u8(), 255]);
            let c = *r.pick(&few);
            queries.push([c[0], c[1], c[2], *r.pick(&[0u8, 1, 128, 254])]);
        }
        for q in &queries {
            let got = mapper.lookup(q[0], q[1], q[2], q[3]);
            let occ: Vec<u32> = entries.iter().filter(|e| e.rgba[..3] == q[..3]).map(|e| e.idx).collect();
            if q[3] != 255 {
                if got != transparent.unwrap_or(failure) {
                    st.fail(format!("lookup({:?}) with alpha != 255 = {}, expected transparent/failure index {}", q, got, transparent.unwrap_or(failure)), None);
                }
            } else if occ.is_empty() {
                if got != failure {
                    st.fail(format!("lookup({:?}) of a colour absent from the palette = {}, expected failure index {}", q, got, failure), None);
                }
            } else if occ.iter().all(|&i| i < 256) {
                let ok = occ.iter().any(|&i| i == got as u32);
                if !ok {
                    st.fail(format!("lookup({:?}) = {} but the colour occurs at indices {:?}", q, got, occ), None);
                }
            } else if occ.iter().all(|&i| i >= 256) {
                // no occurrence below 256: "otherwise the failure index" (never a truncated index)
                if got != failure {
                    st.fail(format!("lookup({:?}) = {} but the colour occurs only at indices {:?} (>= 256), expected failure index {}", q, got, occ, failure), None);
                }
            }
        }
        // to_indexed_image
        let (w, h) = (r.range(1, 5) as u32, r.range(1, 5) as u32);
        let mut img = RgbaImage::new(w, h);
        for p in img.pixels_mut() {
            *p = Rgba(*r.pick(&queries));
        }
        let ((ow, oh), data) = to_indexed_image(img.clone(), &mapper);
        if (ow, oh) != (w, h) || data.len() != (w * h) as usize {
            st.fail(format!("to_indexed_image dimensions {:?} len {}", (ow, oh), data.len()), None);
        } else {
            for y in 0..h {
                for x in 0..w {
                    let p = img.get_pixel(x, y).0;
                    if data[(y * w + x) as usize] != mapper.lookup(p[0], p[1], p[2], p[3]) {
                        st.fail(format!("to_indexed_image pixel ({}, {}) is not lookup() of that pixel, row-major", x, y), None);
                    }
                }
            }
        }
    }
    st.sample("palette indices 250..=261 with duplicate colours, transparent=Some(7), failure=3".into());
    st.finish();
}

/// Bounded stand-in for the contract of CelsData::{new, add_cel, cel, frame_cels} (the Kani harness k_cels_table
/// does not finish under CBMC): its body is run natively on every draw of an enumerated input set. This is also
/// the executed check behind the TRUSTED Verus shim of frame_cels (yields the stored cels of a frame in
/// increasing layer order, each with its layer id).
#[test]
fn x_cels_table() {
    use crate::verif_spec::src::VecSrc;
    let mut st = Stats::new("x_cels_table", "two insertions into a 2-frame table: frame ids in {0,1,2,3,255,256,65535}, layer indices 0..=3, both insertion orders (784 cases)");
    let frames = [0u16, 1, 2, 3, 255, 256, 65535];
    for &f1 in &frames {
        for l1 in 0u16..=3 {
            for &f2 in &frames {
                for l2 in 0u16..=3 {
                    st.case(&(f1, l1, f2, l2), f1 < 2 || f2 < 2);
                    let draws = vec![f1.to_le_bytes().to_vec(), l1.to_le_bytes().to_vec(), f2.to_le_bytes().to_vec(), l2.to_le_bytes().to_vec()];
                    let r = std::panic::catch_unwind(|| {
                        let mut s = VecSrc { draws, pos: 0 };
                        crate::cel::verif_overlay::k_cels_table(&mut s);
                    });
                    if let Err(e) = r {
                        let msg = e.downcast_ref::<String>().cloned().or_else(|| e.downcast_ref::<&str>().map(|s| s.to_string())).unwrap_or_default();
                        st.fail(format!("CelsData table contract violated for insertions (frame {}, layer {}), (frame {}, layer {}): {}", f1, l1, f2, l2, msg), None);
                    }
                }
            }
        }
    }
    st.sample("add (frame 1, layer 3) then (frame 1, layer 0): frame_cels(1) yields layer 0 then layer 3".into());
    st.finish();
}
