//! Sprite model and a minimal `.aseprite` encoder (model -> bytes) with per-chunk encoding choices.
//! Follows docs/ase-file-specs.md; used only by the bounded-exec obligations (Engine X).
#![allow(dead_code)]
use std::io::Write;

#[derive(Clone, Debug, PartialEq)]
pub enum Fmt {
    Rgba,
    Gray,
    Indexed(u8),
}
impl Fmt {
    pub fn depth(&self) -> u16 {
        match self {
            Fmt::Rgba => 32,
            Fmt::Gray => 16,
            Fmt::Indexed(_) => 8,
        }
    }
    pub fn bpp(&self) -> usize {
        (self.depth() / 8) as usize
    }
}

#[derive(Clone, Debug, PartialEq, Default)]
pub struct UD {
    pub text: Option<String>,
    pub color: Option<[u8; 4]>,
}

#[derive(Clone, Debug, PartialEq)]
pub struct LayerM {
    pub flags: u16,
    pub ty: u16, // 0 image 1 group 2 tilemap
    pub level: u16,
    pub blend: u16,
    pub opacity: u8,
    pub name: String,
    pub tileset: u32,
    pub ud: Option<UD>,
}
impl LayerM {
    pub fn image(name: &str) -> LayerM {
        LayerM { flags: 3, ty: 0, level: 0, blend: 0, opacity: 255, name: name.to_string(), tileset: 0, ud: None }
    }
}

#[derive(Clone, Debug, PartialEq)]
pub enum CelKind {
    /// w, h, raw pixel bytes in the sprite's pixel format
    Raw { w: u16, h: u16, px: Vec<u8> },
    Linked(u16),
    /// w, h in tiles, tile words
    Tilemap { w: u16, h: u16, tiles: Vec<u32> },
}

#[derive(Clone, Debug, PartialEq)]
pub struct CelM {
    pub layer: u16,
    pub x: i16,
    pub y: i16,
    pub opacity: u8,
    pub kind: CelKind,
    pub ud: Option<UD>,
    /// encoding choice: None = raw (type 0), Some(level) = zlib (type 2). Tilemaps are always zlib.
    pub zlib: Option<u32>,
}

#[derive(Clone, Debug, PartialEq)]
pub struct FrameM {
    pub duration: u16,
    pub cels: Vec<CelM>,
}

#[derive(Clone, Debug, PartialEq)]
pub struct TagM {
    pub from: u16,
    pub to: u16,
    pub dir: u8,
    pub repeat: u16,
    pub name: String,
    pub ud: Option<UD>,
}

#[derive(Clone, Debug, PartialEq)]
pub struct SliceKeyM {
    pub frame: u32,
    pub x: i32,
    pub y: i32,
    pub w: u32,
    pub h: u32,
    pub nine: Option<(i32, i32, u32, u32)>,
    pub pivot: Option<(i32, i32)>,
}
#[derive(Clone, Debug, PartialEq)]
pub struct SliceM {
    pub name: String,
    pub keys: Vec<SliceKeyM>,
    pub ud: Option<UD>,
}

#[derive(Clone, Debug, PartialEq)]
pub struct TilesetM {
    pub id: u32,
    pub flags: u32, // bit 1 (2) = tiles included
    pub count: u32,
    pub tw: u16,
    pub th: u16,
    pub base: i16,
    pub name: String,
    pub external: Option<(u32, u32)>,
    /// raw pixel bytes of all tiles (count * tw * th * bpp)
    pub px: Vec<u8>,
}

#[derive(Clone, Debug, PartialEq)]
pub struct PalEntry {
    pub idx: u32,
    pub rgba: [u8; 4],
    pub name: Option<String>,
}

#[derive(Clone, Debug, PartialEq)]
pub struct Sprite {
    pub w: u16,
    pub h: u16,
    pub fmt: Fmt,
    pub speed: u16,
    pub frames: Vec<FrameM>,
    pub layers: Vec<LayerM>,
    pub tags: Vec<TagM>,
    pub slices: Vec<SliceM>,
    /// new-format palette: contiguous range of entries (first index = entries[0].idx)
    pub palette: Option<Vec<PalEntry>>,
    pub ext_files: Vec<(u32, String)>,
    pub tilesets: Vec<TilesetM>,
    pub sprite_ud: Option<UD>,
}

impl Sprite {
    pub fn new(w: u16, h: u16, fmt: Fmt, nframes: usize) -> Sprite {
        Sprite {
            w,
            h,
            fmt,
            speed: 100,
            frames: (0..nframes).map(|_| FrameM { duration: 100, cels: vec![] }).collect(),
            layers: vec![],
            tags: vec![],
            slices: vec![],
            palette: None,
            ext_files: vec![],
            tilesets: vec![],
            sprite_ud: None,
        }
    }
    pub fn gray_palette(n: u32) -> Vec<PalEntry> {
        (0..n).map(|i| PalEntry { idx: i, rgba: [(i * 37 % 256) as u8, (i * 91 % 256) as u8, (255 - i % 256) as u8, 255], name: None }).collect()
    }
}

// -------------------------------------------------------------------------------------------------
// Encoding choices
// -------------------------------------------------------------------------------------------------
#[derive(Clone, Debug, PartialEq)]
pub enum CountField {
    New,     // old = min(n, 0xFFFF)?? no: old = 0xFFFF if n>=0xFFFF else n ; new = n  (what Aseprite writes)
    OldOnly, // old = n, new = 0
    Both,    // old = n (or 0xFFFF), new = n
    NewOnlyOldFFFF, // old = 0xFFFF, new = n
    NewOnlyOldZero, // old = 0, new = n
}

#[derive(Clone, Debug)]
pub struct EncOpts {
    pub count_field: CountField,
    /// ignorable chunks (0x2006 cel extra, 0x2016 mask, 0x2017 path) inserted after every chunk whose
    /// ordinal (within its frame) is in this list; usize::MAX = after all
    pub ignorable_after: Vec<usize>,
    pub ignorable_kind: u16,
    /// colour profile chunk: None = absent, Some(0) none, Some(1) sRGB
    pub color_profile: Option<u16>,
    /// extra bytes appended to every chunk payload (chunk size enlarged)
    pub chunk_padding: usize,
    /// bytes appended after the last frame
    pub trailing: usize,
    /// legacy palette chunk emitted: 0 none, 4 / 0x11 kind; before (true) or after (false) the new one
    pub legacy_palette: u16,
    pub legacy_first: bool,
    /// emit the new-format palette chunk at all
    pub new_palette: bool,
    /// header: pixel ratio
    pub pixel_ratio: (u8, u8),
    /// values for unused header / layer fields
    pub junk: u8,
    /// permutation seed for the order of cel chunks inside a frame (0 = model order)
    pub cel_perm: u64,
    /// emit sprite user data after the legacy palette (requires legacy_palette != 0)
    pub frame_size_slack: u32,
}
impl Default for EncOpts {
    fn default() -> Self {
        EncOpts {
            count_field: CountField::Both,
            ignorable_after: vec![],
            ignorable_kind: 0x2006,
            color_profile: Some(1),
            chunk_padding: 0,
            trailing: 0,
            legacy_palette: 0,
            legacy_first: true,
            new_palette: true,
            pixel_ratio: (1, 1),
            junk: 0,
            cel_perm: 0,
            frame_size_slack: 0,
        }
    }
}

// -------------------------------------------------------------------------------------------------
pub struct W(pub Vec<u8>);
impl W {
    pub fn new() -> W {
        W(Vec::new())
    }
    pub fn u8(&mut self, v: u8) {
        self.0.push(v)
    }
    pub fn u16(&mut self, v: u16) {
        self.0.extend_from_slice(&v.to_le_bytes())
    }
    pub fn i16(&mut self, v: i16) {
        self.0.extend_from_slice(&v.to_le_bytes())
    }
    pub fn u32(&mut self, v: u32) {
        self.0.extend_from_slice(&v.to_le_bytes())
    }
    pub fn i32(&mut self, v: i32) {
        self.0.extend_from_slice(&v.to_le_bytes())
    }
    pub fn zeros(&mut self, n: usize, fill: u8) {
        for _ in 0..n {
            self.0.push(fill)
        }
    }
    pub fn bytes(&mut self, b: &[u8]) {
        self.0.extend_from_slice(b)
    }
    pub fn string(&mut self, s: &str) {
        self.u16(s.len() as u16);
        self.bytes(s.as_bytes());
    }
}

pub fn zlib(data: &[u8], level: u32) -> Vec<u8> {
    let mut e = flate2::write::ZlibEncoder::new(Vec::new(), flate2::Compression::new(level));
    e.write_all(data).unwrap();
    e.finish().unwrap()
}

pub fn chunk(ty: u16, payload: &[u8], padding: usize) -> Vec<u8> {
    let mut w = W::new();
    w.u32((payload.len() + padding + 6) as u32);
    w.u16(ty);
    w.bytes(payload);
    w.zeros(padding, 0xEE);
    w.0
}

pub fn layer_payload(l: &LayerM, junk: u8) -> Vec<u8> {
    let mut w = W::new();
    w.u16(l.flags);
    w.u16(l.ty);
    w.u16(l.level);
    w.u16(junk as u16 * 257); // default width (ignored)
    w.u16(junk as u16 * 257); // default height (ignored)
    w.u16(l.blend);
    w.u8(l.opacity);
    w.zeros(3, junk);
    w.string(&l.name);
    if l.ty == 2 {
        w.u32(l.tileset);
    }
    w.0
}

pub fn cel_payload(c: &CelM, junk: u8) -> Vec<u8> {
    let mut w = W::new();
    w.u16(c.layer);
    w.i16(c.x);
    w.i16(c.y);
    w.u8(c.opacity);
    match &c.kind {
        CelKind::Raw { w: cw, h: ch, px } => {
            match c.zlib {
                None => {
                    w.u16(0);
                    w.zeros(7, junk);
                    w.u16(*cw);
                    w.u16(*ch);
                    w.bytes(px);
                }
                Some(level) => {
                    w.u16(2);
                    w.zeros(7, junk);
                    w.u16(*cw);
                    w.u16(*ch);
                    w.bytes(&zlib(px, level));
                }
            }
        }
        CelKind::Linked(f) => {
            w.u16(1);
            w.zeros(7, junk);
            w.u16(*f);
        }
        CelKind::Tilemap { w: tw, h: th, tiles } => {
            w.u16(3);
            w.zeros(7, junk);
            w.u16(*tw);
            w.u16(*th);
            w.u16(32);
            w.u32(0x1fff_ffff);
            w.u32(0x2000_0000);
            w.u32(0x4000_0000);
            w.u32(0x8000_0000);
            w.zeros(10, junk);
            let mut raw = Vec::new();
            for t in tiles {
                raw.extend_from_slice(&t.to_le_bytes());
            }
            w.bytes(&zlib(&raw, c.zlib.unwrap_or(6)));
        }
    }
    w.0
}

pub fn ud_payload(u: &UD) -> Vec<u8> {
    let mut w = W::new();
    let flags = (u.text.is_some() as u32) | ((u.color.is_some() as u32) << 1);
    w.u32(flags);
    if let Some(t) = &u.text {
        w.string(t);
    }
    if let Some(c) = &u.color {
        w.bytes(c);
    }
    w.0
}

pub fn tags_payload(tags: &[TagM], junk: u8) -> Vec<u8> {
    let mut w = W::new();
    w.u16(tags.len() as u16);
    w.zeros(8, junk);
    for t in tags {
        w.u16(t.from);
        w.u16(t.to);
        w.u8(t.dir);
        w.u16(t.repeat);
        w.zeros(6, junk);
        w.zeros(3, junk); // deprecated RGB
        w.u8(0);
        w.string(&t.name);
    }
    w.0
}

pub fn slice_payload(s: &SliceM) -> Vec<u8> {
    let mut w = W::new();
    w.u32(s.keys.len() as u32);
    let has9 = s.keys.first().map_or(false, |k| k.nine.is_some());
    let hasp = s.keys.first().map_or(false, |k| k.pivot.is_some());
    w.u32(has9 as u32 | (hasp as u32) << 1);
    w.u32(0);
    w.string(&s.name);
    for k in &s.keys {
        w.u32(k.frame);
        w.i32(k.x);
        w.i32(k.y);
        w.u32(k.w);
        w.u32(k.h);
        if has9 {
            let n = k.nine.unwrap();
            w.i32(n.0);
            w.i32(n.1);
            w.u32(n.2);
            w.u32(n.3);
        }
        if hasp {
            let p = k.pivot.unwrap();
            w.i32(p.0);
            w.i32(p.1);
        }
    }
    w.0
}

pub fn palette_payload(p: &[PalEntry]) -> Vec<u8> {
    let mut w = W::new();
    let first = p.first().map_or(0, |e| e.idx);
    let last = p.last().map_or(0, |e| e.idx);
    w.u32(last.wrapping_add(1));
    w.u32(first);
    w.u32(last);
    w.zeros(8, 0);
    for e in p {
        w.u16(e.name.is_some() as u16);
        w.bytes(&e.rgba);
        if let Some(n) = &e.name {
            w.string(n);
        }
    }
    w.0
}

/// legacy palette chunk 0x0004 (8-bit) / 0x0011 (6-bit): one packet starting at index 0
pub fn legacy_palette_payload(kind: u16, colors: &[[u8; 3]]) -> Vec<u8> {
    let mut w = W::new();
    w.u16(1);
    w.u8(0);
    w.u8(if colors.len() == 256 { 0 } else { colors.len() as u8 });
    for c in colors {
        if kind == 0x11 {
            w.bytes(&[c[0] >> 2, c[1] >> 2, c[2] >> 2]);
        } else {
            w.bytes(c);
        }
    }
    w.0
}

/// which legacy palette chunk is emitted (sprite user data needs one to attach to)
pub fn legacy_kind(s: &Sprite, o: &EncOpts) -> u16 {
    if o.legacy_palette != 0 {
        o.legacy_palette
    } else if s.sprite_ud.is_some() {
        4
    } else {
        0
    }
}
pub fn legacy_colors(s: &Sprite) -> Vec<[u8; 3]> {
    match &s.palette {
        // the legacy chunk written here has one packet starting at index 0
        Some(p) if p[0].idx == 0 => p.iter().map(|e| [e.rgba[0], e.rgba[1], e.rgba[2]]).collect(),
        _ => vec![[0, 0, 0]],
    }
}
/// The palette a conforming reader reports for this encoding: the new-format chunk wins; otherwise
/// the legacy chunk (opaque entries from index 0; 6-bit components scaled for kind 0x11).
pub fn expected_palette(s: &Sprite, o: &EncOpts) -> Option<Vec<PalEntry>> {
    if o.new_palette && s.palette.is_some() {
        return s.palette.clone();
    }
    let lk = legacy_kind(s, o);
    if lk == 0 {
        return None;
    }
    let sc = |c: u8| if lk == 0x11 { let v = c >> 2; (v << 2) | (v >> 4) } else { c };
    Some(legacy_colors(s).iter().enumerate().map(|(i, c)| PalEntry { idx: i as u32, rgba: [sc(c[0]), sc(c[1]), sc(c[2]), 255], name: None }).collect())
}

pub fn ext_files_payload(files: &[(u32, String)]) -> Vec<u8> {
    let mut w = W::new();
    w.u32(files.len() as u32);
    w.zeros(8, 0);
    for (id, name) in files {
        w.u32(*id);
        w.zeros(8, 0);
        w.string(name);
    }
    w.0
}

pub fn tileset_payload(t: &TilesetM) -> Vec<u8> {
    let mut w = W::new();
    w.u32(t.id);
    w.u32(t.flags);
    w.u32(t.count);
    w.u16(t.tw);
    w.u16(t.th);
    w.i16(t.base);
    w.zeros(14, 0);
    w.string(&t.name);
    if t.flags & 1 != 0 {
        let e = t.external.unwrap_or((0, 0));
        w.u32(e.0);
        w.u32(e.1);
    }
    if t.flags & 2 != 0 {
        let z = zlib(&t.px, 6);
        w.u32(z.len() as u32);
        w.bytes(&z);
    }
    w.0
}

pub fn color_profile_payload(ty: u16, flags: u16) -> Vec<u8> {
    let mut w = W::new();
    w.u16(ty);
    w.u16(flags);
    w.u32(0);
    w.zeros(8, 0);
    w.0
}

pub fn header(s: &Sprite, o: &EncOpts, file_size: u32) -> Vec<u8> {
    let mut w = W::new();
    w.u32(file_size);
    w.u16(0xA5E0);
    w.u16(s.frames.len() as u16);
    w.u16(s.w);
    w.u16(s.h);
    w.u16(s.fmt.depth());
    w.u32(if o.junk != 0 { 0xFFFF_FFFF } else { 1 });
    w.u16(s.speed);
    w.u32(0);
    w.u32(0);
    w.u8(match s.fmt {
        Fmt::Indexed(t) => t,
        _ => o.junk,
    });
    w.zeros(3, o.junk);
    w.u16(s.palette.as_ref().map_or(0, |p| p.len() as u16));
    w.u8(o.pixel_ratio.0);
    w.u8(o.pixel_ratio.1);
    w.i16(o.junk as i16);
    w.i16(-(o.junk as i16));
    w.u16(if o.junk != 0 { 0xFFFF } else { 16 });
    w.u16(if o.junk != 0 { 0xFFFF } else { 16 });
    w.zeros(84, o.junk);
    assert_eq!(w.0.len(), 128);
    w.0
}

fn perm<T>(v: &mut Vec<T>, seed: u64) {
    if seed == 0 || v.len() < 2 {
        return;
    }
    // Lehmer code of seed
    let mut s = seed;
    let n = v.len();
    for i in 0..n - 1 {
        let k = (s % (n - i) as u64) as usize;
        s /= (n - i) as u64;
        v.swap(i, i + k);
    }
}

/// The chunks of frame `fi` as (type, payload) in emission order.
pub fn frame_chunks(s: &Sprite, o: &EncOpts, fi: usize) -> Vec<(u16, Vec<u8>)> {
    let mut cs: Vec<(u16, Vec<u8>)> = Vec::new();
    if fi == 0 {
        if let Some(cp) = o.color_profile {
            cs.push((0x2007, color_profile_payload(cp, 0)));
        }
        if !s.ext_files.is_empty() {
            cs.push((0x2008, ext_files_payload(&s.ext_files)));
        }
        let lk = legacy_kind(s, o);
        let legacy = |cs: &mut Vec<(u16, Vec<u8>)>| {
            if lk != 0 {
                let cols = legacy_colors(s);
                cs.push((lk, legacy_palette_payload(lk, &cols)));
                if let Some(u) = &s.sprite_ud {
                    cs.push((0x2020, ud_payload(u)));
                }
            }
        };
        if o.legacy_first {
            legacy(&mut cs);
        }
        if o.new_palette {
            if let Some(p) = &s.palette {
                cs.push((0x2019, palette_payload(p)));
            }
        }
        if !o.legacy_first {
            legacy(&mut cs);
        }
        for t in &s.tilesets {
            cs.push((0x2023, tileset_payload(t)));
        }
        for l in &s.layers {
            cs.push((0x2004, layer_payload(l, o.junk)));
            if let Some(u) = &l.ud {
                cs.push((0x2020, ud_payload(u)));
            }
        }
        if !s.tags.is_empty() {
            cs.push((0x2018, tags_payload(&s.tags, o.junk)));
            // user data chunks follow for the successive tags; a tag without data gets an empty record
            // only if a later tag has one (records are positional)
            let last = s.tags.iter().rposition(|t| t.ud.is_some());
            if let Some(last) = last {
                for t in &s.tags[..=last] {
                    cs.push((0x2020, ud_payload(&t.ud.clone().unwrap_or_default())));
                }
            }
        }
    }
    let mut cels: Vec<&CelM> = s.frames[fi].cels.iter().collect();
    perm(&mut cels, o.cel_perm);
    for c in cels {
        cs.push((0x2005, cel_payload(c, o.junk)));
        if let Some(u) = &c.ud {
            cs.push((0x2020, ud_payload(u)));
        }
    }
    if fi == 0 {
        for sl in &s.slices {
            cs.push((0x2022, slice_payload(sl)));
            if let Some(u) = &sl.ud {
                cs.push((0x2020, ud_payload(u)));
            }
        }
    }
    // ignorable chunks
    if !o.ignorable_after.is_empty() {
        let mut out = Vec::new();
        for (i, c) in cs.into_iter().enumerate() {
            out.push(c);
            if o.ignorable_after.contains(&i) || o.ignorable_after.contains(&usize::MAX) {
                out.push((o.ignorable_kind, vec![0xAB; 20]));
            }
        }
        cs = out;
    }
    cs
}

pub fn frame_bytes(chunks: &[(u16, Vec<u8>)], duration: u16, o: &EncOpts) -> Vec<u8> {
    let mut body = Vec::new();
    for (ty, p) in chunks {
        body.extend_from_slice(&chunk(*ty, p, o.chunk_padding));
    }
    let n = chunks.len() as u32;
    let (old, new) = match o.count_field {
        CountField::New | CountField::Both => (if n >= 0xFFFF { 0xFFFF } else { n as u16 }, n),
        CountField::OldOnly => (n as u16, 0),
        // old = 0xFFFF means "use the new field"; with no chunks at all the new field would be 0 = "use the
        // old field", so an empty frame cannot be encoded this way
        CountField::NewOnlyOldFFFF => (if n == 0 { 0 } else { 0xFFFF }, n),
        CountField::NewOnlyOldZero => (0, n),
    };
    let mut w = W::new();
    w.u32(body.len() as u32 + 16 + o.frame_size_slack);
    w.u16(0xF1FA);
    w.u16(old);
    w.u16(duration);
    w.zeros(2, o.junk);
    w.u32(new);
    w.bytes(&body);
    w.0
}

/// Encode; also returns the byte offset of the end of the last frame.
pub fn encode_with(s: &Sprite, o: &EncOpts) -> (Vec<u8>, usize) {
    let mut frames = Vec::new();
    for fi in 0..s.frames.len() {
        let cs = frame_chunks(s, o, fi);
        frames.extend_from_slice(&frame_bytes(&cs, s.frames[fi].duration, o));
    }
    let total = 128 + frames.len();
    let mut out = header(s, o, total as u32);
    out.extend_from_slice(&frames);
    let end = out.len();
    for i in 0..o.trailing {
        out.push((i * 7 + 1) as u8);
    }
    (out, end)
}

pub fn encode(s: &Sprite) -> Vec<u8> {
    encode_with(s, &EncOpts::default()).0
}
