//! C03 / C17, executable part: the f64 kernels (outside both verifiers), the dispatch table
//! (Kani ICE, no `dyn` in Verus) and whole modes through the public rendering API.
use super::enc::*;
use super::gen::*;
use super::xutil::*;
use crate::blend;
use crate::layer::verif_overlay::decode_blend_mode;
use crate::verif_spec::aseprite_ref as r;
use crate::*;
use image::Rgba;

fn direct(mode: u16, b: Rgba<u8>, s: Rgba<u8>, o: u8) -> Rgba<u8> {
    match mode {
        0 => blend::normal(b, s, o),
        1 => blend::multiply(b, s, o),
        2 => blend::screen(b, s, o),
        3 => blend::overlay(b, s, o),
        4 => blend::darken(b, s, o),
        5 => blend::lighten(b, s, o),
        6 => blend::color_dodge(b, s, o),
        7 => blend::color_burn(b, s, o),
        8 => blend::hard_light(b, s, o),
        9 => blend::soft_light(b, s, o),
        10 => blend::difference(b, s, o),
        11 => blend::exclusion(b, s, o),
        12 => blend::hsl_hue(b, s, o),
        13 => blend::hsl_saturation(b, s, o),
        14 => blend::hsl_color(b, s, o),
        15 => blend::hsl_luminosity(b, s, o),
        16 => blend::addition(b, s, o),
        17 => blend::subtract(b, s, o),
        _ => blend::divide(b, s, o),
    }
}

fn boundary_colors() -> Vec<[u8; 4]> {
    let v = [0u8, 1, 63, 64, 127, 128, 129, 191, 254, 255];
    let mut out = Vec::new();
    for &a in &[0u8, 1, 127, 128, 254, 255] {
        for &x in &v {
            out.push([x, 255 - x, x / 2, a]);
            out.push([x, x, x, a]);
            out.push([255, x, 0, a]);
        }
    }
    out
}

#[test]
fn x_mode_table() {
    let mut st = Stats::new("x_mode_table", "19 modes x (180^2 boundary colour pairs x 6 opacities + seeded random triples): dispatch-table closure == blend function of that id == Aseprite reference");
    let cols = boundary_colors();
    let mut rng = Rng::new(seed() ^ 0x0301);
    let nrand = budget(20_000, 400_000);
    for mode in 0u16..19 {
        let m = decode_blend_mode(mode).ok().unwrap();
        let f = crate::file::verif_overlay::table(m);
        let mut check = |b: [u8; 4], s: [u8; 4], o: u8, st: &mut Stats| {
            let (b, s) = (Rgba(b), Rgba(s));
            let got = f(b, s, o);
            let want = r::blend(mode, b, s, o);
            st.case_bits(&(mode, b.0, s.0, o));
            if got != direct(mode, b, s, o) {
                st.fail(format!("dispatch table: mode id {} does not call its blend function at b={:?} s={:?} o={}", mode, b.0, s.0, o), None);
            }
            if got != want {
                st.fail(format!("mode {} b={:?} s={:?} o={}: got {:?}, Aseprite {:?}", mode, b.0, s.0, o, got.0, want.0), None);
            }
        };
        for b in &cols {
            for s in &cols {
                for &o in &[0u8, 1, 127, 128, 254, 255] {
                    check(*b, *s, o, &mut st);
                }
            }
        }
        for _ in 0..nrand {
            let v = rng.next();
            let w = rng.next();
            check([v as u8, (v >> 8) as u8, (v >> 16) as u8, (v >> 24) as u8], [w as u8, (w >> 8) as u8, (w >> 16) as u8, (w >> 24) as u8], (w >> 32) as u8, &mut st);
        }
    }
    st.sample("mode 13 (saturation) b=[81,81,163,129] s=[50,104,58,189] o=255".into());
    st.finish();
}

#[test]
fn x_soft_light() {
    let mut st = Stats::new("x_soft_light", "EXHAUSTIVE: blend_soft_light on all 65536 (backdrop channel, source channel) pairs vs the reference");
    for b in 0..256i32 {
        for s in 0..256i32 {
            st.case_bits(&(b, s));
            let got = blend::verif_overlay::soft_light_kernel(b, s);
            if got != r::blend_soft_light(b, s) || !(0..=255).contains(&got) {
                st.fail(format!("blend_soft_light({}, {}) = {}, Aseprite {}", b, s, got, r::blend_soft_light(b, s)), None);
            }
        }
    }
    st.sample("(64, 200)".into());
    st.finish();
}

#[test]
fn x_hsl_kernels() {
    let full = tier_thorough();
    let mut st = Stats::new("x_hsl_kernels", if full { "HSL baselines (hue, saturation, color, luminosity): ALL 2^24 source colours x 512 stratified backdrops vs the reference; packed channels checked in 0..=255 by the debug assertions" } else { "HSL baselines: 2^16 stratified source colours x 64 stratified backdrops (thorough: 2^24 x 512)" });
    let mut rng = Rng::new(seed() ^ 0x0302);
    let nb = if full { 512 } else { 64 };
    let mut backs: Vec<[u8; 4]> = vec![[0, 0, 0, 255], [255, 255, 255, 255], [81, 81, 163, 129], [10, 10, 10, 1], [255, 0, 0, 255], [0, 255, 0, 255], [0, 0, 255, 255], [128, 128, 127, 200]];
    while backs.len() < nb {
        let v = rng.next();
        backs.push([v as u8, (v >> 8) as u8, (v >> 16) as u8, 255]);
    }
    let step: u32 = if full { 1 } else { 256 };
    let mut src = 0u32;
    while src < (1 << 24) {
        // quick tier: stratify – perturb the low bits with the rng so that different seeds visit different colours
        let c = if full { src } else { src | (rng.next() as u32 & 0xff) };
        let s = Rgba([c as u8, (c >> 8) as u8, (c >> 16) as u8, 200]);
        for b in &backs {
            let bk = Rgba(*b);
            for mode in 12u16..=15 {
                st.case_bits(&(mode, *b, c));
                let got = blend::verif_overlay::hsl_baseline(mode, bk, s, 255);
                let want = r::normal(bk, r::baseline_src(mode, bk, s), 255i32);
                if got != want {
                    st.fail(format!("HSL mode {} baseline b={:?} s={:?}: got {:?}, Aseprite {:?}", mode, b, s.0, got.0, want.0), None);
                }
            }
        }
        src += step;
    }
    st.sample("source [50,104,58] over backdrop [81,81,163] (the README's saturation quirk)".into());
    st.finish();
}

#[test]
fn x_blend_public_api() {
    // two-layer sprites whose pixels enumerate inputs: canvas N x 1, backdrop layer (normal, opaque) + source layer
    let mut st = Stats::new("x_blend_public_api", "19 modes x seeded (backdrop, source, layer opacity, cel opacity) tuples reached through Frame::image on two-layer sprites");
    let per_mode = budget(2000, 60_000);
    let mut rng = Rng::new(seed() ^ 0x0303);
    let w = 500usize;
    for mode in 0u16..19 {
        let mut done = 0;
        while done < per_mode {
            let mut s = Sprite::new(w as u16, 1, Fmt::Rgba, 1);
            s.layers.push(LayerM::image("back"));
            let mut top = LayerM::image("top");
            top.blend = mode;
            top.opacity = rng.u8();
            s.layers.push(top);
            let cel_op = rng.u8();
            let mut bpx = Vec::with_capacity(w * 4);
            let mut spx = Vec::with_capacity(w * 4);
            for _ in 0..w {
                bpx.extend_from_slice(&[rng.u8(), rng.u8(), rng.u8(), rng.u8()]);
                spx.extend_from_slice(&[rng.u8(), rng.u8(), rng.u8(), rng.u8()]);
            }
            s.frames[0].cels.push(CelM { layer: 0, x: 0, y: 0, opacity: 255, kind: CelKind::Raw { w: w as u16, h: 1, px: bpx.clone() }, ud: None, zlib: None });
            s.frames[0].cels.push(CelM { layer: 1, x: 0, y: 0, opacity: cel_op, kind: CelKind::Raw { w: w as u16, h: 1, px: spx.clone() }, ud: None, zlib: None });
            let bytes = encode(&s);
            let f = match load(&bytes) {
                Ok(f) => f,
                Err(e) => {
                    st.fail(format!("two-layer sprite fails to load: {}", e), Some(&bytes));
                    break;
                }
            };
            let img = f.frame(0).image();
            let op = super::spec_img::round8(s.layers[1].opacity, cel_op);
            for i in 0..w {
                let b = Rgba([bpx[4 * i], bpx[4 * i + 1], bpx[4 * i + 2], bpx[4 * i + 3]]);
                let sp = Rgba([spx[4 * i], spx[4 * i + 1], spx[4 * i + 2], spx[4 * i + 3]]);
                st.case_bits(&(mode, b.0, sp.0, s.layers[1].opacity, cel_op));
                let canvas = r::normal(Rgba([0, 0, 0, 0]), b, 255i32);
                let want = r::blend(mode, canvas, sp, op);
                let got = *img.get_pixel(i as u32, 0);
                if got != want && !(got.0[3] == 0 && want.0[3] == 0) {
                    st.fail(format!("mode {} backdrop {:?} source {:?} layer opacity {} cel opacity {}: image {:?}, Aseprite {:?}", mode, b.0, sp.0, s.layers[1].opacity, cel_op, got.0, want.0), Some(&bytes));
                }
                // C17 laws through the public API
                let na = r::normal(canvas, sp, op as i32).0[3];
                if got.0[3] != na {
                    st.fail(format!("mode {}: result alpha {} != Normal-mode alpha {}", mode, got.0[3], na), Some(&bytes));
                }
            }
            done += w;
        }
    }
    st.sample("mode 7 (color burn), layer opacity 128, cel opacity 254".into());
    st.finish();
}
