//! Generators of well-formed sprite models (bounded, seeded).
#![allow(dead_code)]
use super::enc::*;

#[derive(Clone)]
pub struct Rng(pub u64);
impl Rng {
    pub fn new(seed: u64) -> Rng {
        Rng(seed.wrapping_mul(0x9E3779B97F4A7C15) ^ 0xD1B54A32D192ED03)
    }
    pub fn next(&mut self) -> u64 {
        // xorshift64*
        let mut x = self.0;
        if x == 0 {
            x = 0x2545F4914F6CDD1D;
        }
        x ^= x >> 12;
        x ^= x << 25;
        x ^= x >> 27;
        self.0 = x;
        x.wrapping_mul(0x2545F4914F6CDD1D)
    }
    pub fn below(&mut self, n: u64) -> u64 {
        if n == 0 {
            0
        } else {
            self.next() % n
        }
    }
    pub fn range(&mut self, lo: i64, hi: i64) -> i64 {
        lo + self.below((hi - lo + 1) as u64) as i64
    }
    pub fn chance(&mut self, num: u64, den: u64) -> bool {
        self.below(den) < num
    }
    pub fn pick<'a, T>(&mut self, v: &'a [T]) -> &'a T {
        &v[self.below(v.len() as u64) as usize]
    }
    pub fn u8(&mut self) -> u8 {
        // boundary-biased
        match self.below(8) {
            0 => 0,
            1 => 255,
            2 => 1,
            3 => 254,
            4 => 128,
            5 => 127,
            _ => self.next() as u8,
        }
    }
}

pub const NAMES: &[&str] = &["", "a", "Layer 1", "bg", "\u{e9}t\u{e9}", "\u{65e5}\u{672c}", "\u{1F600}", "dup", "dup", "x y z"];

pub fn rand_ud(r: &mut Rng) -> Option<UD> {
    match r.below(5) {
        0 => Some(UD { text: Some(r.pick(NAMES).to_string()), color: None }),
        1 => Some(UD { text: None, color: Some([r.u8(), r.u8(), r.u8(), r.u8()]) }),
        2 => Some(UD { text: Some(r.pick(NAMES).to_string()), color: Some([r.u8(), r.u8(), r.u8(), r.u8()]) }),
        3 => Some(UD { text: None, color: None }),
        _ => None,
    }
}

pub fn rand_fmt(r: &mut Rng) -> Fmt {
    match r.below(3) {
        0 => Fmt::Rgba,
        1 => Fmt::Gray,
        _ => Fmt::Indexed(r.below(8) as u8),
    }
}

pub fn rand_pixels(r: &mut Rng, s: &Sprite, n: usize) -> Vec<u8> {
    let mut v = Vec::with_capacity(n * s.fmt.bpp());
    for _ in 0..n {
        match s.fmt {
            Fmt::Rgba => {
                v.extend_from_slice(&[r.u8(), r.u8(), r.u8(), r.u8()]);
            }
            Fmt::Gray => {
                v.extend_from_slice(&[r.u8(), r.u8()]);
            }
            Fmt::Indexed(_) => {
                let p = s.palette.as_ref().unwrap();
                v.push(p[r.below(p.len() as u64) as usize].idx as u8);
            }
        }
    }
    v
}

pub const OFFS: &[i16] = &[-32768, -300, -2, -1, 0, 0, 1, 2, 3, 300, 32767];

pub struct GenOpts {
    pub max_layers: usize,
    pub max_frames: usize,
    pub max_dim: u16,
    pub tilemaps: bool,
    pub groups: bool,
    pub extras: bool, // tags, slices, external files, user data
    pub modes: bool,  // non-normal blend modes
}
impl Default for GenOpts {
    fn default() -> Self {
        GenOpts { max_layers: 4, max_frames: 3, max_dim: 6, tilemaps: true, groups: true, extras: true, modes: true }
    }
}

pub fn rand_sprite(r: &mut Rng, g: &GenOpts) -> Sprite {
    let w = r.range(1, g.max_dim as i64) as u16;
    let h = r.range(1, g.max_dim as i64) as u16;
    let nframes = r.range(1, g.max_frames as i64) as usize;
    let mut s = Sprite::new(w, h, rand_fmt(r), nframes);
    s.speed = r.next() as u16;
    for f in s.frames.iter_mut() {
        f.duration = *r.pick(&[0u16, 1, 100, 65535, 250]);
    }
    if let Fmt::Indexed(_) = s.fmt {
        // contiguous palette (possibly not starting at 0 => sparse), entries with alpha < 255, optional names
        let first = *r.pick(&[0u32, 0, 0, 1, 3]);
        let n = r.range(2, 9) as u32;
        let mut p = Vec::new();
        for i in 0..n {
            p.push(PalEntry {
                idx: first + i,
                rgba: [r.u8(), r.u8(), r.u8(), *r.pick(&[255u8, 255, 255, 128, 0, 1])],
                name: if g.extras && r.chance(1, 4) { Some(r.pick(NAMES).to_string()) } else { None },
            });
        }
        s.palette = Some(p);
    } else if r.chance(1, 2) {
        s.palette = Some(Sprite::gray_palette(r.range(1, 5) as u32));
    }
    // tilesets
    let bpp = s.fmt.bpp();
    if g.tilemaps && r.chance(1, 2) {
        let nts = r.range(1, 2) as u32;
        for k in 0..nts {
            let tw = *r.pick(&[1u16, 2, 3, 4]);
            let th = *r.pick(&[1u16, 2, 3, 5]);
            let count = r.range(1, 4) as u32;
            let mut t = TilesetM {
                id: k * 3 + *r.pick(&[0u32, 1, 7]),
                flags: 2 | if r.chance(1, 2) { 4 } else { 0 },
                count,
                tw,
                th,
                base: *r.pick(&[1i16, 0, -1, 32767, -32768]),
                name: r.pick(NAMES).to_string(),
                external: None,
                px: vec![],
            };
            if s.tilesets.iter().any(|x| x.id == t.id) {
                t.id += 100;
            }
            let n = count as usize * tw as usize * th as usize;
            t.px = rand_pixels(r, &s, n);
            // tile 0 is the empty tile: make it transparent where the format allows
            for i in 0..(tw as usize * th as usize) {
                match s.fmt {
                    Fmt::Rgba => t.px[4 * i + 3] = 0,
                    Fmt::Gray => t.px[2 * i + 1] = 0,
                    Fmt::Indexed(_) => {}
                }
            }
            let _ = bpp;
            s.tilesets.push(t);
        }
    }
    // layers: a forest
    let nl = r.range(1, g.max_layers as i64) as usize;
    let mut level = 0u16;
    for i in 0..nl {
        let nm: &str = *r.pick(NAMES);
        let mut l = LayerM::image(nm);
        l.flags = (r.next() as u16) & 0x7f;
        if r.chance(3, 4) {
            l.flags |= 1;
        }
        if i > 0 {
            l.flags &= !8; // only the first layer may be background
        }
        let prev_is_group = i > 0 && s.layers[i - 1].ty == 1;
        if i == 0 {
            level = 0;
        } else {
            let max = if prev_is_group { s.layers[i - 1].level + 1 } else { s.layers[i - 1].level };
            level = r.range(0, max as i64) as u16;
        }
        l.level = level;
        l.opacity = r.u8();
        l.blend = if g.modes && r.chance(1, 2) { r.below(19) as u16 } else { 0 };
        if g.groups && i + 1 < nl && r.chance(1, 4) {
            l.ty = 1;
        } else if !s.tilesets.is_empty() && r.chance(1, 3) {
            l.ty = 2;
            l.tileset = s.tilesets[r.below(s.tilesets.len() as u64) as usize].id;
            l.flags &= !8;
        }
        if g.extras {
            l.ud = rand_ud(r);
        }
        s.layers.push(l);
    }
    // cels
    for f in 0..nframes {
        for l in 0..nl {
            if s.layers[l].ty == 1 || r.chance(1, 4) {
                continue;
            }
            let x = *r.pick(OFFS);
            let y = *r.pick(OFFS);
            let x = if r.chance(2, 3) { r.range(-(w as i64), w as i64) as i16 } else { x };
            let y = if r.chance(2, 3) { r.range(-(h as i64), h as i64) as i16 } else { y };
            let opacity = r.u8();
            let ud = if g.extras { rand_ud(r) } else { None };
            let zl = match r.below(4) {
                0 => None,
                1 => Some(0),
                2 => Some(6),
                _ => Some(9),
            };
            let kind = if s.layers[l].ty == 2 {
                let ts = s.tilesets.iter().find(|t| t.id == s.layers[l].tileset).unwrap();
                let tw = r.range(1, 3) as u16;
                let th = r.range(1, 3) as u16;
                let tiles = (0..tw as usize * th as usize).map(|_| r.below(ts.count as u64) as u32).collect();
                CelKind::Tilemap { w: tw, h: th, tiles }
            } else {
                // link to an earlier raw cel of the same layer sometimes
                let target = (0..f).find(|&t| matches!(find_kind(&s, t, l), Some(CelKind::Raw { .. })));
                if let (Some(t), true) = (target, r.chance(1, 4)) {
                    CelKind::Linked(t as u16)
                } else {
                    let cw = r.range(1, 4) as u16;
                    let ch = r.range(1, 4) as u16;
                    CelKind::Raw { w: cw, h: ch, px: rand_pixels(r, &s, cw as usize * ch as usize) }
                }
            };
            // tilemap cels sit at tile-aligned offsets
            let (x, y) = if let CelKind::Tilemap { .. } = kind {
                let ts = s.tilesets.iter().find(|t| t.id == s.layers[l].tileset).unwrap();
                (((x as i32 / 8).clamp(-3, 3) * ts.tw as i32) as i16, ((y as i32 / 8).clamp(-3, 3) * ts.th as i32) as i16)
            } else {
                (x, y)
            };
            s.frames[f].cels.push(CelM { layer: l as u16, x, y, opacity, kind, ud, zlib: zl });
        }
    }
    if g.extras {
        let nt = r.below(4) as usize;
        for _ in 0..nt {
            s.tags.push(TagM {
                from: r.next() as u16,
                to: r.next() as u16,
                dir: r.below(3) as u8,
                repeat: *r.pick(&[0u16, 1, 2, 65535]),
                name: r.pick(NAMES).to_string(),
                ud: rand_ud(r),
            });
        }
        let ns = r.below(3) as usize;
        for _ in 0..ns {
            let nine = r.chance(1, 2);
            let piv = r.chance(1, 2);
            let nk = r.below(3) as usize;
            let ext = |r: &mut Rng| *r.pick(&[0i32, 1, -1, i32::MAX, i32::MIN, 17]);
            let extu = |r: &mut Rng| *r.pick(&[0u32, 1, u32::MAX, 0x8000_0000, 9]);
            let keys = (0..nk)
                .map(|_| SliceKeyM {
                    frame: extu(r),
                    x: ext(r),
                    y: ext(r),
                    w: extu(r),
                    h: extu(r),
                    nine: if nine { Some((ext(r), ext(r), extu(r), extu(r))) } else { None },
                    pivot: if piv { Some((ext(r), ext(r))) } else { None },
                })
                .collect();
            s.slices.push(SliceM { name: r.pick(NAMES).to_string(), keys, ud: rand_ud(r) });
        }
        let ne = r.below(3) as u32;
        for i in 0..ne {
            s.ext_files.push((i * 5 + r.below(3) as u32, r.pick(NAMES).to_string()));
        }
        if r.chance(1, 3) {
            s.sprite_ud = rand_ud(r);
        }
    }
    s
}

fn find_kind(s: &Sprite, f: usize, l: usize) -> Option<CelKind> {
    s.frames[f].cels.iter().find(|c| c.layer as usize == l).map(|c| c.kind.clone())
}

/// A deterministic small corpus that covers each feature at least once.
pub fn corpus(seed: u64, n: usize, g: &GenOpts) -> Vec<Sprite> {
    let mut r = Rng::new(seed ^ 0xC0FFEE);
    (0..n).map(|_| rand_sprite(&mut r, g)).collect()
}
