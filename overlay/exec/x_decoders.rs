//! The decoder CONTRACT CHECKERS of overlay/kani/*.rs (postcondition vs. the file-format layout),
//! executed natively on generated payloads. Stand-in for the payload shapes that are too expensive for
//! CBMC (Vec<struct with String>, hashbrown tables): same postconditions, bounded family of inputs.
use super::enc::*;
use super::gen::*;
use super::xutil::*;
use crate::*;

fn mutate(r: &mut Rng, base: &[u8], out: &mut Vec<Vec<u8>>) {
    out.push(base.to_vec());
    // truncations and extensions
    for cut in 0..base.len().min(80) {
        out.push(base[..cut].to_vec());
    }
    for extra in [1usize, 3, 9] {
        let mut b = base.to_vec();
        for _ in 0..extra {
            b.push(r.next() as u8);
        }
        out.push(b);
    }
    // boundary values in every 1/2/4-byte window of the first 96 bytes
    let vals: [u64; 9] = [0, 1, 2, 0x7f, 0x80, 0xff, 0x7fff, 0xffff, 0xffff_ffff];
    for off in 0..base.len().min(96) {
        for &w in &[1usize, 2, 4] {
            if off + w > base.len() {
                continue;
            }
            for &v in &vals {
                if w < 8 && v >= 1u64 << (8 * w) {
                    continue;
                }
                let mut b = base.to_vec();
                b[off..off + w].copy_from_slice(&v.to_le_bytes()[..w]);
                out.push(b);
            }
        }
    }
    for _ in 0..40 {
        let mut b = base.to_vec();
        if b.is_empty() {
            break;
        }
        for _ in 0..(1 + r.below(3)) {
            let i = r.below(b.len() as u64) as usize;
            b[i] = r.next() as u8;
        }
        out.push(b);
    }
}

fn run_checker(st: &mut Stats, what: &str, payloads: Vec<Vec<u8>>, f: &dyn Fn(&[u8]) -> bool) {
    let mut ok = 0u64;
    for p in payloads {
        let res = std::panic::catch_unwind(std::panic::AssertUnwindSafe(|| f(&p)));
        st.case(&(what.as_bytes().to_vec(), p.clone()), true);
        match res {
            Ok(true) => ok += 1,
            Ok(false) => {}
            Err(e) => {
                let msg = e.downcast_ref::<String>().cloned().or_else(|| e.downcast_ref::<&str>().map(|s| s.to_string())).unwrap_or_default();
                st.fail(format!("{} decoder contract violated: {} (payload {} bytes: {:02x?})", what, msg, p.len(), &p[..p.len().min(48)]), None);
            }
        }
    }
    if ok == 0 {
        st.fail(format!("{}: no generated payload decodes (vacuous)", what), None);
    }
}

#[test]
fn x_decoder_contracts() {
    let mut st = Stats::new("x_decoder_contracts", "the Kani postcondition checkers (decoder result vs file-format layout, field by field) executed natively on seeded well-formed payloads of every chunk kind + every truncation (<= 80), extensions, boundary values in every 1/2/4-byte window of the first 96 bytes, random byte edits");
    let prev = std::panic::take_hook();
    std::panic::set_hook(Box::new(|_| {}));
    let mut r = Rng::new(seed() ^ 0x0c01);
    let n = budget(25, 250);
    let g = GenOpts { max_layers: 4, ..GenOpts::default() };
    for _ in 0..n {
        let s = rand_sprite(&mut r, &g);
        let mut pl: Vec<Vec<u8>> = Vec::new();
        for l in &s.layers {
            let junk = r.next() as u8;
            mutate(&mut r, &layer_payload(l, junk), &mut pl);
        }
        run_checker(&mut st, "layer", std::mem::take(&mut pl), &|d| crate::layer::verif_overlay::check_layer_chunk(d));
        if !s.tags.is_empty() {
            mutate(&mut r, &tags_payload(&s.tags, 0), &mut pl);
            run_checker(&mut st, "tags", std::mem::take(&mut pl), &|d| crate::tags::verif_overlay::check_tags_chunk(d));
        }
        for sl in &s.slices {
            mutate(&mut r, &slice_payload(sl), &mut pl);
        }
        if !pl.is_empty() {
            run_checker(&mut st, "slice", std::mem::take(&mut pl), &|d| crate::slice::verif_overlay::check_slice_chunk(d));
        }
        if let Some(p) = &s.palette {
            let p: Vec<PalEntry> = p.iter().take(12).cloned().collect();
            mutate(&mut r, &palette_payload(&p), &mut pl);
            run_checker(&mut st, "palette", std::mem::take(&mut pl), &|d| crate::palette::verif_overlay::check_palette_chunk(d, 16));
            let cols: Vec<[u8; 3]> = p.iter().take(8).map(|e| [e.rgba[0], e.rgba[1], e.rgba[2]]).collect();
            mutate(&mut r, &legacy_palette_payload(4, &cols), &mut pl);
            run_checker(&mut st, "legacy palette 0x0004", std::mem::take(&mut pl), &|d| crate::palette::verif_overlay::check_old_chunk(d, false));
            mutate(&mut r, &legacy_palette_payload(0x11, &cols), &mut pl);
            // keep the mutants whose packets stay small (the checker's table holds 40 entries)
            let small: Vec<Vec<u8>> = pl.drain(..).filter(|d| d.len() < 4 || (d[3] != 0 && (d[3] as usize) <= 12 && (d.len() < 2 || u16::from_le_bytes([d[0], d[1]]) <= 2))).collect();
            run_checker(&mut st, "legacy palette 0x0011", small, &|d| crate::palette::verif_overlay::check_old_chunk(d, true));
        }
        if !s.ext_files.is_empty() {
            mutate(&mut r, &ext_files_payload(&s.ext_files), &mut pl);
            run_checker(&mut st, "external files", std::mem::take(&mut pl), &|d| crate::external_file::verif_overlay::check_ext_chunk(d));
        }
        for t in &s.tilesets {
            let mut t2 = t.clone();
            t2.flags &= !2;
            if r.chance(1, 2) {
                t2.flags |= 1;
                t2.external = Some((r.next() as u32, r.next() as u32));
            }
            mutate(&mut r, &tileset_payload(&t2), &mut pl);
        }
        if !pl.is_empty() {
            // the checker covers the header part (FILE_INCLUDES_TILES clear)
            let hdr: Vec<Vec<u8>> = pl.drain(..).filter(|d| d.len() < 5 || d[4] & 2 == 0).collect();
            run_checker(&mut st, "tileset header", hdr, &|d| crate::tileset::verif_overlay::check_tileset_head(d));
        }
        for u in [rand_ud(&mut r), rand_ud(&mut r)].into_iter().flatten() {
            mutate(&mut r, &ud_payload(&u), &mut pl);
        }
        if !pl.is_empty() {
            run_checker(&mut st, "user data", std::mem::take(&mut pl), &|d| crate::user_data::verif_overlay::check_user_data(d));
        }
        let ty = r.below(2) as u16;
        mutate(&mut r, &color_profile_payload(ty, 0), &mut pl);
        run_checker(&mut st, "colour profile", std::mem::take(&mut pl), &|d| crate::color_profile::verif_overlay::check_color_profile(d));
        // linked cels and unknown cel types (header contract)
        let c = CelM { layer: r.next() as u16, x: r.next() as i16, y: r.next() as i16, opacity: r.u8(), kind: CelKind::Linked(r.next() as u16), ud: None, zlib: None };
        mutate(&mut r, &cel_payload(&c, 0), &mut pl);
        let hdr: Vec<Vec<u8>> = pl.drain(..).filter(|d| d.len() < 9 || { let t = u16::from_le_bytes([d[7], d[8]]); t == 1 || t >= 4 }).collect();
        run_checker(&mut st, "cel header", hdr, &|d| crate::cel::verif_overlay::check_cel_chunk_small(d, PixelFormat::Rgba));
    }
    std::panic::set_hook(prev);
    st.sample("tags payload with 3 tags, byte 27..29 (first name length) set to 0xffff".into());
    st.finish();
}
