//! Shared SPEC functions (pure Rust oracles) for the contract harnesses. Compiled only under
//! cfg(kani) or cfg(asefile_verif); never part of a normal build of the crate.
#![allow(dead_code, unused_imports)]
pub mod aseprite_ref;
#[macro_use]
pub mod src;
pub mod fmt;

/// Kani stubs shared by all harnesses.
#[cfg(kani)]
pub mod stubs {
    /// Error-message formatting dominates CBMC cost and message text is not part of any property.
    pub fn format_stub(_args: core::fmt::Arguments<'_>) -> String {
        String::new()
    }
}

/// Concretise a little-endian u16 field of a symbolic payload (string lengths: a symbolic-length
/// allocation + copy is what makes CBMC intractable; see DESIGN.md section 3).
pub fn pin16(d: &mut [u8], off: usize, v: u16) {
    if off + 1 < d.len() {
        d[off] = (v & 0xff) as u8;
        d[off + 1] = (v >> 8) as u8;
    }
}
