//! Shared SPEC functions (pure Rust oracles) for the contract harnesses. Compiled only under
//! cfg(kani) or cfg(asefile_verif); never part of a normal build of the crate.
#![allow(dead_code, unused_imports)]
pub mod aseprite_ref;
#[macro_use]
pub mod src;
pub mod fmt;

/// Kani stubs shared by all harnesses.
#[cfg(kani)]
pub mod stubs {
    /// Error-message formatting dominates CBMC cost and message text is not part of any property.
    pub fn format_stub(_args: core::fmt::Arguments<'_>) -> String {
        String::new()
    }
}

/// ColorPaletteEntry has private fields; palette.rs's overlay exposes a constructor for sibling overlays.
pub fn mk_entry(id: u32, rgba: [u8; 4]) -> crate::palette::ColorPaletteEntry {
    crate::palette::verif_overlay::mk_entry(id, rgba)
}
