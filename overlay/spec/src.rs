//! Input source abstraction: the same harness body runs under Kani (`kani::any()`) and natively on
//! the byte vectors that Kani's concrete playback printed (replay against the real code).
#![allow(dead_code)]

pub trait Src {
    fn u8(&mut self) -> u8;
    fn bool(&mut self) -> bool;
    fn u16(&mut self) -> u16;
    fn i16(&mut self) -> i16 {
        self.u16() as i16
    }
    fn u32(&mut self) -> u32;
    fn i32(&mut self) -> i32 {
        self.u32() as i32
    }
    fn i64(&mut self) -> i64;
    fn usize(&mut self) -> usize;
    /// restrict the inputs (precondition)
    fn assume(&mut self, c: bool);
    fn bytes<const N: usize>(&mut self) -> [u8; N] {
        let mut a = [0u8; N];
        for x in a.iter_mut() {
            *x = self.u8();
        }
        a
    }
    fn rgba(&mut self) -> image::Rgba<u8> {
        image::Rgba([self.u8(), self.u8(), self.u8(), self.u8()])
    }
}

#[cfg(kani)]
pub struct KaniSrc;

#[cfg(kani)]
impl Src for KaniSrc {
    fn u8(&mut self) -> u8 {
        kani::any()
    }
    fn bool(&mut self) -> bool {
        kani::any()
    }
    fn u16(&mut self) -> u16 {
        kani::any()
    }
    fn u32(&mut self) -> u32 {
        kani::any()
    }
    fn i64(&mut self) -> i64 {
        kani::any()
    }
    fn usize(&mut self) -> usize {
        kani::any()
    }
    fn assume(&mut self, c: bool) {
        kani::assume(c)
    }
    fn bytes<const N: usize>(&mut self) -> [u8; N] {
        kani::any()
    }
}

/// Replays the little-endian byte vectors printed by `--concrete-playback=print`, one per draw.
pub struct VecSrc {
    pub draws: Vec<Vec<u8>>,
    pub pos: usize,
}

impl VecSrc {
    pub fn from_env() -> Option<VecSrc> {
        let s = std::env::var("VERIF_REPLAY_DRAWS").ok()?;
        // format: "1,2;3;4,5,6,7" – draws separated by ';', bytes by ','
        let draws = s
            .split(';')
            .filter(|d| !d.is_empty())
            .map(|d| d.split(',').filter(|b| !b.is_empty()).map(|b| b.trim().parse::<u8>().unwrap()).collect())
            .collect();
        Some(VecSrc { draws, pos: 0 })
    }
    fn next(&mut self, n: usize) -> u64 {
        let d = self.draws.get(self.pos).cloned().unwrap_or_else(|| vec![0; n]);
        self.pos += 1;
        let mut v = 0u64;
        for (i, b) in d.iter().enumerate().take(8) {
            v |= (*b as u64) << (8 * i);
        }
        v
    }
}

impl Src for VecSrc {
    fn u8(&mut self) -> u8 {
        self.next(1) as u8
    }
    fn bool(&mut self) -> bool {
        self.next(1) & 1 != 0
    }
    fn u16(&mut self) -> u16 {
        self.next(2) as u16
    }
    fn u32(&mut self) -> u32 {
        self.next(4) as u32
    }
    fn i64(&mut self) -> i64 {
        self.next(8) as i64
    }
    fn usize(&mut self) -> usize {
        self.next(8) as usize
    }
    fn bytes<const N: usize>(&mut self) -> [u8; N] {
        // Kani prints a whole array as one draw
        let d = self.draws.get(self.pos).cloned().unwrap_or_default();
        self.pos += 1;
        let mut a = [0u8; N];
        for (i, b) in d.iter().enumerate().take(N) {
            a[i] = *b;
        }
        a
    }
    fn assume(&mut self, c: bool) {
        if !c {
            panic!("REPLAY-INVALID: an assumption of the harness does not hold for the replayed draws");
        }
    }
}

/// Declares a harness `name` whose body draws its inputs from `$s: &mut impl Src`.
/// Under Kani it becomes a `#[kani::proof]` (with the extra attributes given); natively (cfg
/// asefile_verif + test) it becomes `#[test] fn replay_<name>` that runs only when
/// VERIF_REPLAY_HARNESS names it.
#[macro_export]
macro_rules! verif_harness {
    ($(#[$attr:meta])* fn $name:ident($s:ident) $body:block) => {
        #[allow(unused_mut, unused_variables)]
        pub(crate) fn $name<S: $crate::verif_spec::src::Src>($s: &mut S) $body

        #[cfg(kani)]
        mod $name {
            #[allow(unused_imports)]
            use super::*;
            #[kani::proof]
            $(#[$attr])*
            pub fn k() {
                super::$name(&mut $crate::verif_spec::src::KaniSrc);
            }
        }

        #[cfg(all(asefile_verif, test))]
        mod $name {
            #[test]
            fn replay() {
                if std::env::var("VERIF_REPLAY_HARNESS").ok().as_deref() != Some(concat!(module_path!())) {
                    return;
                }
                let mut s = $crate::verif_spec::src::VecSrc::from_env().expect("VERIF_REPLAY_DRAWS");
                super::$name(&mut s);
                println!("REPLAY-PASSED {}", module_path!());
            }
        }
    };
}

/// Reachability witness (vacuity guard): one Kani cover property per call site; nothing natively.
#[macro_export]
macro_rules! vcover {
    ($c:expr, $what:expr) => {
        #[cfg(kani)]
        kani::cover!($c, $what);
    };
}
