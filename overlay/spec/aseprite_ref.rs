//! C-semantics transcription of Aseprite's `src/doc/blend_funcs.cpp` (the oracle for C03/C17).
//!
//! `MUL_UN8`, `rgba_blender_merge`, `rgba_blender_normal`, `rgba_blender_multiply`, the
//! `RGBA_BLENDER_N` wrapper and `lum/sat/clip_color/set_lum/set_sat` are verbatim in
//! `/repo/ref/dummy.cc` / `ref/set_sat_tests.cc`; the other channel macros are transcribed from the
//! excerpts quoted in `src/blend.rs` comments and from the upstream file.  C `int` is `i32`,
//! `uint32_t` arguments of the inline channel functions are `u32`, `rgba()` truncates each
//! component to `uint8_t`.  TRUSTED: fidelity of this transcription (cross-checked against the 20
//! Aseprite-exported PNGs by the repository's own tests and by Engine X).
#![allow(dead_code)]
use image::Rgba;

pub type C = Rgba<u8>;

#[inline]
pub fn rgba(r: i32, g: i32, b: i32, a: i32) -> C {
    // inline uint32_t rgba(uint8_t r, uint8_t g, uint8_t b, uint8_t a)
    Rgba([r as u8, g as u8, b as u8, a as u8])
}

/// `#define MUL_UN8(a, b, t) ((t) = (a) * (uint16_t)(b) + ONE_HALF, ((((t) >> 8) + (t)) >> 8))`
#[inline]
pub fn mul_un8(a: i32, b: i32) -> i32 {
    let t: i32 = a.wrapping_mul((b as u16) as i32).wrapping_add(0x80);
    (t >> 8).wrapping_add(t) >> 8
}

/// Mathematical meaning of MUL_UN8 on 0..=255 x 0..=255: a*b/255 rounded to nearest.
#[inline]
pub fn round8(a: i32, b: i32) -> i32 {
    (2 * a * b + 255) / 510
}

/// `#define DIV_UN8(a, b) (((uint16_t) (a) * 0xff + ((b) / 2)) / (b))`
#[inline]
pub fn div_un8(a: i32, b: i32) -> i32 {
    (((a as u16) as i32) * 0xff + (b / 2)) / b
}

pub fn merge(backdrop: C, src: C, opacity: i32) -> C {
    let [br, bg, bb, ba] = backdrop.0.map(|x| x as i32);
    let [sr, sg, sb, sa] = src.0.map(|x| x as i32);
    let (mut rr, mut rg, mut rb);
    if ba == 0 {
        rr = sr;
        rg = sg;
        rb = sb;
    } else if sa == 0 {
        rr = br;
        rg = bg;
        rb = bb;
    } else {
        rr = br + mul_un8(sr - br, opacity);
        rg = bg + mul_un8(sg - bg, opacity);
        rb = bb + mul_un8(sb - bb, opacity);
    }
    let ra = ba + mul_un8(sa - ba, opacity);
    if ra == 0 {
        rr = 0;
        rg = 0;
        rb = 0;
    }
    rgba(rr, rg, rb, ra)
}

pub fn normal(backdrop: C, src: C, opacity: i32) -> C {
    if backdrop.0[3] == 0 {
        let a = mul_un8(src.0[3] as i32, opacity);
        return Rgba([src.0[0], src.0[1], src.0[2], a as u8]);
    } else if src.0[3] == 0 {
        return backdrop;
    }
    let [br, bg, bb, ba] = backdrop.0.map(|x| x as i32);
    let [sr, sg, sb, sa0] = src.0.map(|x| x as i32);
    let sa = mul_un8(sa0, opacity);
    let ra = sa + ba - mul_un8(ba, sa);
    let rr = br + (sr - br) * sa / ra;
    let rg = bg + (sg - bg) * sa / ra;
    let rb = bb + (sb - bb) * sa / ra;
    rgba(rr, rg, rb, ra)
}

/// alpha of rgba_blender_normal as a function of (Ba, Sa, opacity) only
pub fn normal_alpha(ba: i32, sa: i32, opacity: i32) -> i32 {
    if ba == 0 {
        mul_un8(sa, opacity)
    } else if sa == 0 {
        ba
    } else {
        let s = mul_un8(sa, opacity);
        s + ba - mul_un8(ba, s)
    }
}

// ---- channel macros -------------------------------------------------------------------------
pub fn blend_multiply(b: i32, s: i32) -> i32 {
    mul_un8(b, s)
}
pub fn blend_screen(b: i32, s: i32) -> i32 {
    b + s - mul_un8(b, s)
}
pub fn blend_hard_light(b: i32, s: i32) -> i32 {
    if s < 128 {
        blend_multiply(b, s << 1)
    } else {
        blend_screen(b, (s << 1) - 255)
    }
}
pub fn blend_overlay(b: i32, s: i32) -> i32 {
    blend_hard_light(s, b)
}
pub fn blend_darken(b: i32, s: i32) -> i32 {
    if b < s { b } else { s }
}
pub fn blend_lighten(b: i32, s: i32) -> i32 {
    if b > s { b } else { s }
}
pub fn blend_difference(b: i32, s: i32) -> i32 {
    let d = b - s;
    if d < 0 { -d } else { d }
}
pub fn blend_exclusion(b: i32, s: i32) -> i32 {
    let t = mul_un8(b, s);
    b + s - 2 * t
}
pub fn blend_divide(b: i32, s: i32) -> i32 {
    if b == 0 {
        0
    } else if b >= s {
        255
    } else {
        div_un8(b, s)
    }
}
pub fn blend_color_dodge(b: i32, s: i32) -> i32 {
    if b == 0 {
        return 0;
    }
    let s = 255 - s;
    if b >= s {
        255
    } else {
        div_un8(b, s)
    }
}
pub fn blend_color_burn(b: i32, s: i32) -> i32 {
    if b == 255 {
        return 255;
    }
    let b = 255 - b;
    if b >= s {
        0
    } else {
        255 - div_un8(b, s)
    }
}
pub fn blend_soft_light(b_: i32, s_: i32) -> i32 {
    let b: f64 = b_ as f64 / 255.0;
    let s: f64 = s_ as f64 / 255.0;
    let d = if b <= 0.25 { ((16.0 * b - 12.0) * b + 4.0) * b } else { b.sqrt() };
    let r = if s <= 0.5 { b - (1.0 - 2.0 * s) * b * (1.0 - b) } else { b + (2.0 * s - 1.0) * (d - b) };
    (r * 255.0 + 0.5) as u32 as i32
}

/// The integer channel function of a separable mode (None for non-separable / whole-pixel modes).
pub fn channel_fn(mode: u16) -> Option<fn(i32, i32) -> i32> {
    Some(match mode {
        1 => blend_multiply,
        2 => blend_screen,
        3 => blend_overlay,
        4 => blend_darken,
        5 => blend_lighten,
        6 => blend_color_dodge,
        7 => blend_color_burn,
        8 => blend_hard_light,
        9 => blend_soft_light,
        10 => blend_difference,
        11 => blend_exclusion,
        18 => blend_divide,
        _ => return None,
    })
}

// ---- HSL helpers (double) ---------------------------------------------------------------------
pub fn lum(r: f64, g: f64, b: f64) -> f64 {
    0.3 * r + 0.59 * g + 0.11 * b
}
fn maxd(a: f64, b: f64) -> f64 {
    if a > b { a } else { b }
}
fn mind(a: f64, b: f64) -> f64 {
    if a < b { a } else { b }
}
pub fn sat(r: f64, g: f64, b: f64) -> f64 {
    maxd(r, maxd(g, b)) - mind(r, mind(g, b))
}
pub fn clip_color(c: &mut [f64; 3]) {
    let l = lum(c[0], c[1], c[2]);
    let n = mind(c[0], mind(c[1], c[2]));
    let x = maxd(c[0], maxd(c[1], c[2]));
    if n < 0.0 {
        c[0] = l + (((c[0] - l) * l) / (l - n));
        c[1] = l + (((c[1] - l) * l) / (l - n));
        c[2] = l + (((c[2] - l) * l) / (l - n));
    }
    if x > 1.0 {
        c[0] = l + (((c[0] - l) * (1.0 - l)) / (x - l));
        c[1] = l + (((c[1] - l) * (1.0 - l)) / (x - l));
        c[2] = l + (((c[2] - l) * (1.0 - l)) / (x - l));
    }
}
pub fn set_lum(c: &mut [f64; 3], l: f64) {
    let d = l - lum(c[0], c[1], c[2]);
    c[0] += d;
    c[1] += d;
    c[2] += d;
    clip_color(c);
}
/// `set_sat` with Aseprite's MIN/MID/MAX reference macros (MID is the documented-buggy one).
pub fn set_sat(c: &mut [f64; 3], s: f64) {
    let (r, g, b) = (c[0], c[1], c[2]);
    // MIN(r, MIN(g, b)) as an lvalue
    let gb_min = if g < b { 1 } else { 2 };
    let min = if r < c[gb_min] { 0 } else { gb_min };
    // MID(x,y,z) ((x) > (y) ? ((y) > (z) ? (y) : ((x) > (z) ? (z) : (x))) : ((y) > (z) ? ((z) > (x) ? (z) : (x)) : (y)))
    let mid = if r > g {
        if g > b { 1 } else if r > b { 2 } else { 0 }
    } else if g > b {
        if b > r { 2 } else { 0 }
    } else {
        1
    };
    // MAX(r, MAX(g, b))
    let gb_max = if g > b { 1 } else { 2 };
    let max = if r > c[gb_max] { 0 } else { gb_max };
    if c[max] > c[min] {
        c[mid] = ((c[mid] - c[min]) * s) / (c[max] - c[min]);
        c[max] = s;
    } else {
        c[mid] = 0.0;
        c[max] = 0.0;
    }
    c[min] = 0.0;
}

fn rgb_f(c: C) -> [f64; 3] {
    [c.0[0] as f64 / 255.0, c.0[1] as f64 / 255.0, c.0[2] as f64 / 255.0]
}
fn pack_f(c: [f64; 3], a: u8) -> C {
    // rgba(int(255.0*r), int(255.0*g), int(255.0*b), 0) | (src & rgba_a_mask)
    Rgba([((255.0 * c[0]) as i32) as u8, ((255.0 * c[1]) as i32) as u8, ((255.0 * c[2]) as i32) as u8, a])
}

// ---- old-method blenders rgba_blender_<name>(backdrop, src, opacity) ---------------------------
/// The "new source pixel" that rgba_blender_<mode> hands to rgba_blender_normal.
pub fn baseline_src(mode: u16, backdrop: C, src: C) -> C {
    let [br, bg, bb, _] = backdrop.0.map(|x| x as i32);
    let [sr, sg, sb, _] = src.0.map(|x| x as i32);
    let a = src.0[3];
    if let Some(f) = channel_fn(mode) {
        let p = rgba(f(br, sr), f(bg, sg), f(bb, sb), 0);
        return Rgba([p.0[0], p.0[1], p.0[2], a]);
    }
    match mode {
        16 => {
            let p = rgba((br + sr).min(255), (bg + sg).min(255), (bb + sb).min(255), 0);
            Rgba([p.0[0], p.0[1], p.0[2], a])
        }
        17 => {
            let p = rgba((br - sr).max(0), (bg - sg).max(0), (bb - sb).max(0), 0);
            Rgba([p.0[0], p.0[1], p.0[2], a])
        }
        12 => {
            // hsl_hue: sat & lum of backdrop applied to src
            let bk = rgb_f(backdrop);
            let s = sat(bk[0], bk[1], bk[2]);
            let l = lum(bk[0], bk[1], bk[2]);
            let mut c = rgb_f(src);
            set_sat(&mut c, s);
            set_lum(&mut c, l);
            pack_f(c, a)
        }
        13 => {
            // hsl_saturation: sat of src, lum of backdrop applied to backdrop
            let sc = rgb_f(src);
            let s = sat(sc[0], sc[1], sc[2]);
            let mut c = rgb_f(backdrop);
            let l = lum(c[0], c[1], c[2]);
            set_sat(&mut c, s);
            set_lum(&mut c, l);
            pack_f(c, a)
        }
        14 => {
            // hsl_color: lum of backdrop applied to src
            let bk = rgb_f(backdrop);
            let l = lum(bk[0], bk[1], bk[2]);
            let mut c = rgb_f(src);
            set_lum(&mut c, l);
            pack_f(c, a)
        }
        15 => {
            // hsl_luminosity: lum of src applied to backdrop
            let sc = rgb_f(src);
            let l = lum(sc[0], sc[1], sc[2]);
            let mut c = rgb_f(backdrop);
            set_lum(&mut c, l);
            pack_f(c, a)
        }
        _ => src, // 0: normal
    }
}

/// The structure of `RGBA_BLENDER_N(name)` over abstract `normal`/`merge` (so that the same text
/// serves as postcondition under the uninterpreted-function abstraction and as the executable oracle).
pub fn new_blend_with<N, M>(normal_f: &N, merge_f: &M, mode: u16, new_src: C, backdrop: C, src: C, opacity: u8) -> C
where
    N: Fn(C, C, u8) -> C,
    M: Fn(C, C, u8) -> C,
{
    if mode == 0 {
        return normal_f(backdrop, src, opacity);
    }
    if backdrop.0[3] != 0 {
        let norm = normal_f(backdrop, src, opacity);
        let blend = normal_f(backdrop, new_src, opacity);
        let ba = backdrop.0[3];
        let n2b = merge_f(norm, blend, ba);
        let src_total_alpha = mul_un8(src.0[3] as i32, opacity as i32);
        let composite_alpha = mul_un8(ba as i32, src_total_alpha);
        merge_f(n2b, blend, composite_alpha as u8)
    } else {
        normal_f(backdrop, src, opacity)
    }
}

/// `rgba_blender_<mode>_n(backdrop, src, opacity)` (mode 0 = rgba_blender_normal).
pub fn blend(mode: u16, backdrop: C, src: C, opacity: u8) -> C {
    let ns = baseline_src(mode, backdrop, src);
    new_blend_with(
        &|b, s, o| normal(b, s, o as i32),
        &|b, s, o| merge(b, s, o as i32),
        mode,
        ns,
        backdrop,
        src,
        opacity,
    )
}
