//! Byte layout of the Aseprite file format (docs/ase-file-specs.md), written as total functions of
//! the chunk payload: `None` = the payload is too short / not decodable under the format rules.
//! Decoder postconditions are stated with these, not by re-running the decoder.
#![allow(dead_code)]

pub fn le_u16(d: &[u8], o: usize) -> Option<u16> {
    if o.checked_add(2)? > d.len() {
        return None;
    }
    Some(d[o] as u16 | (d[o + 1] as u16) << 8)
}
pub fn le_i16(d: &[u8], o: usize) -> Option<i16> {
    le_u16(d, o).map(|v| v as i16)
}
pub fn le_u32(d: &[u8], o: usize) -> Option<u32> {
    if o.checked_add(4)? > d.len() {
        return None;
    }
    Some(d[o] as u32 | (d[o + 1] as u32) << 8 | (d[o + 2] as u32) << 16 | (d[o + 3] as u32) << 24)
}
pub fn le_i32(d: &[u8], o: usize) -> Option<i32> {
    le_u32(d, o).map(|v| v as i32)
}
pub fn u8_at(d: &[u8], o: usize) -> Option<u8> {
    d.get(o).copied()
}
/// STRING: WORD length n, then n bytes of UTF-8. Returns (byte range of the text, offset after it).
pub fn string_at(d: &[u8], o: usize) -> Option<(usize, usize, usize)> {
    let n = le_u16(d, o)? as usize;
    let a = o + 2;
    let b = a.checked_add(n)?;
    if b > d.len() {
        return None;
    }
    Some((a, b, b))
}
pub fn utf8_ok(d: &[u8], a: usize, b: usize) -> bool {
    core::str::from_utf8(&d[a..b]).is_ok()
}
/// need `n` more bytes at `o`
pub fn have(d: &[u8], o: usize, n: usize) -> Option<usize> {
    let e = o.checked_add(n)?;
    if e > d.len() {
        None
    } else {
        Some(e)
    }
}

// ---- layer chunk (0x2004) ---------------------------------------------------------------------
#[derive(Debug, Clone, Copy, PartialEq, Eq)]
pub struct LayerSpec {
    pub flags: u16,      // bits 0..=6 are the defined flags
    pub layer_type: u16, // 0 image, 1 group, 2 tilemap
    pub child_level: u16,
    pub blend_mode: u16, // 0..=18
    pub opacity: u8,
    pub name: (usize, usize),
    pub tileset_index: Option<u32>,
}
pub fn layer(d: &[u8]) -> Option<LayerSpec> {
    let flags = le_u16(d, 0)?;
    let layer_type = le_u16(d, 2)?;
    let child_level = le_u16(d, 4)?;
    let blend_mode = le_u16(d, 10)?;
    let opacity = u8_at(d, 12)?;
    let (a, b, next) = string_at(d, 16)?;
    if !utf8_ok(d, a, b) {
        return None;
    }
    let tileset_index = match layer_type {
        0 | 1 => None,
        2 => Some(le_u32(d, next)?),
        _ => return None,
    };
    if blend_mode > 18 {
        return None;
    }
    Some(LayerSpec { flags: flags & 0x7f, layer_type, child_level, blend_mode, opacity, name: (a, b), tileset_index })
}

// ---- cel chunk (0x2005) header ----------------------------------------------------------------
#[derive(Debug, Clone, Copy, PartialEq, Eq)]
pub struct CelHeaderSpec {
    pub layer_index: u16,
    pub x: i16,
    pub y: i16,
    pub opacity: u8,
    pub cel_type: u16,
}
pub const CEL_HEADER_LEN: usize = 16;
pub fn cel_header(d: &[u8]) -> Option<CelHeaderSpec> {
    let h = CelHeaderSpec {
        layer_index: le_u16(d, 0)?,
        x: le_i16(d, 2)?,
        y: le_i16(d, 4)?,
        opacity: u8_at(d, 6)?,
        cel_type: le_u16(d, 7)?,
    };
    have(d, 9, 7)?;
    Some(h)
}

// ---- tags chunk (0x2018) ----------------------------------------------------------------------
#[derive(Debug, Clone, Copy, PartialEq, Eq)]
pub struct TagSpec {
    pub from: u16,
    pub to: u16,
    pub dir: u8, // 0 forward, 1 reverse, 2 ping-pong
    pub repeat: u16,
    pub name: (usize, usize),
}
pub fn tags_count(d: &[u8]) -> Option<u16> {
    let n = le_u16(d, 0)?;
    have(d, 2, 8)?;
    Some(n)
}
/// tag number k starting at offset o; returns (tag, next offset)
pub fn tag_at(d: &[u8], o: usize) -> Option<(TagSpec, usize)> {
    let from = le_u16(d, o)?;
    let to = le_u16(d, o + 2)?;
    let dir = u8_at(d, o + 4)?;
    let repeat = le_u16(d, o + 5)?;
    have(d, o + 7, 6)?;
    let _color = le_u32(d, o + 13)?;
    let (a, b, next) = string_at(d, o + 17)?;
    if !utf8_ok(d, a, b) {
        return None;
    }
    if dir > 2 {
        return None;
    }
    Some((TagSpec { from, to, dir, repeat, name: (a, b) }, next))
}

// ---- slice chunk (0x2022) ---------------------------------------------------------------------
#[derive(Debug, Clone, Copy, PartialEq, Eq)]
pub struct SliceKeySpec {
    pub from_frame: u32,
    pub origin: (i32, i32),
    pub size: (u32, u32),
    pub slice9: Option<(i32, i32, u32, u32)>,
    pub pivot: Option<(i32, i32)>,
}
pub struct SliceHead {
    pub num_keys: u32,
    pub flags: u32,
    pub name: (usize, usize),
    pub keys_at: usize,
}
pub fn slice_head(d: &[u8]) -> Option<SliceHead> {
    let num_keys = le_u32(d, 0)?;
    let flags = le_u32(d, 4)?;
    let _reserved = le_u32(d, 8)?;
    let (a, b, next) = string_at(d, 12)?;
    if !utf8_ok(d, a, b) {
        return None;
    }
    Some(SliceHead { num_keys, flags, name: (a, b), keys_at: next })
}
pub fn slice_key_at(d: &[u8], o: usize, flags: u32) -> Option<(SliceKeySpec, usize)> {
    let from_frame = le_u32(d, o)?;
    let origin = (le_i32(d, o + 4)?, le_i32(d, o + 8)?);
    let size = (le_u32(d, o + 12)?, le_u32(d, o + 16)?);
    let mut p = o + 20;
    let slice9 = if flags & 1 != 0 {
        let v = (le_i32(d, p)?, le_i32(d, p + 4)?, le_u32(d, p + 8)?, le_u32(d, p + 12)?);
        p += 16;
        Some(v)
    } else {
        None
    };
    let pivot = if flags & 2 != 0 {
        let v = (le_i32(d, p)?, le_i32(d, p + 4)?);
        p += 8;
        Some(v)
    } else {
        None
    };
    Some((SliceKeySpec { from_frame, origin, size, slice9, pivot }, p))
}

// ---- user data chunk (0x2020) -----------------------------------------------------------------
#[derive(Debug, Clone, Copy, PartialEq, Eq)]
pub struct UserDataSpec {
    pub text: Option<(usize, usize)>,
    pub color: Option<[u8; 4]>,
}
pub fn user_data(d: &[u8]) -> Option<UserDataSpec> {
    let flags = le_u32(d, 0)?;
    let mut p = 4;
    let text = if flags & 1 != 0 {
        let (a, b, next) = string_at(d, p)?;
        if !utf8_ok(d, a, b) {
            return None;
        }
        p = next;
        Some((a, b))
    } else {
        None
    };
    let color = if flags & 2 != 0 {
        have(d, p, 4)?;
        Some([d[p], d[p + 1], d[p + 2], d[p + 3]])
    } else {
        None
    };
    Some(UserDataSpec { text, color })
}

// ---- external files chunk (0x2008) ------------------------------------------------------------
pub fn external_files_count(d: &[u8]) -> Option<u32> {
    let n = le_u32(d, 0)?;
    have(d, 4, 8)?;
    Some(n)
}
/// entry at o: (id, name range, next)
pub fn external_file_at(d: &[u8], o: usize) -> Option<(u32, (usize, usize), usize)> {
    let id = le_u32(d, o)?;
    have(d, o + 4, 8)?;
    let (a, b, next) = string_at(d, o + 12)?;
    if !utf8_ok(d, a, b) {
        return None;
    }
    Some((id, (a, b), next))
}

// ---- palette chunk (0x2019) -------------------------------------------------------------------
pub struct PaletteHead {
    pub first: u32,
    pub last: u32,
}
pub fn palette_head(d: &[u8]) -> Option<PaletteHead> {
    let _size = le_u32(d, 0)?;
    let first = le_u32(d, 4)?;
    let last = le_u32(d, 8)?;
    have(d, 12, 8)?;
    if last < first {
        return None;
    }
    Some(PaletteHead { first, last })
}
/// entry at o: (rgba, optional name range, next)
pub fn palette_entry_at(d: &[u8], o: usize) -> Option<([u8; 4], Option<(usize, usize)>, usize)> {
    let flags = le_u16(d, o)?;
    have(d, o + 2, 4)?;
    let rgba = [d[o + 2], d[o + 3], d[o + 4], d[o + 5]];
    let mut p = o + 6;
    let name = if flags & 1 == 1 {
        let (a, b, next) = string_at(d, p)?;
        if !utf8_ok(d, a, b) {
            return None;
        }
        p = next;
        Some((a, b))
    } else {
        None
    };
    Some((rgba, name, p))
}
/// 6-bit component scaling of the legacy chunk 0x0011: 0 -> 0, 63 -> 255, monotone
pub fn scale6(c: u8) -> Option<u8> {
    if c >= 64 {
        None
    } else {
        Some((c << 2) | (c >> 4))
    }
}

// ---- color profile chunk (0x2007) ---------------------------------------------------------------
/// Some(profile type) iff supported: type 0 (none) / 1 (sRGB) without the fixed-gamma flag
pub fn color_profile(d: &[u8]) -> Option<u16> {
    let ty = le_u16(d, 0)?;
    let flags = le_u16(d, 2)?;
    let _gamma = le_u32(d, 4)?;
    have(d, 8, 8)?;
    if ty > 1 || flags & 1 != 0 {
        return None;
    }
    Some(ty)
}

// ---- tileset chunk (0x2023) header ------------------------------------------------------------
#[derive(Debug, Clone, Copy, PartialEq, Eq)]
pub struct TilesetHeadSpec {
    pub id: u32,
    pub flags: u32,
    pub tile_count: u32,
    pub tile_w: u16,
    pub tile_h: u16,
    pub base_index: i16,
    pub name: (usize, usize),
    pub external: Option<(u32, u32)>,
    pub after: usize,
}
pub fn tileset_head(d: &[u8]) -> Option<TilesetHeadSpec> {
    let id = le_u32(d, 0)?;
    let flags = le_u32(d, 4)?;
    let tile_count = le_u32(d, 8)?;
    let tile_w = le_u16(d, 12)?;
    let tile_h = le_u16(d, 14)?;
    let base_index = le_i16(d, 16)?;
    have(d, 18, 14)?;
    let (a, b, mut p) = string_at(d, 32)?;
    if !utf8_ok(d, a, b) {
        return None;
    }
    let external = if flags & 1 != 0 {
        let v = (le_u32(d, p)?, le_u32(d, p + 4)?);
        p += 8;
        Some(v)
    } else {
        None
    };
    Some(TilesetHeadSpec { id, flags, tile_count, tile_w, tile_h, base_index, name: (a, b), external, after: p })
}

// ---- tilemap cel payload (after the 16-byte cel header) -----------------------------------------
#[derive(Debug, Clone, Copy, PartialEq, Eq)]
pub struct TilemapHeadSpec {
    pub w: u16,
    pub h: u16,
    pub bits: u16,
    pub mask_id: u32,
    pub mask_x: u32,
    pub mask_y: u32,
    pub mask_rot: u32,
}
pub const TILEMAP_HEAD_LEN: usize = 32;
pub fn tilemap_head(d: &[u8], o: usize) -> Option<TilemapHeadSpec> {
    let h = TilemapHeadSpec {
        w: le_u16(d, o)?,
        h: le_u16(d, o + 2)?,
        bits: le_u16(d, o + 4)?,
        mask_id: le_u32(d, o + 6)?,
        mask_x: le_u32(d, o + 10)?,
        mask_y: le_u32(d, o + 14)?,
        mask_rot: le_u32(d, o + 18)?,
    };
    have(d, o + 22, 10)?;
    Some(h)
}
