// Demonstration for the defect repaired by /repo commit 9c889e2 (C05 / C16).
// A tileset whose strip image is taller than u32::MAX rows: tile 1 x 65535, 65538 tiles (4_295_032_830 indexed
// pixels, all index 0, ~4 MB compressed). Before the fix the file loads; Tileset::image() then multiplies
// tile_height * tile_count in u32 (overflow panic in debug builds, height 65534 in release builds).
// After the fix the file is rejected at load time and this test passes.
// Needs ~9 GB of memory; several minutes in a debug build, well under a minute with --release.
use asefile::AsepriteFile;
use flate2::write::ZlibEncoder;
use flate2::Compression;
use std::io::Write;

fn chunk(ty: u16, body: &[u8]) -> Vec<u8> {
    let mut c = Vec::new();
    c.extend_from_slice(&((body.len() + 6) as u32).to_le_bytes());
    c.extend_from_slice(&ty.to_le_bytes());
    c.extend_from_slice(body);
    c
}

#[test]
fn tileset_strip_taller_than_u32() {
    let (tw, th, count): (u16, u16, u32) = (1, 65535, 65538);
    let npix = tw as u64 * th as u64 * count as u64;
    let mut enc = ZlibEncoder::new(Vec::new(), Compression::fast());
    let block = vec![0u8; 1 << 20];
    let mut left = npix;
    while left > 0 {
        let n = left.min(block.len() as u64) as usize;
        enc.write_all(&block[..n]).unwrap();
        left -= n as u64;
    }
    let z = enc.finish().unwrap();
    eprintln!("compressed pixel data: {} bytes for {} pixels", z.len(), npix);
    // palette chunk 0x2019 with entry 0
    let mut pal = Vec::new();
    pal.extend_from_slice(&1u32.to_le_bytes());
    pal.extend_from_slice(&0u32.to_le_bytes());
    pal.extend_from_slice(&0u32.to_le_bytes());
    pal.extend_from_slice(&[0u8; 8]);
    pal.extend_from_slice(&0u16.to_le_bytes());
    pal.extend_from_slice(&[10, 20, 30, 255]);
    // tileset chunk 0x2023
    let mut ts = Vec::new();
    ts.extend_from_slice(&7u32.to_le_bytes()); // id
    ts.extend_from_slice(&2u32.to_le_bytes()); // flags: tiles included
    ts.extend_from_slice(&count.to_le_bytes());
    ts.extend_from_slice(&tw.to_le_bytes());
    ts.extend_from_slice(&th.to_le_bytes());
    ts.extend_from_slice(&1i16.to_le_bytes()); // base index
    ts.extend_from_slice(&[0u8; 14]);
    ts.extend_from_slice(&0u16.to_le_bytes()); // name ""
    ts.extend_from_slice(&(z.len() as u32).to_le_bytes());
    ts.extend_from_slice(&z);
    let chunks = [chunk(0x2019, &pal), chunk(0x2023, &ts)];
    let mut frame = Vec::new();
    let body_len: usize = chunks.iter().map(|c| c.len()).sum();
    frame.extend_from_slice(&((16 + body_len) as u32).to_le_bytes());
    frame.extend_from_slice(&0xF1FAu16.to_le_bytes());
    frame.extend_from_slice(&(chunks.len() as u16).to_le_bytes());
    frame.extend_from_slice(&100u16.to_le_bytes());
    frame.extend_from_slice(&[0u8; 2]);
    frame.extend_from_slice(&(chunks.len() as u32).to_le_bytes());
    for c in &chunks {
        frame.extend_from_slice(c);
    }
    let mut f = Vec::new();
    f.extend_from_slice(&((128 + frame.len()) as u32).to_le_bytes());
    f.extend_from_slice(&0xA5E0u16.to_le_bytes());
    f.extend_from_slice(&1u16.to_le_bytes()); // frames
    f.extend_from_slice(&4u16.to_le_bytes());
    f.extend_from_slice(&4u16.to_le_bytes());
    f.extend_from_slice(&8u16.to_le_bytes()); // indexed
    f.extend_from_slice(&1u32.to_le_bytes());
    f.extend_from_slice(&100u16.to_le_bytes());
    f.extend_from_slice(&[0u8; 8]);
    f.push(0); // transparent index
    f.extend_from_slice(&[0u8; 3]);
    f.extend_from_slice(&1u16.to_le_bytes()); // colours
    f.push(1);
    f.push(1); // pixel ratio
    f.extend_from_slice(&[0u8; 92]);
    assert_eq!(f.len(), 128);
    f.extend_from_slice(&frame);
    let t0 = std::time::Instant::now();
    let ase = AsepriteFile::read(&f[..]);
    eprintln!("load: {:?} after {:?}", ase.as_ref().map(|_| "Ok").map_err(|e| e.to_string()), t0.elapsed());
    let ase = match ase {
        Ok(a) => a,
        Err(_) => return, // rejecting such a tileset at load time is fine
    };
    let ts = ase.tilesets().get(7).expect("tileset 7");
    assert_eq!(ts.tile_count(), count);
    // documented: height = tile height * tile count
    let r = std::panic::catch_unwind(std::panic::AssertUnwindSafe(|| ts.image().dimensions()));
    eprintln!("Tileset::image(): {:?}", r.as_ref().map_err(|_| "PANIC"));
    let want_h = th as u64 * count as u64;
    match r {
        Ok((w, h)) => assert_eq!((w as u64, h as u64), (tw as u64, want_h), "tileset image has its documented dimensions"),
        Err(_) => panic!("Tileset::image() panics on a sprite that loaded"),
    }
}
