// Demonstration for the defect repaired by /repo commit bd633c8 (C19 / C05).
// 65537 image layers; only layer 0 has a cel. Layer ids are u32 in the API but cel ids store the layer as u16.
// Before the fix the ~1.6 MB file loads and cel(0, 65536) - an in-range request - denotes the cel of layer 0
// (layer() == 0, not empty) by all three routes. After the fix the file is refused at load and the test passes.
use asefile::AsepriteFile;

fn chunk(ty: u16, body: &[u8]) -> Vec<u8> {
    let mut c = Vec::new();
    c.extend_from_slice(&((body.len() + 6) as u32).to_le_bytes());
    c.extend_from_slice(&ty.to_le_bytes());
    c.extend_from_slice(body);
    c
}

fn file_with_layers(n: u32) -> Vec<u8> {
    let mut chunks: Vec<Vec<u8>> = Vec::new();
    for _ in 0..n {
        let mut l = Vec::new();
        l.extend_from_slice(&1u16.to_le_bytes()); // visible
        l.extend_from_slice(&0u16.to_le_bytes()); // image layer
        l.extend_from_slice(&0u16.to_le_bytes()); // child level
        l.extend_from_slice(&[0u8; 4]);
        l.extend_from_slice(&0u16.to_le_bytes()); // blend normal
        l.push(255);
        l.extend_from_slice(&[0u8; 3]);
        l.extend_from_slice(&0u16.to_le_bytes()); // name ""
        chunks.push(chunk(0x2004, &l));
    }
    // one raw RGBA cel (1x1, opaque red) in layer 0
    let mut c = Vec::new();
    c.extend_from_slice(&0u16.to_le_bytes()); // layer index
    c.extend_from_slice(&0i16.to_le_bytes());
    c.extend_from_slice(&0i16.to_le_bytes());
    c.push(255);
    c.extend_from_slice(&0u16.to_le_bytes()); // raw cel
    c.extend_from_slice(&[0u8; 7]);
    c.extend_from_slice(&1u16.to_le_bytes());
    c.extend_from_slice(&1u16.to_le_bytes());
    c.extend_from_slice(&[255, 0, 0, 255]);
    chunks.push(chunk(0x2005, &c));
    let body_len: usize = chunks.iter().map(|c| c.len()).sum();
    let mut frame = Vec::new();
    frame.extend_from_slice(&((16 + body_len) as u32).to_le_bytes());
    frame.extend_from_slice(&0xF1FAu16.to_le_bytes());
    frame.extend_from_slice(&0xFFFFu16.to_le_bytes());
    frame.extend_from_slice(&100u16.to_le_bytes());
    frame.extend_from_slice(&[0u8; 2]);
    frame.extend_from_slice(&(chunks.len() as u32).to_le_bytes());
    for c in &chunks {
        frame.extend_from_slice(c);
    }
    let mut f = Vec::new();
    f.extend_from_slice(&((128 + frame.len()) as u32).to_le_bytes());
    f.extend_from_slice(&0xA5E0u16.to_le_bytes());
    f.extend_from_slice(&1u16.to_le_bytes());
    f.extend_from_slice(&1u16.to_le_bytes());
    f.extend_from_slice(&1u16.to_le_bytes());
    f.extend_from_slice(&32u16.to_le_bytes());
    f.extend_from_slice(&1u32.to_le_bytes());
    f.extend_from_slice(&100u16.to_le_bytes());
    f.extend_from_slice(&[0u8; 8]);
    f.push(0);
    f.extend_from_slice(&[0u8; 3]);
    f.extend_from_slice(&0u16.to_le_bytes());
    f.push(1);
    f.push(1);
    f.extend_from_slice(&[0u8; 92]);
    assert_eq!(f.len(), 128);
    f.extend_from_slice(&frame);
    f
}

#[test]
fn layer_ids_above_u16_do_not_alias() {
    let bytes = file_with_layers(65537);
    let ase = match AsepriteFile::read(&bytes[..]) {
        Ok(a) => a,
        Err(e) => {
            eprintln!("rejected at load: {}", e);
            return; // refusing such a file is fine
        }
    };
    assert_eq!(ase.num_layers(), 65537);
    let top = 65536u32;
    // the three routes must denote the cel of layer 65536 (which is empty), not the cel of layer 0
    let a = ase.cel(0, top);
    let fr = ase.frame(0);
    let b = fr.layer(top);
    let ly = ase.layer(top);
    let c = ly.frame(0);
    eprintln!(
        "direct: layer()={} empty={}; frame->layer: layer()={} empty={}; layer->frame: layer()={} empty={}",
        a.layer(), a.is_empty(), b.layer(), b.is_empty(), c.layer(), c.is_empty()
    );
    assert_eq!(a.layer(), top, "cel reports the layer it was asked for");
    assert!(a.is_empty() && b.is_empty() && c.is_empty(), "layer 65536 has no cel in frame 0");
}

#[test]
fn exactly_65536_layers_still_load() {
    let bytes = file_with_layers(65536);
    let ase = AsepriteFile::read(&bytes[..]).expect("65536 layers are addressable by a 16-bit index");
    assert_eq!(ase.num_layers(), 65536);
    assert_eq!(ase.cel(0, 65535).layer(), 65535);
    assert!(ase.cel(0, 65535).is_empty());
}
